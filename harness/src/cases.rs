// Case runners. Every runner catches panics: a panic in the code under test is data.
use std::panic::{catch_unwind, AssertUnwindSafe};
use std::rc::Rc;

use serde_json::{json, Value};

use crate::builtins::variables::BuiltinVarType;
use crate::compiler::symtab::SymbolScope;
use crate::compiler::Compiler;
use crate::object::array::Array;
use crate::object::Object;
use crate::parser::Parser;
use crate::proj::proj;
use crate::scanner::Scanner;
use crate::vm::interpreter::{GLOBALS_SIZE, VM};

pub fn run_case(case: &Value) -> Value {
    let kind = case.get("kind").and_then(|k| k.as_str()).unwrap_or("prog");
    crate::PANIC_LOC.with(|p| p.borrow_mut().clear());
    let r = catch_unwind(AssertUnwindSafe(|| match kind {
        "prog" => run_prog(case),
        "front" => run_front(case),
        "scan" => run_scan(case),
        "codec_probe" => codec_probe(),
        "codec_sweep" => codec_sweep(case),
        _ => json!({"how":"tool-error","msg":format!("unknown kind {}", kind)}),
    }));
    match r {
        Ok(v) => v,
        Err(_) => {
            let loc = crate::PANIC_LOC.with(|p| p.borrow().clone());
            if loc.contains("VERIF_FUEL") {
                json!({"how":"fuel"})
            } else {
                json!({"how":"panic","stage":"outer","msg":loc})
            }
        }
    }
}

fn guarded<T>(stage: &str, f: impl FnOnce() -> T) -> Result<T, Value> {
    match catch_unwind(AssertUnwindSafe(f)) {
        Ok(v) => Ok(v),
        Err(_) => {
            let loc = crate::PANIC_LOC.with(|p| p.borrow().clone());
            if loc.contains("VERIF_FUEL") {
                Err(json!({"how":"fuel","stage":stage}))
            } else {
                Err(json!({"how":"panic","stage":stage,"msg":loc}))
            }
        }
    }
}

fn init_builtin_vars(vm: &VM, args: Vec<String>) {
    let elements: Vec<Rc<Object>> = args.into_iter().map(|s| Rc::new(Object::Str(s))).collect();
    let arr = Rc::new(Object::Arr(Rc::new(Array::new(elements))));
    vm.update_builtin_var(BuiltinVarType::Argv, arr);
    vm.update_builtin_var(BuiltinVarType::NP, Rc::new(Object::Null));
    vm.update_builtin_var(BuiltinVarType::PL, Rc::new(Object::Null));
    vm.update_builtin_var(BuiltinVarType::WL, Rc::new(Object::Null));
    vm.update_builtin_var(BuiltinVarType::Tss, Rc::new(Object::Null));
    vm.update_builtin_var(BuiltinVarType::Tsu, Rc::new(Object::Null));
}

fn funcs_json(bc: &crate::compiler::Bytecode) -> (Value, std::collections::HashMap<usize, usize>) {
    // id 0 = main; constants of kind Func get ids 1.. in constant order; filters after them
    let mut ids = std::collections::HashMap::new();
    let mut v = Vec::new();
    v.push(json!({"id":0,"code":bc.instructions.code,"lines":bc.instructions.lines,"nl":0,"np":0}));
    let mut next = 1;
    let mut add = |f: &Rc<crate::object::func::CompiledFunction>, v: &mut Vec<Value>, what: &str| {
        let p = Rc::as_ptr(&f.instructions) as usize;
        if !ids.contains_key(&p) {
            ids.insert(p, next);
            v.push(json!({"id":next,"code":f.instructions.code,"lines":f.instructions.lines,
                          "nl":f.num_locals,"np":f.num_params,"what":what}));
            next += 1;
        }
    };
    for c in bc.constants.iter() {
        if let Object::Func(f) = c.as_ref() {
            add(f, &mut v, "fn");
        }
    }
    for f in bc.filters.iter() {
        add(f, &mut v, "filter");
    }
    if let Some(f) = bc.filter_end.as_ref() {
        add(f, &mut v, "end");
    }
    (json!(v), ids)
}

pub fn run_prog(case: &Value) -> Value {
    let src = case.get("src").and_then(|s| s.as_str()).unwrap_or("").to_string();
    let fuel = case.get("fuel").and_then(|s| s.as_u64()).unwrap_or(5_000_000);
    let trace = case.get("trace").and_then(|s| s.as_u64()).unwrap_or(0) as u8;
    let want_funcs = case.get("funcs").and_then(|s| s.as_bool()).unwrap_or(false);
    let obs_name = case.get("obs").and_then(|s| s.as_str()).unwrap_or("OBS").to_string();
    let argv: Vec<String> = case
        .get("argv")
        .and_then(|a| a.as_array())
        .map(|a| a.iter().filter_map(|x| x.as_str().map(|s| s.to_string())).collect())
        .unwrap_or_default();
    let mut res = json!({});

    // scan + parse
    let parsed = guarded("parse", || {
        let scanner = Scanner::new(&src);
        let mut parser = Parser::new(scanner);
        let program = parser.parse_program();
        let errs: Vec<String> = parser.parse_errors().clone();
        (program, errs)
    });
    let (program, errs) = match parsed {
        Ok(p) => p,
        Err(v) => return v,
    };
    if !errs.is_empty() {
        res["how"] = json!("parse");
        res["msg"] = json!(errs[0]);
        res["nerr"] = json!(errs.len());
        return res;
    }
    res["nstmts"] = json!(program.statements.len());

    // compile
    let mut compiler = Compiler::new();
    let compiled = guarded("compile", || compiler.compile(program));
    match compiled {
        Err(v) => return v,
        Ok(Err(e)) => {
            res["how"] = json!("compile");
            res["msg"] = json!(e.msg);
            res["line"] = json!(e.line);
            return res;
        }
        Ok(Ok(())) => {}
    }
    let obs_idx = match compiler.symtab.resolve(&obs_name, 0) {
        Some(sym) if sym.scope == SymbolScope::Global => Some(sym.index),
        _ => None,
    };
    let bytecode = compiler.bytecode();
    res["nfilters"] = json!(bytecode.filters.len() + bytecode.filter_end.is_some() as usize);
    res["nconst"] = json!(bytecode.constants.len());
    let (fj, ids) = funcs_json(&bytecode);
    if want_funcs {
        res["funcs"] = fj;
        // constants of simple kinds, for VM-level trace validation
        let consts: Vec<Value> = bytecode
            .constants
            .iter()
            .map(|c| match c.as_ref() {
                Object::Func(f) => {
                    let p = Rc::as_ptr(&f.instructions) as usize;
                    json!({"k":"fn","id":ids.get(&p).cloned().unwrap_or(0)})
                }
                other => proj(other, 0),
            })
            .collect();
        res["consts"] = json!(consts);
        let bnames: Vec<&str> = crate::builtins::functions::BUILTINFNS.iter().map(|b| b.name).collect();
        res["bnames"] = json!(bnames);
        res["obsidx"] = json!(obs_idx.map(|i| i as i64).unwrap_or(-1));
    }

    // run
    let globals = vec![Rc::new(Object::Null); GLOBALS_SIZE];
    let mut vm = VM::new_with_global_store(bytecode, globals);
    init_builtin_vars(&vm, argv);
    // optionally make the first packet of a capture file the current packet (as filter mode does)
    if let Some(path) = case.get("curr_pkt").and_then(|s| s.as_str()) {
        use crate::builtins::pcap::Pcap;
        use crate::object::file::FileHandle;
        let set = guarded("curr_pkt", || {
            let f = std::fs::File::open(path).map_err(|e| e.to_string())?;
            let fh = Rc::new(FileHandle::new_reader(std::io::BufReader::new(f)));
            let pcap = Pcap::from_file(fh).map_err(|e| e.to_string())?;
            let pkt = pcap.next_packet().map_err(|e| e.to_string())?;
            vm.set_curr_pkt(pkt);
            Ok::<(), String>(())
        });
        match set {
            Ok(Ok(())) => {}
            Ok(Err(e)) => return json!({"how":"tool-error","msg":e}),
            Err(v) => return v,
        }
    }
    crate::verif::set_fuel(fuel);
    crate::verif::set_trace_mode(trace);
    let ran = guarded("run", || vm.run());
    crate::verif::set_fuel(u64::MAX);
    let tr = crate::verif::take_trace();
    crate::verif::set_trace_mode(0);
    if trace != 0 {
        // map function pointers to ids; unknown pointers (the main function, whose Rc is
        // created inside VM::new) get id 0
        let t: Vec<Value> = tr
            .iter()
            .map(|e| {
                let fid = ids.get(&(e[1] as usize)).cloned().unwrap_or(0);
                json!([e[0], fid, e[2], e[3], e[4], e[5], e[6]])
            })
            .collect();
        res["trace"] = json!(t);
    }
    res["sp"] = json!(vm.verif_sp());
    res["fi"] = json!(vm.verif_frames_index());
    match ran {
        Err(v) => {
            res["how"] = v["how"].clone();
            res["stage"] = v["stage"].clone();
            res["msg"] = v["msg"].clone();
        }
        Ok(Err(e)) => {
            res["how"] = json!("rterror");
            res["msg"] = json!(e.msg);
            res["line"] = json!(e.line);
        }
        Ok(Ok(())) => {
            res["how"] = json!("ok");
            match guarded("last_popped", || proj(vm.last_popped().as_ref(), 0)) {
                Ok(v) => res["final"] = v,
                Err(v) => {
                    res["how"] = json!("panic");
                    res["stage"] = json!("last_popped");
                    res["msg"] = v["msg"].clone();
                }
            }
        }
    }
    if let Some(i) = obs_idx {
        match guarded("obs", || proj(vm.globals[i].as_ref(), 0)) {
            Ok(v) => res["obs"] = v,
            Err(_) => res["obs"] = json!({"k":"deep"}),
        }
    }
    res
}


// ---------------------------------------------------------------- bytecode codec (C14)
use crate::code::definitions::{lookup, make, read_operands};
use crate::code::opcode::Opcode;

/// encodings of probe operands for every opcode byte 0..=63 (the width table of the real
/// encoder is derived from them)
pub fn codec_probe() -> Value {
    let mut v = Vec::new();
    for op in 0u8..64 {
        let o = Opcode::from(op);
        if matches!(o, Opcode::Invalid) {
            v.push(json!({"op": op, "defined": false}));
            continue;
        }
        let enc = make(o, &[0x0102, 0x0304, 0x0506], 1);
        v.push(json!({"op": op, "defined": true, "name": format!("{:?}", o), "enc": enc.code, "lines": enc.lines.len()}));
    }
    json!({"how":"ok","probe":v})
}

/// every opcode x every operand value of its widths through the real make / read_operands.
/// Reports, per opcode, how many in-range operand tuples round-trip, the first that does not,
/// and a stratified sample of (operands, bytes, decoded) records for validation by TLC.
pub fn codec_sweep(case: &Value) -> Value {
    let widths: Vec<Vec<u64>> = serde_json::from_value(case["widths"].clone()).unwrap();
    let stride = case.get("sample_stride").and_then(|s| s.as_u64()).unwrap_or(997);
    let mut per_op = Vec::new();
    let mut sample = Vec::new();
    let mut counter: u64 = 0;
    for (op, ws) in widths.iter().enumerate() {
        let o = Opcode::from(op as u8);
        let def = match lookup(op as u8) {
            Ok(d) => d,
            Err(_) => continue,
        };
        let lim = |w: u64| -> u64 { if w == 1 { 256 } else { 65536 } };
        let n1 = if !ws.is_empty() { lim(ws[0]) } else { 1 };
        let n2 = if ws.len() > 1 { lim(ws[1]) } else { 1 };
        let mut ok = 0u64;
        let mut first_bad = Value::Null;
        for a in 0..n1 {
            for b in 0..n2 {
                let operands: Vec<usize> = match ws.len() {
                    0 => vec![],
                    1 => vec![a as usize],
                    _ => vec![a as usize, b as usize],
                };
                let enc = make(o, &operands, 7);
                let good = if enc.code.is_empty() {
                    false
                } else {
                    let (dec, read) = read_operands(def, &enc.code[1..]);
                    enc.code[0] == op as u8
                        && dec == operands
                        && read + 1 == enc.code.len()
                        && enc.lines.len() == enc.code.len()
                };
                if good {
                    ok += 1;
                } else if first_bad.is_null() {
                    first_bad = json!({"operands": operands, "enc": enc.code});
                }
                counter += 1;
                if counter % stride == 0 || a + 1 == n1 && b + 1 == n2 || (a == 0 && b == 0) {
                    let dec = if enc.code.is_empty() { (vec![], 0) } else { read_operands(def, &enc.code[1..]) };
                    sample.push(json!({"op": op, "operands": operands, "enc": enc.code, "dec": dec.0, "read": dec.1}));
                }
            }
        }
        per_op.push(json!({"op": op, "tuples": n1 * n2, "ok": ok, "first_bad": first_bad}));
    }
    json!({"how":"ok","per_op":per_op,"sample":sample})
}


// ---------------------------------------------------------------- front end only (C01)
/// scan + parse + compile of each text in `srcs` (no execution); one compact outcome per text:
/// "o" compiled, "p" parse diagnostics, "c" compile diagnostics, "P<stage>|<location>" panic
pub fn run_front(case: &Value) -> Value {
    let srcs: Vec<String> = serde_json::from_value(case["srcs"].clone()).unwrap_or_default();
    let mut outs: Vec<String> = Vec::with_capacity(srcs.len());
    crate::FRONT_OUTS.lock().unwrap().clear();
    for src in srcs.iter() {
        // publish what is done so far: a hang is reported with the outcomes before it
        {
            let mut g = crate::FRONT_OUTS.lock().unwrap();
            while g.len() < outs.len() {
                let k = g.len();
                g.push(outs[k].clone());
            }
        }
        crate::progress();
        let parsed = guarded("parse", || {
            let scanner = Scanner::new(src);
            let mut parser = Parser::new(scanner);
            let program = parser.parse_program();
            let n = parser.parse_errors().len();
            (program, n)
        });
        let (program, nerr) = match parsed {
            Ok(p) => p,
            Err(v) => {
                outs.push(format!("Pparse|{}", v["msg"].as_str().unwrap_or("")));
                continue;
            }
        };
        if nerr > 0 {
            outs.push("p".to_string());
            continue;
        }
        let mut compiler = Compiler::new();
        match guarded("compile", || compiler.compile(program)) {
            Err(v) => outs.push(format!("Pcompile|{}", v["msg"].as_str().unwrap_or(""))),
            Ok(Err(_)) => outs.push("c".to_string()),
            Ok(Ok(())) => outs.push("o".to_string()),
        }
    }
    json!({"how":"ok","outs":outs})
}


// ---------------------------------------------------------------- scanner only (C01, Scanner.tla conformance)
/// token types (Debug names) the real scanner produces for each text, up to and excluding Eof
pub fn run_scan(case: &Value) -> Value {
    let srcs: Vec<String> = serde_json::from_value(case["srcs"].clone()).unwrap_or_default();
    let mut outs: Vec<Value> = Vec::with_capacity(srcs.len());
    crate::FRONT_OUTS.lock().unwrap().clear();
    for src in srcs.iter() {
        // publish what is done so far (a hang is reported with the token lists before it); the deadline is per text
        {
            let mut g = crate::FRONT_OUTS.lock().unwrap();
            while g.len() < outs.len() {
                let k = g.len();
                g.push(outs[k].to_string());
            }
        }
        crate::progress();
        let r = guarded("scan", || {
            let scanner = Scanner::new(src);
            let mut v: Vec<String> = Vec::new();
            for tok in scanner {
                v.push(format!("{:?}", tok.ttype));
                if v.len() > src.chars().count() + 2 {
                    v.push("RUNAWAY".to_string());
                    break;
                }
            }
            v
        });
        match r {
            Ok(v) => outs.push(json!(v)),
            Err(e) => outs.push(json!([format!("PANIC {}", e["msg"].as_str().unwrap_or(""))])),
        }
    }
    json!({"how":"ok","toks":outs})
}
