// Conformance harness for p2sh: mounts the repository's modules by path (p2sh has no
// library target) and runs cases given as JSON lines, writing one JSON result per line.
#![allow(dead_code, unused_imports, clippy::all)]

#[path = "/repo/src/builtins/mod.rs"]
mod builtins;
#[path = "/repo/src/code/mod.rs"]
mod code;
#[path = "/repo/src/compiler/mod.rs"]
mod compiler;
#[path = "/repo/src/object/mod.rs"]
mod object;
#[path = "/repo/src/parser/mod.rs"]
mod parser;
#[path = "/repo/src/scanner/mod.rs"]
mod scanner;
#[path = "/repo/src/verif.rs"]
mod verif;
#[path = "/repo/src/vm/mod.rs"]
mod vm;

mod cases;
mod proj;

use std::io::{BufRead, Write};
use std::sync::atomic::{AtomicU64, Ordering};
use std::sync::{Arc, Mutex};

use serde_json::{json, Value};

pub static CASE_START_MS: AtomicU64 = AtomicU64::new(0);
/// outcomes of the texts of the running `front` batch so far (reported by the watchdog on a hang)
pub static FRONT_OUTS: Mutex<Vec<String>> = Mutex::new(Vec::new());

/// called by batch runners after each item: the deadline applies per item
pub fn progress() {
    if CASE_START_MS.load(Ordering::SeqCst) != 0 {
        CASE_START_MS.store(now_ms(), Ordering::SeqCst);
    }
}

fn now_ms() -> u64 {
    use std::time::{SystemTime, UNIX_EPOCH};
    SystemTime::now().duration_since(UNIX_EPOCH).unwrap().as_millis() as u64
}

thread_local! {
    pub static PANIC_LOC: std::cell::RefCell<String> = const { std::cell::RefCell::new(String::new()) };
}

fn main() {
    let args: Vec<String> = std::env::args().collect();
    if args.len() < 4 || args[1] != "run" {
        eprintln!("usage: p2h run <cases.ndjson> <results.ndjson> [skip] [deadline_ms]");
        std::process::exit(2);
    }
    let skip: usize = args.get(4).and_then(|s| s.parse().ok()).unwrap_or(0);
    let deadline_ms: u64 = args.get(5).and_then(|s| s.parse().ok()).unwrap_or(10_000);
    let input = std::fs::File::open(&args[2]).expect("cases file");
    let out = std::fs::OpenOptions::new()
        .create(true)
        .append(true)
        .open(&args[3])
        .expect("results file");
    let out = Arc::new(Mutex::new(out));

    std::panic::set_hook(Box::new(|info| {
        let loc = info
            .location()
            .map(|l| {
                let f = l.file();
                let f = f.strip_prefix("/repo/").unwrap_or(f);
                format!("{}:{}", f, l.line())
            })
            .unwrap_or_default();
        let msg = if let Some(s) = info.payload().downcast_ref::<&str>() {
            s.to_string()
        } else if let Some(s) = info.payload().downcast_ref::<String>() {
            s.clone()
        } else {
            String::new()
        };
        PANIC_LOC.with(|p| *p.borrow_mut() = format!("{}|{}", loc, msg));
    }));

    // watchdog: a case that exceeds the deadline is reported as a timeout and the process
    // exits with status 3; the driver restarts after it.
    let cur_id: Arc<Mutex<Option<(usize, Value)>>> = Arc::new(Mutex::new(None));
    {
        let cur_id = cur_id.clone();
        let out = out.clone();
        std::thread::spawn(move || loop {
            std::thread::sleep(std::time::Duration::from_millis(50));
            let st = CASE_START_MS.load(Ordering::SeqCst);
            if st != 0 && now_ms() > st + deadline_ms {
                let g = cur_id.lock().unwrap();
                if let Some((n, id)) = g.as_ref() {
                    let mut o = out.lock().unwrap();
                    let outs = FRONT_OUTS.try_lock().map(|v| v.clone()).unwrap_or_default();
                    let _ = writeln!(o, "{}", json!({"id": id, "how": "timeout", "n": n, "done_outs": outs}));
                    let _ = o.flush();
                }
                std::process::exit(3);
            }
        });
    }

    let reader = std::io::BufReader::new(input);
    // the heavy lifting happens on a thread with a big stack (deeply nested inputs)
    let child = std::thread::Builder::new()
        .stack_size(1 << 30)
        .spawn(move || {
            for (n, line) in reader.lines().enumerate() {
                let line = line.unwrap();
                if n < skip || line.trim().is_empty() {
                    continue;
                }
                let case: Value = match serde_json::from_str(&line) {
                    Ok(v) => v,
                    Err(e) => {
                        eprintln!("bad case line {}: {}", n, e);
                        std::process::exit(2);
                    }
                };
                let id = case.get("id").cloned().unwrap_or(Value::Null);
                *cur_id.lock().unwrap() = Some((n, id.clone()));
                CASE_START_MS.store(now_ms(), Ordering::SeqCst);
                let mut res = cases::run_case(&case);
                CASE_START_MS.store(0, Ordering::SeqCst);
                res["id"] = id;
                res["n"] = json!(n);
                let mut o = out.lock().unwrap();
                writeln!(o, "{}", res).unwrap();
            }
            out.lock().unwrap().flush().unwrap();
        })
        .unwrap();
    if child.join().is_err() {
        std::process::exit(4);
    }
}
