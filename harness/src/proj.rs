// Projection of runtime objects to the JSON value encoding shared with the TLA+ specs
// (DESIGN.md appendix A).
use serde_json::{json, Value};

use crate::object::Object;

pub fn int_limbs(n: i64) -> Value {
    let b = n.to_le_bytes();
    json!(b.iter().map(|x| *x as u64).collect::<Vec<u64>>())
}

pub fn float_json(x: f64) -> Value {
    let bits: Vec<u64> = x.to_le_bytes().iter().map(|b| *b as u64).collect();
    if x.is_nan() {
        return json!({"k":"float","c":"nan","m":0,"e":0});
    }
    if x.is_infinite() {
        return json!({"k":"float","c": if x > 0.0 {"pinf"} else {"ninf"},"m":0,"e":0});
    }
    if x == 0.0 {
        if x.is_sign_negative() {
            return json!({"k":"float","c":"nzero","m":0,"e":0});
        }
        return json!({"k":"float","c":"dy","m":0,"e":0});
    }
    // m / 2^e with |m| <= 2^20 and 0 <= e <= 8 (the float model of spec/Values.tla)
    let mut e = 0;
    let mut y = x;
    while e <= 8 {
        if y.fract() == 0.0 && y.abs() <= 1_048_576.0 {
            return json!({"k":"float","c":"dy","m": y as i64, "e": e});
        }
        if y.abs() > 1_048_576.0 * 256.0 {
            break;
        }
        y *= 2.0;
        e += 1;
    }
    json!({"k":"float","c":"oom","m":0,"e":0,"bits":bits})
}

pub fn str_cps(s: &str) -> Value {
    json!(s.chars().map(|c| c as u32).collect::<Vec<u32>>())
}

pub fn proj(obj: &Object, depth: usize) -> Value {
    if depth > 24 {
        return json!({"k":"deep"});
    }
    match obj {
        Object::Null => json!({"k":"null"}),
        Object::Bool(b) => json!({"k":"bool","v":b}),
        Object::Integer(n) => json!({"k":"int","v":int_limbs(*n)}),
        Object::Byte(b) => json!({"k":"byte","v":b}),
        Object::Char(c) => json!({"k":"char","v":*c as u32}),
        Object::Str(s) => json!({"k":"str","v":str_cps(s)}),
        Object::Float(x) => float_json(*x),
        Object::Arr(a) => {
            let els: Vec<Value> = a.elements.borrow().iter().map(|e| proj(e, depth + 1)).collect();
            json!({"k":"arr","v":els})
        }
        Object::Map(m) => {
            let mut prs: Vec<(String, Value)> = m
                .pairs
                .borrow()
                .iter()
                .map(|(k, v)| {
                    let kj = proj(k, depth + 1);
                    let vj = proj(v, depth + 1);
                    (kj.to_string(), json!([kj, vj]))
                })
                .collect();
            prs.sort_by(|a, b| a.0.cmp(&b.0));
            json!({"k":"map","v":prs.into_iter().map(|p| p.1).collect::<Vec<Value>>()})
        }
        Object::Builtin(b) => json!({"k":"builtin","v":b.name}),
        Object::Func(_) | Object::Clos(_) => json!({"k":"fn"}),
        Object::Return(v) => proj(v, depth + 1),
        Object::File(_) => json!({"k":"file"}),
        Object::Err(e) => json!({"k":"err","v":format!("{}", e)}),
        Object::Pcap(_) => json!({"k":"pcap"}),
        other => json!({"k":"pkt","v":format!("{}", other)}),
    }
}
