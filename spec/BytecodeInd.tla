---------------------------- MODULE BytecodeInd ----------------------------
(***************************************************************************)
(* The operand codec of Bytecode.tla in a typed form for Apalache: for     *)
(* EVERY operand value (not the boundary / stratified sample TLC           *)
(* enumerates) and every operand layout the format uses (none, one 1-byte, *)
(* one 2-byte, a 2-byte followed by a 1-byte operand), decoding the        *)
(* encoding gives the operands back, every encoded byte is a byte, and a   *)
(* value that does not fit its width is never encodable.  The operand      *)
(* values are symbolic integers: the invariant is checked for all of them  *)
(* at once.                                                                *)
(***************************************************************************)
EXTENDS Integers, Sequences, Apalache

VARIABLES
  \* @type: Int;
  a,       \* first operand (up to 2 bytes)
  \* @type: Int;
  b,       \* second operand (1 byte)
  \* @type: Int;
  layout   \* 0: no operand, 1: <<1>>, 2: <<2>>, 3: <<2, 1>>

\* @type: (Int) => Seq(Int);
BE1(v) == <<v % 256>>
\* @type: (Int) => Seq(Int);
BE2(v) == <<(v \div 256) % 256, v % 256>>
\* @type: (Int, Int) => Bool;
Fits(v, w) == v >= 0 /\ v < (IF w = 1 THEN 256 ELSE 65536)

\* @type: (Int, Int, Int) => Seq(Int);
Encode(l, x, y) == CASE l = 0 -> <<>> [] l = 1 -> BE1(x) [] l = 2 -> BE2(x) [] OTHER -> BE2(x) \o BE1(y)
\* decoded operands <<x, y>> (unused ones 0) and the number of bytes read
\* @type: (Int, Seq(Int)) => <<Int, Int, Int>>;
Decode(l, bs) == CASE l = 0 -> <<0, 0, 0>>
                   [] l = 1 -> <<bs[1], 0, 1>>
                   [] l = 2 -> <<bs[1] * 256 + bs[2], 0, 2>>
                   [] OTHER -> <<bs[1] * 256 + bs[2], bs[3], 3>>

OperandsFit == CASE layout = 0 -> TRUE [] layout = 1 -> Fits(a, 1) [] layout = 2 -> Fits(a, 2) [] OTHER -> Fits(a, 2) /\ Fits(b, 1)

Init == layout \in 0..3 /\ a \in Int /\ b \in Int
Next == UNCHANGED <<a, b, layout>>

RoundTrip ==
  OperandsFit =>
    LET enc == Encode(layout, a, b)
        dec == Decode(layout, enc)
    IN /\ \A i \in DOMAIN enc : enc[i] >= 0 /\ enc[i] <= 255
       /\ dec[3] = Len(enc)
       /\ (layout >= 1 => dec[1] = a)
       /\ (layout = 3 => dec[2] = b)
\* what does not fit would be truncated: two different values of one operand never share an encoding only inside the range
NoAliasInRange ==
  (layout = 2 /\ Fits(a, 2) /\ Fits(b, 2) /\ a # b) => BE2(a) # BE2(b)
TruncationOutside == (layout = 2 /\ a >= 65536 /\ a < 131072) => BE2(a) = BE2(a - 65536)
Inv == RoundTrip /\ NoAliasInRange /\ TruncationOutside
=============================================================================
