SPECIFICATION Spec
CONSTANTS
 NChunks = 32
 MaxDepth = 10
 MaxIter = 10
CHECK_DEADLOCK FALSE
