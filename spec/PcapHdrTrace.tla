---------------------------- MODULE PcapHdrTrace ----------------------------
(***************************************************************************)
(* C16, the capture file's own header: the seven properties of a pcap      *)
(* object (magic, major, minor, thiszone, sigfigs, snaplen, linktype) are  *)
(* the fields of the 24-byte global header of the legacy pcap format, in   *)
(* the byte order the magic number announces; thiszone is a signed 32-bit  *)
(* two's-complement number, the others are unsigned.                       *)
(* A record carries the 24 header bytes and, per property, the integer the *)
(* real interpreter returned as sign + magnitude bytes (little-endian, 8    *)
(* bytes: TLC's integers are too narrow for 2^32 - 1).                      *)
(***************************************************************************)
EXTENDS Integers, Sequences, TLC, Json, IOUtils

ASSUME TLCSet(7, ndJsonDeserialize(IOEnv.TRACE))
Recs == TLCGet(7)

\* name, offset (0-based), width, signed
Fields == << <<"magic", 0, 4, FALSE>>, <<"major", 4, 2, FALSE>>, <<"minor", 6, 2, FALSE>>, <<"thiszone", 8, 4, TRUE>>,
             <<"sigfigs", 12, 4, FALSE>>, <<"snaplen", 16, 4, FALSE>>, <<"linktype", 20, 4, FALSE>> >>

\* the file is little-endian when its first byte is the low byte of a1b2c3d4 (d4) or of the nanosecond magic a1b23c4d (4d)
LittleEndian(raw) == raw[1] \in {212, 77}
Rev(s) == [i \in 1..Len(s) |-> s[Len(s) + 1 - i]]
\* the field's bytes, least significant first
LE(raw, off, w) == LET bs == SubSeq(raw, off + 1, off + w) IN IF LittleEndian(raw) THEN bs ELSE Rev(bs)
Pad8(bs) == bs \o [i \in 1..(8 - Len(bs)) |-> 0]
\* two's-complement negation of a little-endian byte string: invert, add one
RECURSIVE AddOne(_, _)
AddOne(bs, i) == IF i > Len(bs) THEN bs
                 ELSE IF bs[i] = 255 THEN AddOne([bs EXCEPT ![i] = 0], i + 1) ELSE [bs EXCEPT ![i] = bs[i] + 1]
Negate(bs) == AddOne([i \in 1..Len(bs) |-> 255 - bs[i]], 1)
\* [neg, mag]: what the property must read as
Expected(raw, f) ==
  LET bs == LE(raw, f[2], f[3])
  IN IF f[4] /\ bs[Len(bs)] >= 128 THEN [neg |-> TRUE, mag |-> Pad8(Negate(bs))] ELSE [neg |-> FALSE, mag |-> Pad8(bs)]

Verdict(rec) ==
  LET wrong == {i \in 1..Len(Fields) :
                  LET f == Fields[i]   o == rec.obs[f[1]]   e == Expected(rec.raw, f)
                  IN ~(o.k = "int" /\ o.neg = e.neg /\ o.mag = e.mag)}
  IN [id |-> rec.id, v |-> IF wrong = {} THEN "ok" ELSE "bad",
      first |-> IF wrong = {} THEN "" ELSE Fields[CHOOSE i \in wrong : \A j \in wrong : i <= j][1]]

VARIABLE pc
Init == pc = "run"
Next == /\ pc = "run"
        /\ ndJsonSerialize(IOEnv.OUTDIR \o "/v0.ndjson", [i \in 1..Len(Recs) |-> Verdict(Recs[i])])
        /\ pc' = "done"
Spec == Init /\ [][Next]_pc
=============================================================================
