-------------------------------- MODULE VMRun --------------------------------
(***************************************************************************)
(* Trace validation of recorded executions of the real VM against the      *)
(* machine specification VM.tla (C02 / C07 / C08 / C14 at machine level).   *)
(*                                                                         *)
(* Each record of IOEnv.TRACE is one execution of the real interpreter:    *)
(*   funcs, consts, widths, bnames : the program the real compiler emitted *)
(*   trace : one event <<fi, func, ip, op, sp, tk, tv>> per executed       *)
(*           instruction, logged by hook H2 BEFORE the instruction runs    *)
(*           (fi = number of frames, sp = stack height, (tk, tv) = digest  *)
(*           of the top of the stack: kind and scalar content / length)    *)
(*   out   : how the run ended (how, sp, line, final, obs), obsidx         *)
(*   prog  : optionally the abstract syntax the program was rendered from  *)
(*                                                                         *)
(* The trace specification runs the machine of VM.tla in lock step with    *)
(* the trace: every record is an initial state (pi = record number, so TLC *)
(* validates the records in parallel), event l must describe the state the *)
(* machine is in (TEvent), then the machine takes its step (VMNext).  At   *)
(* the end of the trace the machine's outcome must be the recorded one     *)
(* and - when the syntax is known - the outcome the reference semantics    *)
(* prescribes for the source program: the compiler is validated, program   *)
(* by program, inside TLC (RefSem.Run(ast) = VM(compile(ast))).            *)
(*                                                                         *)
(* On every state of every execution the machine invariants of VM.tla are  *)
(* evaluated (FetchAligned, NeverStuck, FramesNested, NoUnderflow) together *)
(* with the stack discipline of C07 (statement markers and loop heads see  *)
(* one stack height per activation).  A failed check does not stop TLC:    *)
(* it ends that execution with a verdict line; the other executions are    *)
(* still validated.                                                        *)
(***************************************************************************)
EXTENDS Json, IOUtils, TLC

CONSTANTS StackSize, MaxFrames, MaxDepth, MaxIter
VARIABLES pi, s, steps

\* The trace file is parsed once, at start-up, into a TLC register (TLC re-evaluates a definition that
\* reads a file on every reference); the machine of VM.tla is instantiated on these records.
ASSUME TLCSet(7, ndJsonDeserialize(IOEnv.TRACE))
Recs == TLCGet(7)
INSTANCE VM WITH Progs <- Recs
\* opcode numbers as the real code numbers them (record field opc: name -> number)
TransferNames == {"Jump", "JumpIfFalse", "JumpIfFalseNoPop", "Call", "Return", "ReturnValue"}

VARIABLES l,      \* next event of the trace (1-based); 0 when the execution has its verdict
          aux     \* per-frame bookkeeping for C07: <<marks, heads>> association lists
tvars == <<pi, s, steps, l, aux>>

P == Recs[pi]
Tr == P.trace

\* ------------------------------ digests ------------------------------------
Low24(w) == w[1] + 256 * w[2] + 65536 * w[3]
KindNo(v) == CASE v.k = "null" -> 0 [] v.k = "bool" -> 1 [] v.k = "int" -> 2 [] v.k = "byte" -> 3 [] v.k = "char" -> 4
               [] v.k = "str" -> 5 [] v.k = "float" -> 6 [] v.k = "arr" -> 7 [] v.k = "map" -> 8
               [] v.k \in {"clos", "fn"} -> 9 [] v.k = "builtin" -> 10 [] OTHER -> 11
Scalar(h, v) == CASE v.k = "bool" -> (IF v.v THEN 1 ELSE 0) [] v.k = "int" -> Low24(v.v)
                  [] v.k \in {"byte", "char"} -> v.v [] v.k = "str" -> Len(v.v) % 16777216
                  [] v.k \in {"arr", "map"} -> Len(h[v.id].v) % 16777216 [] OTHER -> 0
TosMatches(st, e) ==
  LET v == IF st.sp = 0 THEN Null ELSE st.stk[st.sp]
  IN Vague(v) \/ (KindNo(v) = e[6] /\ Scalar(st.st.heap, v) = e[7])

\* first facet of the event that does not describe the machine state, or "" when it fits
EventMismatch(st, e) ==
  LET fr == TopF(st)  code == Fn(P, fr.fn).code IN
  CASE ~Running(st) -> "the implementation executes on after the machine stopped (" \o st.status \o ")"
    [] Len(st.frames) # e[1] -> "frame depth"
    [] fr.fn # e[2] -> "function of the current frame"
    [] fr.ip # e[3] -> "ip"
    [] fr.ip + 1 > Len(code) \/ code[fr.ip + 1] # e[4] -> "opcode"
    [] st.sp # e[5] -> "sp"
    [] ~TosMatches(st, e) -> "top of stack"
    [] OTHER -> ""

\* ----------------------------- C07 bookkeeping -----------------------------
AssocGet(al, k) == FoldLeft(LAMBDA acc, p : IF p[1] = k THEN p[2] ELSE acc, -1, al)
Frame0 == [marks |-> <<>>, heads |-> <<>>]
\* marker statements are string constants starting with the section sign
IsMarkerAt(st) ==
  LET fr == TopF(st)  code == Fn(P, fr.fn).code IN
  /\ fr.ip + 3 <= Len(code) /\ code[fr.ip + 1] = P.opc.Constant
  /\ LET ci == Operands(P.widths, code, fr.ip)[1]
     IN ci + 1 <= Len(P.consts) /\ P.consts[ci + 1].k = "str" /\ Len(P.consts[ci + 1].v) >= 1 /\ P.consts[ci + 1].v[1] = 167
MarkerKey(st) == LET fr == TopF(st) IN P.consts[Operands(P.widths, Fn(P, fr.fn).code, fr.ip)[1] + 1].v
IsBackJump(st) ==
  LET fr == TopF(st)  code == Fn(P, fr.fn).code IN
  fr.ip + 3 <= Len(code) /\ code[fr.ip + 1] = P.opc.Jump /\ Operands(P.widths, code, fr.ip)[1] <= fr.ip
\* aux brought to the machine's frame depth, then the discipline check for the instruction about to run:
\* "" or what is wrong
AuxFit(a, depth) == IF Len(a) > depth THEN SubSeq(a, 1, depth)
                    ELSE IF Len(a) < depth THEN a \o [i \in 1..(depth - Len(a)) |-> Frame0] ELSE a
Discipline(st, a) ==
  LET d == Len(st.frames)  fr == a[d] IN
  IF IsMarkerAt(st) THEN
     LET seen == AssocGet(fr.marks, MarkerKey(st))
     IN IF seen = -1 THEN [bad |-> "", a |-> [a EXCEPT ![d].marks = Append(@, <<MarkerKey(st), st.sp>>)]]
        ELSE IF seen # st.sp THEN [bad |-> "statement boundary of a block seen at two stack heights", a |-> a]
        ELSE [bad |-> "", a |-> a]
  ELSE IF IsBackJump(st) THEN
     LET tgt == Operands(P.widths, Fn(P, TopF(st).fn).code, TopF(st).ip)[1]
         seen == AssocGet(fr.heads, tgt)
     IN IF seen = -1 THEN [bad |-> "", a |-> [a EXCEPT ![d].heads = Append(@, <<tgt, st.sp>>)]]
        ELSE IF seen # st.sp THEN [bad |-> "loop head reached at two stack heights", a |-> a]
        ELSE [bad |-> "", a |-> a]
  ELSE [bad |-> "", a |-> a]

\* ----------------------------- machine invariants --------------------------
\* (VM.tla states them over the variables; here they are evaluated on a state value)
\* alignment needs re-checking only after a transfer of control: moving on by the length of an
\* aligned instruction stays aligned
InvBroken(st, op) ==
  LET top == TopF(st) IN
  CASE st.status = "stuck" -> "NeverStuck: " \o st.err.c
    [] st.status = "err" /\ st.err.c = "underflow" -> "NoUnderflow"
    [] ~(/\ Len(st.frames) >= 1 /\ st.frames[1].bp = 0 /\ st.sp <= StackSize
         /\ \A i \in 2..Len(st.frames) : st.frames[i].bp > st.frames[i - 1].bp + Fn(P, st.frames[i - 1].fn).nl
         /\ (Running(st) => st.sp >= top.bp + Fn(P, top.fn).nl)) -> "FramesNested"
    [] Running(st) /\ op < Len(P.opnames) /\ P.opnames[op + 1] \in TransferNames /\ ~(top.ip = Len(Fn(P, top.fn).code) \/ top.ip \in InstrStarts(P.widths, Fn(P, top.fn).code)) -> "FetchAligned"
    [] OTHER -> ""

\* ------------------------------- verdicts ----------------------------------
Say(v, why, at) == PrintT(<<"VMV", ToJson([id |-> P.id, v |-> v, why |-> why, at |-> at, n |-> Len(Tr),
                                           status |-> s.status, steps |-> steps])>>)

RECURSIVE MatchV(_, _)
\* does the recorded value j (JSON projection) equal the machine's value v (reified) ?
MatchV(v, j) ==
  CASE j.k \in {"deep", "any", "anystr"} \/ v.k \in {"any", "deep", "none"} -> TRUE      \* (either side may be vague)
    [] v.k = "anystr" -> j.k = "str"
    [] v.k = "float" -> j.k = "float" /\ (v.c = "oom" \/ j.c = "oom" \/ (v.c = j.c /\ v.m = j.m /\ v.e = j.e))
    [] v.k = "arr" -> j.k = "arr" /\ Len(v.v) = Len(j.v) /\ \A i \in 1..Len(v.v) : MatchV(v.v[i], j.v[i])
    [] v.k = "map" -> /\ j.k = "map" /\ Len(v.v) = Len(j.v)
                      /\ \A i \in 1..Len(v.v) : \E n \in 1..Len(j.v) : MatchV(v.v[i][1], j.v[n][1]) /\ MatchV(v.v[i][2], j.v[n][2])
    [] v.k = "fn" -> j.k = "fn"
    [] v.k = "eobj" -> j.k \in {"err", "eobj"}
    [] v.k = "null" -> j.k = "null"
    [] OTHER -> j.k = v.k /\ j.v = v.v

FinalOf(st) == Reify(st.st.heap, Slot(st.stk, st.sp + 1), 8)
ObsOfM(st) == IF P.obsidx < 0 THEN [k |-> "none"] ELSE Reify(st.st.heap, Slot(st.glob, P.obsidx + 1), 8)

\* the machine's outcome against the recorded end of the run: "" or what differs
EndMismatch(st) ==
  LET out == P.out IN
  CASE out.how = "ok" ->
         IF st.status # "ok" THEN "the implementation ended normally, the machine is " \o st.status
         ELSE IF st.sp # out.sp THEN "final sp"
         ELSE IF ~MatchV(FinalOf(st), out.final) THEN "last popped value"
         ELSE IF ~MatchV(ObsOfM(st), out.obs) THEN "observations"
         ELSE ""
    [] out.how = "rterror" ->
         IF st.status # "err" THEN "the implementation reported a runtime error, the machine is " \o st.status
         ELSE IF st.err.ln # out.line THEN "line of the runtime error"
         ELSE IF ~MatchV(ObsOfM(st), out.obs) THEN "observations"
         ELSE ""
    [] OTHER -> ""       \* fuel ran out / crash: the prefix was validated; crashes are C08's verdict

\* the machine's outcome against the reference semantics of the source program
HasProg == "prog" \in DOMAIN P
RefMismatch(st) ==
  IF ~HasProg THEN "" ELSE
  LET exp == Run(P.prog) IN
  CASE exp.how = "unspec" \/ exp.how = "compile" -> ""
    [] exp.how = "ok" ->
         IF st.status # "ok" THEN "RefSem: runs to the end; machine on the compiled code: " \o st.status
         ELSE IF ~MatchV(exp.obs, ObsOfM(st)) THEN "RefSem: observations differ from the machine's on the compiled code"
         ELSE IF exp.final.k # "any" /\ ~MatchV(exp.final, FinalOf(st)) THEN "RefSem: final value differs"
         ELSE ""
    [] exp.how = "rterror" ->
         IF st.status # "err" THEN "RefSem: runtime error; machine on the compiled code: " \o st.status
         ELSE IF st.err.ln # exp.err.ln THEN "RefSem: error line differs"
         ELSE IF ~MatchV(exp.obs, ObsOfM(st)) THEN "RefSem: observations differ"
         ELSE ""

\* ------------------------------ the trace machine --------------------------
TInit == VMInit /\ l = 1 /\ aux = <<Frame0>>

\* consume event l: it must describe the current machine state; then the machine steps
TEvent ==
  /\ l >= 1 /\ l <= Len(Tr)
  /\ LET mis == EventMismatch(s, Tr[l])
         a0 == AuxFit(aux, Len(s.frames))
         dis == Discipline(s, a0)
     IN IF mis # "" THEN /\ Say("diverged", mis, l) /\ l' = 0 /\ UNCHANGED <<pi, s, steps, aux>>
        ELSE IF dis.bad # "" THEN /\ Say("discipline", dis.bad, l) /\ l' = 0 /\ UNCHANGED <<pi, s, steps, aux>>
        ELSE /\ VMNext
             /\ aux' = dis.a
             /\ LET inv == InvBroken(s', Tr[l][4])
                IN IF inv # "" THEN Say("invariant", inv, l) /\ l' = 0
                   ELSE IF s'.status = "unspec" THEN Say("unspec", "", l) /\ l' = 0
                   ELSE l' = l + 1

\* the trace is consumed: a run that ended normally left the loop without an event
TEnd ==
  /\ l = Len(Tr) + 1
  /\ LET fin == IF Running(s) /\ P.out.how = "ok" /\ TopF(s).ip >= Len(Fn(P, TopF(s).fn).code) THEN Step(P, s) ELSE s
         m1 == EndMismatch(fin)
         m2 == IF m1 = "" THEN RefMismatch(fin) ELSE ""
     IN /\ IF m1 # "" THEN Say("end", m1, l)
           ELSE IF m2 # "" THEN Say("refsem", m2, l)
           ELSE IF P.out.how \in {"ok", "rterror"} THEN Say("ok", "", l) ELSE Say("prefix", P.out.how, l)
        /\ s' = fin
  /\ l' = 0 /\ UNCHANGED <<pi, steps, aux>>

TNext == TEvent \/ TEnd
TSpec == TInit /\ [][TNext]_tvars
=============================================================================
