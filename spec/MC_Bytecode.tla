----------------------------- MODULE MC_Bytecode -----------------------------
(* Decode(Encode(i)) = i for every opcode, every value of 1-byte operands    *)
(* and boundary / stratified values of 2-byte operands (one-step machine;    *)
(* the law is an invariant).                                                  *)
EXTENDS Bytecode
Vals(w) == IF w = 1 THEN 0..255
           ELSE {0, 1, 2, 127, 128, 254, 255, 256, 257, 511, 512, 32767, 32768, 65279, 65280, 65534, 65535} \cup {256 * k + 7 : k \in 0..255}
VARIABLES op, a, b, phase
vars == <<op, a, b, phase>>
W == SpecWidths
Init == op = 0 /\ a = 0 /\ b = 0 /\ phase = "pick"
Next == /\ phase = "pick" /\ phase' = "check"
        /\ op' \in 0..(NOps - 1)
        /\ LET ws == W[op' + 1] IN
           /\ a' \in (IF Len(ws) >= 1 THEN Vals(ws[1]) ELSE {0})
           /\ b' \in (IF Len(ws) >= 2 THEN Vals(ws[2]) ELSE {0})
Spec == Init /\ [][Next]_vars
Operands0 == LET ws == W[op + 1] IN IF Len(ws) = 0 THEN <<>> ELSE IF Len(ws) = 1 THEN <<a>> ELSE <<a, b>>
RoundTrip ==
  phase = "check" =>
    LET enc == Encode(W, op, Operands0)
        pad == <<99, 98>> \o enc \o <<97>>          \* decoding does not depend on the surroundings
    IN /\ OperandsFit(W, op, Operands0)
       /\ Len(enc) = InstrLen(W, op)
       /\ Decode(W, enc, 0) = [op |-> op, operands |-> Operands0, len |-> Len(enc)]
       /\ Decode(W, pad, 2) = [op |-> op, operands |-> Operands0, len |-> Len(enc)]
\* an operand that does not fit is never encodable
NoTruncation == phase = "check" => \A w \in {1, 2} : ~Fits(Pow256(w), w) /\ ~Fits(Pow256(w) + a, w) /\ Fits(Pow256(w) - 1, w)
=============================================================================
