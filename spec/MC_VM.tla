-------------------------------- MODULE MC_VM --------------------------------
(***************************************************************************)
(* Model checking of the bytecode machine VM.tla on a library of programs  *)
(* compiled by the real compiler (IOEnv.TRACE: one record per program with *)
(* funcs, consts, widths, bnames).  Unlike VMRun this does not follow a    *)
(* recorded execution: TLC runs the machine itself from Boot on every      *)
(* program and checks, in every reachable state,                           *)
(*   FetchAligned  (C14)  fetches happen at instruction boundaries         *)
(*   NeverStuck    (C08)  compiled code never reaches a state without a    *)
(*                        defined step (an out-of-bounds access in the VM) *)
(*   NoUnderflow          no instruction pops an empty stack               *)
(*   FramesNested         activation records nest on the operand stack     *)
(*   EndsBalanced  (C07)  a normal end leaves the operand stack empty      *)
(* Deadlock checking is on: a running machine always has a step.  The      *)
(* library holds programs whose real run ended; Stops (every run of the    *)
(* machine ends) is stated for them but not configured: TLC's liveness     *)
(* threads do not see the register the library is parsed into.             *)
(***************************************************************************)
EXTENDS Json, IOUtils, TLC

CONSTANTS StackSize, MaxFrames, MaxDepth, MaxIter
VARIABLES pi, s, steps

ASSUME TLCSet(7, ndJsonDeserialize(IOEnv.TRACE))
Lib == TLCGet(7)
INSTANCE VM WITH Progs <- Lib

Done == ~Running(s) /\ UNCHANGED <<pi, s, steps>>
MCNext == VMNext \/ Done
MCSpec == VMInit /\ [][MCNext]_<<pi, s, steps>> /\ WF_<<pi, s, steps>>(VMNext)

TypeOK == /\ pi \in 1..Len(Lib) /\ steps \in Nat
          /\ s.status \in {"run", "ok", "err", "unspec", "stuck"}
          /\ s.sp \in 0..StackSize /\ Len(s.stk) >= s.sp
Stops == <>(~Running(s))
\* the machine is deterministic: the step count identifies the state of a program's run
StepsView == <<pi, steps>>
=============================================================================
