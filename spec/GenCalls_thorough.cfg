SPECIFICATION Spec
CONSTANTS
 NChunks = 16
 Stride = 1
CHECK_DEADLOCK FALSE
