SPECIFICATION Spec
CONSTANTS
 NChunks = 8
 Stride = 1000003
CHECK_DEADLOCK FALSE
