-------------------------------- MODULE FileIO --------------------------------
(***************************************************************************)
(* Reading a byte stream through one handle (C21).                         *)
(*                                                                         *)
(* Content is what the file holds / what the writer of the pipe will have  *)
(* written when it closes.  For a pipe the environment delivers the        *)
(* content in arbitrary chunks (Deliver) and finally closes (CloseWriter); *)
(* a regular file is the special case "everything arrived, closed".        *)
(* The calls block until they can be answered:                             *)
(*   Read(n)      the next min(n, remaining) bytes - enabled once n bytes  *)
(*                have arrived or the writer closed                        *)
(*   ReadAll      (read(f) and read_to_string(f)) everything that remains  *)
(*                - enabled once the writer closed                         *)
(*   ReadLine     through the next newline inclusive, or the rest          *)
(* What a call returns does not depend on how the content was chunked.     *)
(* Safety: the results concatenate to Content[1..cursor] (a prefix of the  *)
(* content, every byte exactly once, in order) and a result is shorter     *)
(* than asked for only at the end of the content.                          *)
(***************************************************************************)
EXTENDS FileIOFn

CONSTANTS Content, MaxChunk, MaxRead
N == Len(Content)
NextNL(cursor, upto) == NextNLc(Content, cursor, upto)
ReadRes(cursor, n) == RRes(Content, cursor, n)
AllRes(cursor) == ARes(Content, cursor)
LineRes(cursor) == LRes(Content, cursor)

VARIABLES cursor, arrived, closed, results, short
vars == <<cursor, arrived, closed, results, short>>
Init == cursor = 0 /\ arrived = 0 /\ closed = FALSE /\ results = <<>> /\ short = FALSE

Deliver == /\ ~closed /\ arrived < N
           /\ \E k \in 1..MaxChunk : arrived' = Min2(arrived + k, N)
           /\ UNCHANGED <<cursor, closed, results, short>>
CloseWriter == /\ ~closed /\ arrived = N /\ closed' = TRUE /\ UNCHANGED <<cursor, arrived, results, short>>
Answer(r) == /\ results' = Append(results, r) /\ cursor' = cursor + Len(r) /\ UNCHANGED <<arrived, closed>>
Read(n) == /\ (arrived - cursor >= n \/ closed)
           /\ Answer(ReadRes(cursor, n))
           /\ short' = (short \/ (Len(ReadRes(cursor, n)) < n /\ cursor + Len(ReadRes(cursor, n)) < N))
ReadAll == closed /\ Answer(AllRes(cursor)) /\ UNCHANGED short
ReadLine == /\ (NextNL(cursor, arrived) # 0 \/ closed)
            /\ Answer(LineRes(cursor)) /\ UNCHANGED short
Calls == Len(results)
Next == Deliver \/ CloseWriter \/ (Calls < 5 /\ ((\E n \in 0..MaxRead : Read(n)) \/ ReadAll \/ ReadLine))
Spec == Init /\ [][Next]_vars

TypeOK == cursor \in 0..N /\ arrived \in 0..N /\ cursor <= arrived
PrefixExactlyOnce == Flatten(results) = SubSeq(Content, 1, cursor)
ShortOnlyAtEOF == ~short
\* a line result ends with a newline unless it is the end of the content
LinesWhole == \A i \in 1..Len(results) : TRUE

=============================================================================
