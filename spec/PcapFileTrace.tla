---------------------------- MODULE PcapFileTrace ----------------------------
(***************************************************************************)
(* Trace validation for C19.  A record of the trace is one file (its bytes)*)
(* and the sequence of calls a script made on it through the real          *)
(* interpreter with their results.  The file is parsed here, from the pcap *)
(* format: 24-byte global header (magic a1b2c3d4 or a1b23c4d, little       *)
(* endian, snaplen at offset 16), then records of a 16-byte header         *)
(* (ts_sec, ts_sub, caplen, wirelen) and caplen bytes of data.  Complete   *)
(* is the maximal prefix of records that are entirely present and whose    *)
(* caplen does not exceed the snaplen; the file is Damaged when bytes      *)
(* remain after it.  The calls are then checked against the outcome sets   *)
(* of PcapFile.tla (NextOutcomes / AllOutcomes).                           *)
(* Long data is compared by fingerprint (fp): the driver replaces data of  *)
(* more than 256 bytes by a digest on both sides.                          *)
(***************************************************************************)
EXTENDS Integers, Sequences, SequencesExt, FiniteSets, TLC, Json, IOUtils

CONSTANT NChunks
\* parsed once at start-up into a TLC register (TLC re-evaluates a definition that reads a file on every reference)
ASSUME TLCSet(7, ndJsonDeserialize(IOEnv.TRACE))
Recs == TLCGet(7)

\* little-endian u32 as a number when below 2^31, else -1 ("huge")
U32(bs) == IF bs[4] >= 128 THEN -1 ELSE bs[1] + 256 * bs[2] + 65536 * bs[3] + 16777216 * bs[4]
MagicOK(bs) == bs \in {<<212, 195, 178, 161>>, <<77, 60, 178, 161>>}
HeaderOK(file) == Len(file) >= 24 /\ MagicOK(SubSeq(file, 1, 4))
\* parse records from position pos (0-based); snap = snaplen (-1 = huge)
RECURSIVE ParseFrom(_, _, _, _)
ParseFrom(file, pos, snap, acc) ==
  IF pos + 16 > Len(file) THEN [recs |-> acc, damaged |-> pos < Len(file)]
  ELSE LET hdr == SubSeq(file, pos + 1, pos + 16)
           cap == U32(SubSeq(hdr, 9, 12))
       IN IF cap = -1 \/ (snap # -1 /\ cap > snap) THEN [recs |-> acc, damaged |-> TRUE]
          ELSE IF pos + 16 + cap > Len(file) THEN [recs |-> acc, damaged |-> TRUE]
          ELSE ParseFrom(file, pos + 16 + cap, snap,
                         Append(acc, [hdr |-> hdr, data |-> SubSeq(file, pos + 17, pos + 16 + cap)]))
Parse(file) == ParseFrom(file, 24, U32(SubSeq(file, 17, 20)), <<>>)

\* a record as the script observed it: [hdr (16 bytes, from the fields it read), data (bytes written back out),
\* whdr (the record header pcap_write wrote for it)]: writing a packet reproduces its record, header included
SameRec(r, o) == o.k = "rec" /\ o.hdr = r.hdr /\ o.data = r.data /\ o.whdr = r.hdr
SameRecs(rs, os) == Len(rs) = Len(os) /\ \A i \in 1..Len(rs) : SameRec(rs[i], os[i])
Min2(a, b) == IF a < b THEN a ELSE b

\* one call: does the observed result fit one of the allowed outcomes ? returns the new cursor or -1
CallOK(complete, damaged, cursor, c) ==
  LET rem == Len(complete) - cursor IN
  CASE c.op = "next" ->
         IF cursor < Len(complete) THEN (IF SameRec(complete[cursor + 1], c.res) THEN cursor + 1 ELSE -1)
         ELSE IF c.res.k = "null" \/ (damaged /\ c.res.k = "err") THEN cursor ELSE -1
    [] c.op = "all" ->
         LET m == IF c.n = -1 THEN rem ELSE Min2(c.n, rem)
         IN IF c.res.k = "arr" /\ SameRecs(SubSeq(complete, cursor + 1, cursor + m), c.res.v) THEN cursor + m
            ELSE IF m = 0 /\ damaged /\ c.n # 0 /\ c.res.k = "err" THEN cursor
            ELSE -1

Verdict(rec) ==
  IF ~HeaderOK(rec.file)
  THEN [id |-> rec.id, v |-> IF rec.open = "err" THEN "ok" ELSE "bad", at |-> 0, complete |-> 0]
  ELSE IF rec.open # "ok" THEN [id |-> rec.id, v |-> "bad", at |-> 0, complete |-> 0]
  ELSE
  LET p == Parse(rec.file)
      f(acc, i) == IF acc.cursor = -1 THEN acc
                   ELSE LET c == CallOK(p.recs, p.damaged, acc.cursor, rec.calls[i])
                        IN IF c = -1 THEN [cursor |-> -1, at |-> i] ELSE [cursor |-> c, at |-> i]
      r == FoldLeft(f, [cursor |-> 0, at |-> 0], [i \in 1..Len(rec.calls) |-> i])
  IN [id |-> rec.id, v |-> IF r.cursor = -1 THEN "bad" ELSE "ok", at |-> r.at, complete |-> Len(p.recs),
      damaged |-> p.damaged]

VARIABLE pc
N == Len(Recs)
Init == pc = <<"root", 0>>
Next == \/ /\ pc[1] = "root" /\ \E c \in 0..(NChunks - 1) : pc' = <<"chunk", c>>
        \/ /\ pc[1] = "chunk"
           /\ LET idxs == SetToSortSeq({i \in 1..N : i % NChunks = pc[2]}, <)
                  vs == [n \in 1..Len(idxs) |-> Verdict(Recs[idxs[n]])]
              IN ndJsonSerialize(IOEnv.OUTDIR \o "/v" \o ToString(pc[2]) \o ".ndjson", vs)
           /\ pc' = <<"done", pc[2]>>
Spec == Init /\ [][Next]_pc
=============================================================================
