------------------------------ MODULE CodecTrace ------------------------------
(***************************************************************************)
(* Conformance of the real encoder / decoder / compiler limits with        *)
(* Bytecode.tla (C14).  Record kinds:                                      *)
(*  "sweep"  per opcode: the harness pushed EVERY operand tuple of the     *)
(*           opcode's widths through make and read_operands; all of them   *)
(*           must round-trip (ok = tuples = product of 256^w).             *)
(*  "codec"  one encoding from that sweep (stratified sample): the bytes   *)
(*           must be Encode(W, op, operands) and decode back.              *)
(*  "limit"  a program that needs operand value `needed` in operand `k` of *)
(*           opcode `opname`: if the value fits the width, the program     *)
(*           must compile and run with the stated result; if it does not   *)
(*           fit, the compiler must reject it -- never a truncated         *)
(*           encoding.                                                     *)
(* W is the width table measured from the real encoder (first record).     *)
(***************************************************************************)
EXTENDS Bytecode, Json, IOUtils

\* parsed once at start-up into a TLC register (TLC re-evaluates a definition that reads a file on every reference)
ASSUME TLCSet(7, ndJsonDeserialize(IOEnv.TRACE))
Recs == TLCGet(7)
W == Recs[1].widths

Prod(ws) == FoldLeft(LAMBDA a, w : a * Pow256(w), 1, ws)
Verdict(rec) ==
  LET good ==
    CASE rec.kind = "widths" -> Len(rec.widths) >= 1         \* (the table itself is measured; a difference from the design is drift)
      [] rec.kind = "sweep" -> rec.tuples = Prod(W[rec.op + 1]) /\ rec.ok = rec.tuples
      [] rec.kind = "codec" ->
           OperandsFit(W, rec.op, rec.operands) =>
             /\ rec.enc = Encode(W, rec.op, rec.operands)
             /\ rec.dec = rec.operands
             /\ rec.read + 1 = InstrLen(W, rec.op)
             /\ Decode(W, rec.enc, 0).operands = rec.operands
      [] rec.kind = "limit" ->
           LET w == W[rec.opn + 1][rec.k]                    \* rec.opn: the number the real code gives opcode rec.opname
           IN IF Fits(rec.needed, w) THEN (\E i \in 1..Len(rec.allowed) : rec.allowed[i] = rec.how) /\ (rec.how = "ok" => rec.result = rec.want)
              ELSE rec.how = "compile"
  IN [id |-> rec.id, v |-> IF good THEN "ok" ELSE "bad",
      drift |-> rec.kind = "widths" /\ rec.widths # SpecWidths]

VARIABLE pc
Init == pc = "run"
Next == /\ pc = "run"
        /\ ndJsonSerialize(IOEnv.OUTDIR \o "/v0.ndjson", [i \in 1..Len(Recs) |-> Verdict(Recs[i])])
        /\ pc' = "done"
Spec == Init /\ [][Next]_pc
=============================================================================
