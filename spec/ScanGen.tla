------------------------------- MODULE ScanGen -------------------------------
(* Writes, for every class string up to MaxLen, the token kinds Scanner.tla prescribes (chunked ndjson):       *)
(* the real scanner's token stream on a concrete text of that shape is compared with it (C01: agreement is     *)
(* reported as drift, never as a violation - the property demands totality, not a tokenisation).               *)
EXTENDS Scanner, Json, IOUtils, SequencesExt

CONSTANT NChunks
RECURSIVE AllToks(_, _, _)
AllToks(s, i, acc) ==
  LET w == SkipBlank(s, i, 0)
      t == NextTok(s, w.i)
  IN IF t.k = "Eof" \/ Len(acc) > Len(s) + 1 THEN Append(acc, "Eof") ELSE AllToks(s, t.nx, Append(acc, t.k))

ClassSeq == SetToSeq(Classes)
NC == Len(ClassSeq)
\* the n-th string (mixed radix over the classes), lengths 0..MaxLen
RECURSIVE Digits(_, _)
Digits(n, k) == IF k = 0 THEN <<>> ELSE <<ClassSeq[(n % NC) + 1]>> \o Digits(n \div NC, k - 1)
RECURSIVE Pow(_, _)
Pow(b, e) == IF e = 0 THEN 1 ELSE b * Pow(b, e - 1)
Total == LET f[k \in 0..MaxLen] == IF k = 0 THEN 1 ELSE f[k - 1] + Pow(NC, k) IN f[MaxLen]
StringNo(n) ==
  LET RECURSIVE Find(_, _)
      Find(m, k) == IF m < Pow(NC, k) THEN Digits(m, k) ELSE Find(m - Pow(NC, k), k + 1)
  IN Find(n, 0)

VARIABLE pc
GInit == pc = <<"root", 0>> /\ input = <<>> /\ pos = 0 /\ toks = <<>> /\ line = 1 /\ bad = FALSE
WriteChunkG(c) ==
  LET ns == SetToSortSeq({n \in 0..(Total - 1) : n % NChunks = c}, <)
      cs == [x \in 1..Len(ns) |-> LET s == StringNo(ns[x]) IN [id |-> ns[x], s |-> s, toks |-> AllToks(s, 0, <<>>)]]
  IN ndJsonSerialize(IOEnv.OUTDIR \o "/g" \o ToString(c) \o ".ndjson", cs)
GNext == /\ UNCHANGED vars
         /\ \/ (pc[1] = "root" /\ \E c \in 0..(NChunks - 1) : pc' = <<"chunk", c>>)
            \/ (pc[1] = "chunk" /\ WriteChunkG(pc[2]) /\ pc' = <<"done", pc[2]>>)
GSpec == GInit /\ [][GNext]_<<pc, vars>>
=============================================================================
