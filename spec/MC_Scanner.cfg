SPECIFICATION Spec
CONSTANT MaxLen = 3
INVARIANTS IndexInBoundsAndProgress Bounded LineOK
PROPERTY Terminates
CHECK_DEADLOCK FALSE
