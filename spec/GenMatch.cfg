SPECIFICATION Spec
CONSTANTS
 NChunks = 16
 Stride = 7
CHECK_DEADLOCK FALSE
