SPECIFICATION GSpec
CONSTANTS
  MaxLen = 3
  NChunks = 16
CHECK_DEADLOCK FALSE
