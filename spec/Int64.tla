------------------------------- MODULE Int64 -------------------------------
(***************************************************************************)
(* 64-bit two's-complement integers as eight little-endian byte limbs.     *)
(* TLC integers are 32-bit, p2sh integers are i64: every arithmetic rule   *)
(* of the language is stated over this representation.                     *)
(***************************************************************************)
EXTENDS Integers, Sequences, SequencesExt, Bitwise, TLC

Limbs == 1..8
IsWord(a) == /\ Len(a) = 8 /\ \A i \in Limbs : a[i] \in 0..255

Zero == <<0,0,0,0,0,0,0,0>>
One  == <<1,0,0,0,0,0,0,0>>
AllOnes == <<255,255,255,255,255,255,255,255>>
MinInt == <<0,0,0,0,0,0,0,128>>
MaxInt == <<255,255,255,255,255,255,255,127>>

IsNeg(a) == a[8] >= 128

\* ---- conversion from / to small TLC integers -------------------------------
FromNat(n) == \* 0 <= n < 2^31
  << n % 256, (n \div 256) % 256, (n \div 65536) % 256, (n \div 16777216) % 256, 0, 0, 0, 0 >>

\* eager tuple construction: [i \in Limbs |-> ...] would be a lazy function that TLC
\* re-evaluates on every application (exponential through nested shifts)
Mk8(f(_)) == <<f(1), f(2), f(3), f(4), f(5), f(6), f(7), f(8)>>
BNot(a) == LET f(i) == 255 - a[i] IN Mk8(f)

Add(a, b) ==
  LET step(acc, i) == LET s == a[i] + b[i] + acc.c
                      IN  [r |-> Append(acc.r, s % 256), c |-> s \div 256]
  IN  FoldLeft(step, [r |-> <<>>, c |-> 0], <<1,2,3,4,5,6,7,8>>).r

Neg(a) == Add(BNot(a), One)
Sub(a, b) == Add(a, Neg(b))

FromInt(n) == IF n >= 0 THEN FromNat(n) ELSE Neg(FromNat(-n))

\* small = representable in 24 bits signed; ToInt is defined on small words only
IsSmall(a) == \/ (a[4] = 0 /\ a[5] = 0 /\ a[6] = 0 /\ a[7] = 0 /\ a[8] = 0)
              \/ (a[4] = 255 /\ a[5] = 255 /\ a[6] = 255 /\ a[7] = 255 /\ a[8] = 255)
ToInt(a) == LET lo == a[1] + 256 * a[2] + 65536 * a[3]
            IN  IF a[8] = 0 THEN lo ELSE lo - 16777216

\* ---- multiplication (schoolbook, modulo 2^64) ------------------------------
Mul(a, b) ==
  LET col(k) == LET f(acc, i) == IF k - i + 1 \in Limbs THEN acc + a[i] * b[k - i + 1] ELSE acc
                IN  FoldLeft(f, 0, <<1,2,3,4,5,6,7,8>>)
      step(acc, k) == LET s == col(k) + acc.c
                      IN  [r |-> Append(acc.r, s % 256), c |-> s \div 256]
  IN  FoldLeft(step, [r |-> <<>>, c |-> 0], <<1,2,3,4,5,6,7,8>>).r

\* ---- comparison ----------------------------------------------------------
\* unsigned: -1, 0, 1
UCmp(a, b) ==
  LET f(acc, i) == IF acc # 0 THEN acc
                   ELSE IF a[i] < b[i] THEN -1 ELSE IF a[i] > b[i] THEN 1 ELSE 0
  IN  FoldLeft(f, 0, <<8,7,6,5,4,3,2,1>>)
SCmp(a, b) == IF IsNeg(a) # IsNeg(b) THEN (IF IsNeg(a) THEN -1 ELSE 1) ELSE UCmp(a, b)
Lt(a, b) == SCmp(a, b) < 0
Le(a, b) == SCmp(a, b) <= 0

\* ---- bitwise -------------------------------------------------------------
BAnd(a, b) == LET f(i) == a[i] & b[i] IN Mk8(f)
BOr(a, b)  == LET f(i) == a[i] | b[i] IN Mk8(f)
BXor(a, b) == LET f(i) == a[i] ^^ b[i] IN Mk8(f)

Pow2(r) == CASE r = 0 -> 1 [] r = 1 -> 2 [] r = 2 -> 4 [] r = 3 -> 8
             [] r = 4 -> 16 [] r = 5 -> 32 [] r = 6 -> 64 [] r = 7 -> 128 [] r = 8 -> 256

\* shift left by n in 0..63
ShlN(a, n) ==
  LET q == n \div 8  r == n % 8
      byte(i) == IF i - q \in Limbs THEN a[i - q] ELSE 0
      f(i) == ((byte(i) * Pow2(r)) % 256) + (byte(i - 1) * Pow2(r)) \div 256
  IN  Mk8(f)
\* arithmetic shift right by n in 0..63
ShrN(a, n) ==
  LET q == n \div 8  r == n % 8
      fill == IF IsNeg(a) THEN 255 ELSE 0
      byte(i) == IF i + q \in Limbs THEN a[i + q] ELSE fill
      f(i) == (byte(i) \div Pow2(r)) + ((byte(i + 1) * Pow2(8 - r)) % 256)
  IN  Mk8(f)

\* shift amount of a word taken modulo 64 (low six bits)
ShAmt(b) == b[1] % 64
Shl(a, b) == ShlN(a, ShAmt(b))
Shr(a, b) == ShrN(a, ShAmt(b))

\* ---- division (truncating, wrapping at MIN / -1) ---------------------------
Bit(a, k) == (a[(k \div 8) + 1] \div Pow2(k % 8)) % 2      \* k in 0..63
SetBit0(a) == <<a[1] + 1, a[2], a[3], a[4], a[5], a[6], a[7], a[8]>>                    \* a must be even
Shl1(a) == ShlN(a, 1)

\* unsigned restoring division: [q, r]
UDivMod(a, b) ==
  LET step(acc, k) ==
        LET r1 == LET s == Shl1(acc.r) IN IF Bit(a, k) = 1 THEN SetBit0(s) ELSE s
        IN  IF UCmp(r1, b) >= 0
            THEN [q |-> SetBit0(Shl1(acc.q)), r |-> Sub(r1, b)]
            ELSE [q |-> Shl1(acc.q), r |-> r1]
      ks == <<63,62,61,60,59,58,57,56,55,54,53,52,51,50,49,48,47,46,45,44,43,42,41,40,39,38,37,36,35,34,33,32,31,30,29,28,27,26,25,24,23,22,21,20,19,18,17,16,15,14,13,12,11,10,9,8,7,6,5,4,3,2,1,0>>
  IN  FoldLeft(step, [q |-> Zero, r |-> Zero], ks)

Abs(a) == IF IsNeg(a) THEN Neg(a) ELSE a      \* MIN maps to itself (as unsigned 2^63)

\* b # Zero
SDiv(a, b) ==
  IF IsSmall(a) /\ IsSmall(b)
  THEN LET x == ToInt(a)  y == ToInt(b)
           ax == IF x < 0 THEN -x ELSE x   ay == IF y < 0 THEN -y ELSE y
           q == ax \div ay
       IN FromInt(IF (x < 0) # (y < 0) THEN -q ELSE q)
  ELSE LET q == UDivMod(Abs(a), Abs(b)).q
       IN  IF IsNeg(a) # IsNeg(b) THEN Neg(q) ELSE q
SRem(a, b) ==
  IF IsSmall(a) /\ IsSmall(b)
  THEN LET x == ToInt(a)  y == ToInt(b)
           ax == IF x < 0 THEN -x ELSE x   ay == IF y < 0 THEN -y ELSE y
           r == ax % ay
       IN FromInt(IF x < 0 THEN -r ELSE r)
  ELSE LET r == UDivMod(Abs(a), Abs(b)).r
       IN  IF IsNeg(a) THEN Neg(r) ELSE r

\* ---- bytes (u8) -------------------------------------------------------------
U8(n) == n % 256

\* ---- decimal text ------------------------------------------------------------
Ten == FromNat(10)
\* decimal digits (most significant first) of a non-negative word (as unsigned)
UDigits(a) ==
  LET step(acc, i) == IF acc.done THEN acc
                      ELSE LET dm == UDivMod(acc.x, Ten)
                           IN [x |-> dm.q, ds |-> <<dm.r[1]>> \o acc.ds,
                               done |-> dm.q = Zero]
  IN FoldLeft(step, [x |-> a, ds |-> <<>>, done |-> FALSE], <<1,2,3,4,5,6,7,8,9,10,11,12,13,14,15,16,17,18,19,20>>).ds
\* code points of the decimal rendering of a signed word
ToDecimal(a) == LET ds == UDigits(Abs(a))
                    add48(acc, d) == Append(acc, 48 + d)
                    txt == FoldLeft(add48, <<>>, ds)
                IN IF IsNeg(a) THEN <<45>> \o txt ELSE txt
=============================================================================
