--------------------------------- MODULE Repl ---------------------------------
(***************************************************************************)
(* The read-eval-print loop (C23).                                         *)
(*                                                                         *)
(* State: the top-level state ts (store and bindings) built by the lines   *)
(* accepted so far, and `accepted`, the statements that actually ran.      *)
(* A line (a sequence of statements, or a text the parser rejects) has one *)
(* of four outcomes:                                                       *)
(*   "parse"    rejected by the parser      - state unchanged              *)
(*   "compile"  rejected by the compiler    - state unchanged              *)
(*   "ok"       ran to its end                                             *)
(*   "rterror"  ran up to its first runtime error (what ran stays)         *)
(* RunLine gives the outcome and the new state; a line that compiles       *)
(* behaves as it would at the end of a script made of everything that ran  *)
(* before (LikeOneProgram, checked by TLC over a line library).            *)
(***************************************************************************)
EXTENDS RefSem

\* a line: [kind |-> "stmts", b |-> statements] or [kind |-> "unparsable"]
RunLine(ts, line) ==
  IF line.kind = "unparsable" THEN [class |-> "parse", ts |-> ts]
  ELSE IF LineFaults(ts, line.b) # {} THEN [class |-> "compile", ts |-> ts]
  ELSE LET r == RunStmts(ts, line.b)
       IN [class |-> CASE r.s = "ok" -> "ok" [] r.s = "err" -> "rterror" [] OTHER -> "unspec",
           ts |-> [st |-> r.st, env |-> r.env]]

RunLines(lines) == FoldLeft(LAMBDA ts, l : RunLine(ts, l).ts, TopState0, lines)
=============================================================================
