--------------------------------- MODULE VM ---------------------------------
(***************************************************************************)
(* The bytecode machine of p2sh as a state machine: what every opcode      *)
(* means (properties C02, C07, C08, C14 at machine level).                 *)
(*                                                                         *)
(* A program P is a record                                                 *)
(*   funcs  : compiled functions, funcs[f + 1] = [code, lines, nl, np]     *)
(*            (f = 0 is the main function)                                 *)
(*   consts : the constant pool (values; a compiled function is            *)
(*            [k |-> "fn", id |-> f])                                      *)
(*   widths : operand widths per opcode (Bytecode.SpecWidths, or the table *)
(*            measured from the real encoder)                              *)
(*   bnames : names of the builtin functions by index                      *)
(*   opnames: names of the opcodes by number (Bytecode.OpNames is the      *)
(*            design; conformance runs bind the names the real code uses,  *)
(*            so that a renumbering of opcodes is not mistaken for a       *)
(*            change of meaning); an opcode whose name this specification  *)
(*            does not know makes the run unspecified                      *)
(*                                                                         *)
(* Machine state s:                                                        *)
(*   frames : activation records [fn, cl, ip, bp]; cl = heap id of the     *)
(*            running closure (0 for main); bp = stack slot (0-based) of   *)
(*            the first local                                              *)
(*   stk,sp : operand stack; sp = number of live slots; slots above sp     *)
(*            keep what was last written there (the "last popped" value    *)
(*            is stk[sp + 1])                                              *)
(*   glob   : global variables by index                                    *)
(*   st     : the store (Store.tla); closures are heap objects             *)
(*            [t |-> "clos", fn, free]                                     *)
(*   status : "run" | "ok" (main ran off its end) | "err" (runtime error   *)
(*            reported, class and line in err) | "unspec" (the properties  *)
(*            do not settle what happens next: packets, I/O builtins,      *)
(*            values the documentation leaves open) | "stuck" (the machine *)
(*            has no defined step: the real VM would index out of bounds;  *)
(*            code the compiler emits must never get here)                 *)
(*                                                                         *)
(* Step(P, s) is total on running states: the machine never deadlocks      *)
(* while status = "run" (C08 at machine level: every opcode in every state *)
(* yields a next state, a runtime error or the end of the program).        *)
(***************************************************************************)
EXTENDS RefSem, Bytecode

CONSTANTS StackSize,   \* operand stack slots (4096 in the implementation)
          MaxFrames    \* activation records (4096 in the implementation)


\* ------------------------------- helpers -----------------------------------
Fn(P, f) == P.funcs[f + 1]
TopF(s) == s.frames[Len(s.frames)]
CodeOf(P, s) == Fn(P, TopF(s).fn).code
LineAt(P, s) == LET fr == TopF(s) ln == Fn(P, fr.fn).lines
                IN IF fr.ip + 1 <= Len(ln) THEN ln[fr.ip + 1] ELSE 0

\* write stack slot i (1-based), growing the sequence with null slots when needed
PadTo(stk, n) == IF Len(stk) >= n THEN stk ELSE stk \o [i \in 1..(n - Len(stk)) |-> Null]
SetSlot(stk, i, v) == [PadTo(stk, i) EXCEPT ![i] = v]
Slot(stk, i) == IF i <= Len(stk) THEN stk[i] ELSE Null
SetGlob(g, i, v) == [PadTo(g, i) EXCEPT ![i] = v]

Fail(s, c, ln) == [s EXCEPT !.status = "err", !.err = [c |-> c, ln |-> ln]]
Stuck(s, why) == [s EXCEPT !.status = "stuck", !.err = [c |-> why, ln |-> 0]]
Vagueness(s) == [s EXCEPT !.status = "unspec"]
Advance(s, n) == [s EXCEPT !.frames[Len(s.frames)].ip = @ + n]
Goto(s, pos) == [s EXCEPT !.frames[Len(s.frames)].ip = pos]

\* push / pop as the implementation does them: overflow and underflow are runtime errors
Push(s, v, ln) == IF s.sp >= StackSize THEN Fail(s, "overflow", ln)
                  ELSE [s EXCEPT !.stk = SetSlot(s.stk, s.sp + 1, v), !.sp = s.sp + 1]
Top(s, d) == s.stk[s.sp - d]           \* d-th value from the top, needs sp > d
Drop(s, n) == [s EXCEPT !.sp = s.sp - n]

\* lift a Values result x (value | ERR | UNSPEC) onto the stack of s0 (operands already dropped)
PushRes(s0, x, ln) == IF IsErr(x) THEN Fail(s0, x.c, ln) ELSE IF IsUnspec(x) THEN Vagueness(s0) ELSE Push(s0, x, ln)
Running(s) == s.status = "run"

\* -------------------------- arithmetic / relations --------------------------
\* (instructions are dispatched on their names: P.opnames[op + 1])
BinName(nm) ==
  CASE nm = "Add" -> "+" [] nm = "Sub" -> "-" [] nm = "Mul" -> "*" [] nm = "Div" -> "/"
    [] nm = "Mod" -> "%" [] nm = "Greater" -> ">" [] nm = "GreaterEq" -> ">="
    [] nm = "And" -> "&" [] nm = "Or" -> "|" [] nm = "Xor" -> "^"
    [] nm = "ShiftLeft" -> "<<" [] nm = "ShiftRight" -> ">>"
BinOps == {"Add", "Sub", "Mul", "Div", "Mod", "Greater", "GreaterEq", "And", "Or", "Xor", "ShiftLeft", "ShiftRight"}

ExecBin(s, op, ln) ==
  IF s.sp < 2 THEN Fail(s, "underflow", ln) ELSE
  LET b == Top(s, 0)  a == Top(s, 1)
      s0 == Drop(s, 2)
      x == BinOp(BinName(op), a, b)
  IN IF x.k = "CONCAT"
     THEN Push([s0 EXCEPT !.st = Alloc(s.st, [t |-> "arr", v |-> s.st.heap[a.id].v \o s.st.heap[b.id].v])],
               ArrRef(NewId(s.st)), ln)
     ELSE PushRes(s0, x, ln)

ExecEq(s, neg, ln) ==
  IF s.sp < 2 THEN Fail(s, "underflow", ln) ELSE
  LET q == ValEq(s.st.heap, Top(s, 1), Top(s, 0))
  IN IF q = "u" THEN Vagueness(s) ELSE Push(Drop(s, 2), B((q = "t") # neg), ln)

ExecUn(s, name, ln) ==
  IF s.sp < 1 THEN (IF name = "-" THEN Fail(s, "kinds", ln) ELSE Fail(s, "underflow", ln))
  ELSE PushRes(Drop(s, 1), UnOp(s.st.heap, name, Top(s, 0)), ln)

\* ------------------------------ containers ---------------------------------
ExecArray(s, n, ln) ==
  IF n > s.sp THEN Stuck(s, "array literal takes more slots than the stack holds") ELSE
  LET els == SubSeq(s.stk, s.sp - n + 1, s.sp)
  IN Push([Drop(s, n) EXCEPT !.st = Alloc(s.st, [t |-> "arr", v |-> els])], ArrRef(NewId(s.st)), ln)

ExecMap(s, n, ln) ==
  IF n > s.sp \/ n % 2 = 1 THEN Stuck(s, "map literal takes slots the stack does not hold") ELSE
  LET kvs == [i \in 1..(n \div 2) |-> <<s.stk[s.sp - n + 2 * i - 1], s.stk[s.sp - n + 2 * i]>>]
      m == BuildMap(s.st, kvs, ln)
  IN IF m.s = "err" THEN Fail(s, "key", ln)
     ELSE IF m.s = "unspec" THEN Vagueness(s)
     ELSE Push([Drop(s, n) EXCEPT !.st = Alloc(s.st, [t |-> "map", v |-> m.ps])], MapRef(NewId(s.st)), ln)

ExecIndex(s, set, ln) ==
  IF s.sp < (IF set THEN 3 ELSE 2) THEN Fail(s, "underflow", ln) ELSE
  LET idx == Top(s, 0)  left == Top(s, 1)
      r == IF set THEN IndexSet(s.st, left, idx, Top(s, 2), ln) ELSE IndexGet(s.st, left, idx, ln)
      s0 == Drop(s, IF set THEN 3 ELSE 2)
  IN IF Vague(left) \/ Vague(idx) THEN Vagueness(s)
     ELSE IF r.s = "err" THEN Fail(s0, r.v.c, ln)
     ELSE IF r.s = "unspec" THEN Vagueness(s)
     ELSE Push([s0 EXCEPT !.st = r.st], r.v, ln)

\* ------------------------------ calls --------------------------------------
ExecCall(P, s, nargs, ln) ==
  IF s.sp < nargs + 1 THEN Stuck(s, "call without a callee on the stack") ELSE
  LET callee == s.stk[s.sp - nargs] IN
  CASE callee.k = "clos" ->
         LET c == s.st.heap[callee.id]
             f == Fn(P, c.fn)
             bp == s.sp - nargs
         IN IF nargs # f.np THEN Fail(s, "arity", ln)
            ELSE IF bp + f.nl > StackSize THEN Fail(s, "overflow", ln)
            ELSE IF Len(s.frames) >= MaxFrames THEN Fail(s, "overflow", ln)
            ELSE LET s1 == Advance(s, 2)
                 IN [s1 EXCEPT !.sp = bp + f.nl, !.stk = PadTo(s.stk, bp + f.nl),
                               !.frames = Append(s1.frames, [fn |-> c.fn, cl |-> callee.id, ip |-> 0, bp |-> bp])]
    [] callee.k = "builtin" ->
         LET args == SubSeq(s.stk, s.sp - nargs + 1, s.sp)
             r == CallBuiltin(callee.v, args, s.st)
         IN IF IsErr(r.x) THEN Fail(s, r.x.c, ln)
            ELSE IF IsUnspec(r.x) THEN Vagueness(s)
            ELSE Advance(Push([Drop(s, nargs + 1) EXCEPT !.st = r.st], r.x, ln), 2)
    [] Vague(callee) -> Vagueness(s)
    [] OTHER -> Fail(s, "notfn", ln)

\* leave the current activation with value v (the slot below bp held the callee)
ExecReturn(s, v, ln) ==
  IF Len(s.frames) < 2 THEN Stuck(s, "return from the main function")
  ELSE LET fr == TopF(s)
       IN Push([s EXCEPT !.frames = SubSeq(s.frames, 1, Len(s.frames) - 1), !.sp = fr.bp - 1], v, ln)

ExecClosure(P, s, ci, nfree, ln) ==
  IF ci + 1 > Len(P.consts) THEN Stuck(s, "closure constant out of range")
  ELSE IF P.consts[ci + 1].k # "fn" THEN Fail(s, "notfn", ln)
  ELSE IF nfree > s.sp THEN Stuck(s, "captured variables not on the stack")
  ELSE LET free == SubSeq(s.stk, s.sp - nfree + 1, s.sp)
       IN Push([Drop(s, nfree) EXCEPT !.st = Alloc(s.st, [t |-> "clos", fn |-> P.consts[ci + 1].id, free |-> free])],
               [k |-> "clos", id |-> NewId(s.st)], ln)

\* ------------------------------ one step -----------------------------------
(* The instruction at the current ip of the current frame.  `then` is the    *)
(* state after the instruction's own work; straight-line instructions then   *)
(* move ip past the instruction (only while still running).                  *)
Step(P, s) ==
  LET fr == TopF(s)
      code == Fn(P, fr.fn).code
      ip == fr.ip
  IN
  IF ip >= Len(code) THEN
     \* the run loop ends when the current frame's code is exhausted
     [s EXCEPT !.status = "ok"]
  ELSE
  LET op == code[ip + 1]
      ln == LineAt(P, s)
      W == P.widths
  IN
  IF op >= Len(P.opnames) \/ op >= Len(W) THEN Fail(s, "opcode", ln)
  ELSE IF ip + InstrLen(W, op) > Len(code) THEN Stuck(s, "instruction runs past the end of the code")
  ELSE
  LET arg == Operands(W, code, ip)
      len == InstrLen(W, op)
      nm == P.opnames[op + 1]
      next(t) == IF Running(t) THEN Advance(t, len) ELSE t
      bp == fr.bp
  IN
  CASE nm = "Constant" ->
         IF arg[1] + 1 > Len(P.consts) THEN Fail(s, "const", ln) ELSE next(Push(s, P.consts[arg[1] + 1], ln))
    [] nm = "Pop" -> IF s.sp = 0 THEN Fail(s, "underflow", ln) ELSE next(Drop(s, 1))
    [] nm \in BinOps -> next(ExecBin(s, nm, ln))
    [] nm = "True" -> next(Push(s, B(TRUE), ln))
    [] nm = "False" -> next(Push(s, B(FALSE), ln))
    [] nm = "Null" -> next(Push(s, Null, ln))
    [] nm = "Equal" -> next(ExecEq(s, FALSE, ln))
    [] nm = "NotEqual" -> next(ExecEq(s, TRUE, ln))
    [] nm = "Minus" -> next(ExecUn(s, "-", ln))
    [] nm = "Bang" -> next(ExecUn(s, "!", ln))
    [] nm = "Not" -> next(ExecUn(s, "~", ln))
    [] nm = "Jump" -> Goto(s, arg[1])
    [] nm = "JumpIfFalse" ->
         IF s.sp = 0 THEN Fail(s, "underflow", ln)
         ELSE IF Vague(Top(s, 0)) THEN Vagueness(s)
         ELSE IF IsFalsey(s.st.heap, Top(s, 0)) THEN Goto(Drop(s, 1), arg[1]) ELSE next(Drop(s, 1))
    [] nm = "JumpIfFalseNoPop" ->
         IF s.sp = 0 THEN Fail(s, "underflow", ln)
         ELSE IF Vague(Top(s, 0)) THEN Vagueness(s)
         ELSE IF IsFalsey(s.st.heap, Top(s, 0)) THEN Goto(s, arg[1]) ELSE next(s)
    [] nm = "DefineGlobal" ->
         IF s.sp = 0 THEN Fail(s, "underflow", ln)
         ELSE next([Drop(s, 1) EXCEPT !.glob = SetGlob(s.glob, arg[1] + 1, Top(s, 0))])
    [] nm = "GetGlobal" -> next(Push(s, Slot(s.glob, arg[1] + 1), ln))
    [] nm = "SetGlobal" ->
         IF s.sp = 0 THEN Fail(s, "underflow", ln)
         ELSE next([s EXCEPT !.glob = SetGlob(s.glob, arg[1] + 1, Top(s, 0))])
    [] nm = "Array" -> next(ExecArray(s, arg[1], ln))
    [] nm = "Map" -> next(ExecMap(s, arg[1], ln))
    [] nm = "GetIndex" -> next(ExecIndex(s, FALSE, ln))
    [] nm = "SetIndex" -> next(ExecIndex(s, TRUE, ln))
    [] nm = "Call" -> ExecCall(P, s, arg[1], ln)
    [] nm = "ReturnValue" ->
         IF s.sp = 0 THEN Fail(s, "underflow", ln) ELSE ExecReturn(s, Top(s, 0), ln)
    [] nm = "Return" -> ExecReturn(s, Null, ln)
    [] nm = "DefineLocal" ->
         IF s.sp = 0 THEN Fail(s, "underflow", ln)
         ELSE IF bp + arg[1] + 1 > StackSize THEN Stuck(s, "local slot beyond the stack")
         ELSE next([Drop(s, 1) EXCEPT !.stk = SetSlot(s.stk, bp + arg[1] + 1, Top(s, 0))])
    [] nm = "GetLocal" ->
         IF bp + arg[1] + 1 > StackSize THEN Stuck(s, "local slot beyond the stack")
         ELSE next(Push(s, Slot(s.stk, bp + arg[1] + 1), ln))
    [] nm = "SetLocal" ->
         IF s.sp = 0 THEN Fail(s, "underflow", ln)
         ELSE IF bp + arg[1] + 1 > StackSize THEN Stuck(s, "local slot beyond the stack")
         ELSE next([s EXCEPT !.stk = SetSlot(s.stk, bp + arg[1] + 1, Top(s, 0))])
    [] nm = "GetBuiltinFn" ->
         IF arg[1] + 1 > Len(P.bnames) THEN Stuck(s, "no such builtin function")
         ELSE next(Push(s, Bi(P.bnames[arg[1] + 1]), ln))
    [] nm = "GetBuiltinVar" ->
         \* argv is an array owned by the driver; NP PL WL TSS TSU are null outside filter mode
         IF arg[1] = 0 THEN Vagueness(s) ELSE IF arg[1] <= 5 THEN next(Push(s, Null, ln)) ELSE Stuck(s, "no such builtin variable")
    [] nm = "Closure" -> next(ExecClosure(P, s, arg[1], arg[2], ln))
    [] nm = "GetFree" ->
         IF fr.cl = 0 \/ arg[1] + 1 > Len(s.st.heap[fr.cl].free) THEN Stuck(s, "no such captured variable")
         ELSE next(Push(s, s.st.heap[fr.cl].free[arg[1] + 1], ln))
    [] nm = "SetFree" ->
         IF s.sp = 0 THEN Fail(s, "underflow", ln)
         ELSE IF fr.cl = 0 \/ arg[1] + 1 > Len(s.st.heap[fr.cl].free) THEN Stuck(s, "no such captured variable")
         ELSE next([s EXCEPT !.st.heap[fr.cl].free[arg[1] + 1] = Top(s, 0)])
    [] nm = "CurrClosure" ->
         IF fr.cl = 0 THEN Vagueness(s) ELSE next(Push(s, [k |-> "clos", id |-> fr.cl], ln))
    [] nm = "Dup" -> next(Push(s, IF s.sp = 0 THEN Null ELSE Top(s, 0), ln))
    [] nm \in {"GetProp", "SetProp", "Dollar"} -> Vagueness(s)    \* packets: Packet.tla
    [] OTHER -> Vagueness(s)                                       \* an opcode this specification does not know

Boot == [frames |-> <<[fn |-> 0, cl |-> 0, ip |-> 0, bp |-> 0]>>, stk |-> <<>>, sp |-> 0, glob |-> <<>>,
         st |-> EmptyStore, status |-> "run", err |-> [c |-> "", ln |-> 0]]

\* ---------------------------- the state machine ----------------------------
CONSTANT Progs          \* the programs the machine may be started on
VARIABLES pi, s, steps
vmvars == <<pi, s, steps>>
VMInit == pi \in 1..Len(Progs) /\ s = Boot /\ steps = 0
VMNext == /\ Running(s) /\ s' = Step(Progs[pi], s) /\ steps' = steps + 1 /\ UNCHANGED pi
VMSpec == VMInit /\ [][VMNext]_vmvars

\* ------------------------------ invariants ---------------------------------
\* positions at which an instruction of code starts, decoding linearly from 0
InstrStarts(W, code) ==
  LET f(acc, i) == IF i # acc.nxt THEN acc
                   ELSE IF code[i + 1] >= Len(W) THEN [nxt |-> Len(code) + 1, set |-> acc.set \cup {i}]
                   ELSE [nxt |-> i + InstrLen(W, code[i + 1]), set |-> acc.set \cup {i}]
  IN FoldLeft(f, [nxt |-> 0, set |-> {}], [i \in 1..Len(code) |-> i - 1]).set

\* C14: the machine only ever fetches at an instruction boundary of the code as encoded
FetchAligned == Running(s) =>
  \A i \in 1..Len(s.frames) :
     LET fr == s.frames[i]  code == Fn(Progs[pi], fr.fn).code
     IN fr.ip = Len(code) \/ fr.ip \in InstrStarts(Progs[pi].widths, code)

\* C08: code the compiler produced never drives the machine into a state without a defined step
NeverStuck == s.status # "stuck"

\* frames are nested on the stack: each activation's locals lie above its caller's
FramesNested ==
  /\ Len(s.frames) >= 1 /\ Len(s.frames) <= MaxFrames
  /\ s.frames[1].bp = 0
  /\ \A i \in 2..Len(s.frames) : s.frames[i].bp > s.frames[i - 1].bp + Fn(Progs[pi], s.frames[i - 1].fn).nl
  /\ s.sp <= StackSize
  /\ Running(s) => s.sp >= TopF(s).bp + Fn(Progs[pi], TopF(s).fn).nl

\* C07: a program that ends normally leaves nothing on the operand stack
EndsBalanced == s.status = "ok" => s.sp = 0 /\ Len(s.frames) = 1

\* no compiler-emitted instruction pops an empty stack
NoUnderflow == ~(s.status = "err" /\ s.err.c = "underflow")
=============================================================================
