------------------------------- MODULE GenMaps -------------------------------
(***************************************************************************)
(* Case generator for map / value-equality consistency (C10): all          *)
(* histories  write(k1) ; write(k2) ; query(k3)  over a key domain that    *)
(* contains every cross-kind equality the property names (1 / 1.0,         *)
(* 0.0 / -0.0, [1] / [1.0], NaN), with the three ways of writing (literal, *)
(* insert, index assignment) and all four queries (len, get, contains,     *)
(* index).  The oracle is Store's association-list model via RefSem.       *)
(***************************************************************************)
EXTENDS AstB

CONSTANTS NChunks, Stride
O(tag, e) == [tag |-> tag, e |-> e]
Keys == <<
  O("int:1", N(1)), O("float:1.0", L(F("dy", 1, 0))), O("int:2", N(2)), O("int:0", N(0)),
  O("float:0.0", L(PZero)), O("float:-0.0", L(NZero)), O("float:nan", L(NaN)), O("float:1.5", L(F("dy", 3, 1))),
  O("byte:1", L(By(1))), O("char:a", L(Ch(97))), O("str:a", L(S(<<97>>))), O("bool:true", L(B(TRUE))),
  O("builtin:len", Id("len")), O("arr:[1]", ArrE(<<N(1)>>)), O("arr:[1.0]", ArrE(<<L(F("dy", 1, 0))>>)),
  O("arr:[[1]]", ArrE(<<ArrE(<<N(1)>>)>>))
>>
NK == Len(Keys)
Ways == <<"lit", "insert", "set">>
NW == Len(Ways)
NS == NW * NK                       \* write steps
NAll == NS * NS * NK
NCases == (NAll + Stride - 1) \div Stride

M == Id("m")
WriteStmt(w, k, v) ==
  IF w = "set" THEN ExprS(Asg(Idx(M, k), N(v))) ELSE Obs(Call("insert", <<M, k, N(v)>>))

Case(c) ==
  LET n == c * Stride
      s1 == n \div (NS * NK)   s2 == (n \div NK) % NS   q == n % NK
      w1 == Ways[(s1 \div NK) + 1]   k1 == Keys[(s1 % NK) + 1]
      w2 == Ways[(s2 \div NK) + 1]   k2 == Keys[(s2 % NK) + 1]
      k3 == Keys[q + 1]
      init == IF w1 = "lit" /\ w2 = "lit" THEN MapE(<< <<k1.e, N(10)>>, <<k2.e, N(20)>> >>)
              ELSE IF w1 = "lit" THEN MapE(<< <<k1.e, N(10)>> >>) ELSE MapE(<<>>)
      st1 == IF w1 = "lit" THEN <<>> ELSE <<WriteStmt(w1, k1.e, 10)>>
      st2 == IF w2 = "lit" /\ w1 = "lit" THEN <<>>
             ELSE <<WriteStmt(IF w2 = "lit" THEN "insert" ELSE w2, k2.e, 20)>>
  IN [id |-> n, w1 |-> w1, k1 |-> k1.tag, w2 |-> w2, k2 |-> k2.tag, k3 |-> k3.tag,
      prog |-> <<ObsDecl, LetS("m", init)>> \o st1 \o st2 \o
               <<Obs(Call("len", <<M>>)), Obs(Call("get", <<M, k3.e>>)), Obs(Call("contains", <<M, k3.e>>)),
                 Obs(Idx(M, k3.e))>>]

VARIABLE pc
Init == pc = <<"root", 0>>
Next == \/ /\ pc[1] = "root" /\ \E c \in 0..(NChunks - 1) : pc' = <<"chunk", c>>
        \/ /\ pc[1] = "chunk" /\ WriteChunk(pc[2], NChunks, NCases, Case) /\ pc' = <<"done", pc[2]>>
Spec == Init /\ [][Next]_pc
=============================================================================
