SPECIFICATION TSpec
CONSTANTS
  StackSize = 4096
  MaxFrames = 4096
  MaxDepth = 60
  MaxIter = 400
CHECK_DEADLOCK FALSE
