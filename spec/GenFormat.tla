------------------------------ MODULE GenFormat ------------------------------
(***************************************************************************)
(* Format strings for C12, enumerated by TLC from the specifier grammar of  *)
(* Format.tla: every specifier built from                                   *)
(*   index {none, 0, 1, 2, 3} x alignment {none, <, >, fill< , fill>} with  *)
(*   fills {0 * blank x b : < # 7} x width {none, 1, 4, 7, 10} x radix      *)
(*   {none, b, o, x, X}, with and without the optional colon,               *)
(* placed between literal text (and, for a set of specifiers that set radix, *)
(* width, fill or alignment, paired with plain ones in both orders),        *)
(* applied to each of the argument lists                                   *)
(* ArgSets (index into a table the driver shares).  While enumerating, TLC  *)
(* checks laws of the reference renderer on every case: a rendered piece is *)
(* at least as wide as the width asked for, escapes render as one brace,    *)
(* and an indexed specifier does not consume a positional argument.         *)
(***************************************************************************)
EXTENDS Format, Json, IOUtils

CONSTANT NChunks
Idxs == << <<>>, <<48>>, <<49>>, <<50>>, <<51>> >>
Fills == <<48, 42, 32, 120, 98, 58, 60, 35, 55>>
Aligns == << <<>>, <<60>>, <<62>> >> \o [i \in 1..Len(Fills) |-> <<Fills[i], 60>>] \o [i \in 1..Len(Fills) |-> <<Fills[i], 62>>]
Widths == << <<>>, <<49>>, <<52>>, <<55>>, <<49, 48>> >>
Radixes == << <<>>, <<98>>, <<111>>, <<120>>, <<88>> >>
\* argument lists (values only; the driver adds the display texts): index into this table
ArgSets == <<
  << IntV(42), S(<<104, 105>>), B(TRUE) >>,
  << IntV(-7), IntV(0), S(<<>>), IntV(255) >>,
  << S(<<97, 98, 99, 100, 101, 102, 103, 104>>), IntV(1000000), Null >>,
  << IntV(5) >>,
  << >>,
  << [k |-> "float", c |-> "dy", m |-> 3, e |-> 1], [k |-> "char", v |-> 113], IntV(65535), B(FALSE) >> >>

SpecText(ix, al, w, r, colon) == <<LBrace>> \o Idxs[ix] \o (IF colon THEN <<ColonC>> ELSE <<>>) \o Aligns[al] \o Widths[w] \o Radixes[r] \o <<RBrace>>
\* the colon is needed by alignment and width; with neither, both spellings are generated
Specs == {SpecText(ix, al, w, r, TRUE) : ix \in 1..Len(Idxs), al \in 1..Len(Aligns), w \in 1..Len(Widths), r \in 1..Len(Radixes)}
         \cup {SpecText(ix, 1, 1, r, FALSE) : ix \in 1..Len(Idxs), r \in 1..Len(Radixes)}
Cases == {[fmt |-> <<91>> \o sp \o <<93>>, as |-> a] : sp \in Specs, a \in 1..Len(ArgSets)}
         \cup {[fmt |-> sp \o <<LBrace, LBrace>> \o sp \o <<RBrace, RBrace>> \o <<LBrace, 49, RBrace>> \o sp, as |-> a] :
                 sp \in {SpecText(1, al, w, 1, TRUE) : al \in {1, 4, 14}, w \in {1, 3}}, a \in 1..Len(ArgSets)}
\* two specifiers in one string, in both orders: what one specifier sets (radix with and without the colon, width,
\* fill, alignment) must not reach the next one (Format.tla parses every specifier from a clean state)
Setters == {SpecText(1, 1, 1, r, FALSE) : r \in 2..5} \cup {SpecText(1, 1, 1, r, TRUE) : r \in 2..5}
           \cup {SpecText(1, al, 3, 1, TRUE) : al \in {2, 3, 5, 14}} \cup {SpecText(1, 4, 4, 4, TRUE)}
Plain == {SpecText(1, 1, 1, 1, FALSE), SpecText(2, 1, 1, 1, FALSE), SpecText(3, 1, 1, 1, FALSE), SpecText(1, 1, 1, 1, TRUE),
          SpecText(1, 1, 1, 4, FALSE), SpecText(1, 1, 3, 1, TRUE), SpecText(1, 3, 3, 1, TRUE)}
PairCases == {[fmt |-> a \o <<32>> \o b, as |-> n] : a \in Setters, b \in Plain, n \in 1..Len(ArgSets)}
             \cup {[fmt |-> b \o <<32>> \o a \o <<32>> \o b, as |-> n] : a \in Setters, b \in Plain, n \in 1..Len(ArgSets)}
CaseSeq == SetToSeq(Cases \cup PairCases)

AsArgs(a) == [i \in 1..Len(ArgSets[a]) |-> [v |-> ArgSets[a][i], shown |-> <<63>>]]
\* laws of the renderer, checked on every enumerated case
Laws(c) ==
  LET args == AsArgs(c.as)
      r == Render(c.fmt, args)
      s == ParseSpec(c.fmt, IF c.fmt[1] = 91 THEN 2 ELSE 1)
  IN /\ s.ok
     /\ r.how = "ok" => Len(r.text) >= s.width
     /\ Render(<<LBrace, LBrace, RBrace, RBrace>>, args) = OkR(<<LBrace, RBrace>>)
     /\ Len(args) >= 1 => Render(<<LBrace, 48, RBrace, LBrace, RBrace>>, args).text
                            = Render(<<LBrace, RBrace>>, args).text \o Render(<<LBrace, RBrace>>, args).text
     /\ (s.idx # -1 /\ s.idx + 1 > Len(args)) => r.how = "error"

VARIABLE pc
Init == pc = <<"root", 0>>
Next == \/ /\ pc[1] = "root" /\ \E c \in 0..(NChunks - 1) : pc' = <<"chunk", c>>
        \/ /\ pc[1] = "chunk"
           /\ LET idxs == SetToSortSeq({i \in 1..Len(CaseSeq) : i % NChunks = pc[2]}, <)
              IN /\ \A n \in 1..Len(idxs) : Assert(Laws(CaseSeq[idxs[n]]), <<"renderer law fails", CaseSeq[idxs[n]]>>)
                 /\ ndJsonSerialize(IOEnv.OUTDIR \o "/g" \o ToString(pc[2]) \o ".ndjson",
                                    [n \in 1..Len(idxs) |-> [id |-> idxs[n]] @@ CaseSeq[idxs[n]]])
           /\ pc' = <<"done", pc[2]>>
Spec == Init /\ [][Next]_pc
=============================================================================
