----------------------------- MODULE FilterMode -----------------------------
(***************************************************************************)
(* Filter mode (C20): the stream loop of the interpreter.                  *)
(*                                                                         *)
(*   main part once  ->  for each input packet, in order: every filter in  *)
(*   source order  ->  end filter once.                                    *)
(*                                                                         *)
(* Constants: Prog = [filters: sequence of [pat, act], hasEnd], In =        *)
(* sequence of packets [hdr (16 bytes), raw], InHdr (24 bytes), Skip (-s). *)
(* Filters are written in a small vocabulary this module interprets        *)
(* directly (the generator uses the same vocabulary to write p2sh text):   *)
(*   patterns: none | true | false | NP % m == r | v op k with v in NP, PL,*)
(*             WL, TSS, TSU, cnt | $1.type == k | $2.ttl op k               *)
(*   actions:  none | count (cnt = cnt + 1) | setttl k ($2.ttl = k) |       *)
(*             local (let loc = NP * 2)                                     *)
(* Every action writes a probe line "A j NP PL WL TSS TSU cnt"; the main   *)
(* part writes "MAIN", the end filter "END NP cnt".                        *)
(* An action-less filter whose pattern is true writes the packet, as       *)
(* modified so far, to the output.                                         *)
(* Patterns that are not booleans (npint: NP % m, cntval: cnt - written    *)
(* only in the LAST filter of a program): a truthy one runs its action; a  *)
(* falsey one - or any one without an action - is reported ("filter        *)
(* expression must evaluate to a boolean", event FAULT) and selects        *)
(* nothing; the packet still counts: NP of the packets after it is their   *)
(* position in the stream.  (What happens to the filters after a reported  *)
(* one is not documented; the generator leaves none.)                      *)
(***************************************************************************)
EXTENDS Packet

\* a configuration: [prog |-> [filters, hasEnd], in |-> sequence of [hdr, raw], inhdr |-> 24 bytes, skip |-> BOOLEAN]
NF(c) == Len(c.prog.filters)
NPk(c) == Len(c.in)

LE32(bs) == bs[1] + 256 * bs[2] + 65536 * bs[3] + 16777216 * bs[4]     \* values below 2^31 only
PL(c, i) == LE32(SubSeq(c.in[i].hdr, 9, 12))
WL(c, i) == LE32(SubSeq(c.in[i].hdr, 13, 16))
TSS(c, i) == LE32(SubSeq(c.in[i].hdr, 1, 4))
TSU(c, i) == LE32(SubSeq(c.in[i].hdr, 5, 8))
Var(c, v, i, cnt) == CASE v = "NP" -> i [] v = "PL" -> PL(c, i) [] v = "WL" -> WL(c, i) [] v = "TSS" -> TSS(c, i)
                       [] v = "TSU" -> TSU(c, i) [] v = "cnt" -> cnt
Cmp(op, a, b) == CASE op = "<" -> a < b [] op = ">=" -> a >= b [] op = "==" -> a = b [] op = ">" -> a > b

\* frames of this module are Ethernet / IPv4: $1 = eth at 0, $2 = ipv4 at 14
EthType(raw) == BitsVal(raw, 0, Field("eth", "type"))
Ttl(raw) == BitsVal(raw, 14, Field("ipv4", "ttl"))
PatHolds(c, p, i, cnt, raw) ==
  CASE p.t \in {"none", "true"} -> TRUE
    [] p.t = "false" -> FALSE
    [] p.t = "npmod" -> i % p.m = p.r
    [] p.t = "cmp" -> Cmp(p.op, Var(c, p.v, i, cnt), p.k)
    [] p.t = "ethtype" -> EthType(raw) = p.k
    [] p.t = "ttl" -> Cmp(p.op, Ttl(raw), p.k)
    [] p.t = "npint" -> i % p.m # 0
    [] p.t = "cntval" -> cnt # 0
NonBool(p) == p.t \in {"npint", "cntval"}

(* The state: phase "main" | "hdr" | "pkt" | "flt" | "end" | "done"; i, j packet and filter   *)
(* index; cnt the program's counter; cur the current packet's bytes as modified so far; log    *)
(* the probe events <<"MAIN">>, <<"A", j, NP, PL, WL, TSS, TSU, cnt>>, <<"END", NP, cnt>>;      *)
(* outHdr the global header written (<<>> = none); out the records written.                    *)
S0 == [phase |-> "main", i |-> 0, j |-> 0, cnt |-> 0, cur |-> <<>>, log |-> <<>>, outHdr |-> <<>>, out |-> <<>>]

Probe(c, s) == <<"A", s.j, s.i, PL(c, s.i), WL(c, s.i), TSS(c, s.i), TSU(c, s.i)>>
\* one step of the loop (a function: filter mode is deterministic)
Step(c, s) ==
  CASE s.phase = "main" -> [s EXCEPT !.phase = "hdr", !.log = Append(s.log, <<"MAIN">>)]
    [] s.phase = "hdr" ->      \* without -s the output is a pcap stream whose global header equals the input's
         [s EXCEPT !.phase = "pkt", !.outHdr = IF c.skip THEN <<>> ELSE c.inhdr]
    [] s.phase = "pkt" ->
         IF s.i < NPk(c) THEN [s EXCEPT !.i = s.i + 1, !.j = 1, !.cur = c.in[s.i + 1].raw, !.phase = "flt"]
         ELSE [s EXCEPT !.phase = "end"]
    [] s.phase = "flt" ->
         IF s.j > NF(c) THEN [s EXCEPT !.phase = "pkt"]
         ELSE LET f == c.prog.filters[s.j]
                  s1 == [s EXCEPT !.j = s.j + 1]
              IN IF NonBool(f.pat) /\ (f.act.t = "none" \/ ~PatHolds(c, f.pat, s.i, s.cnt, s.cur))
                 THEN [s1 EXCEPT !.log = Append(s.log, <<"FAULT">>)]       \* reported; nothing selected, nothing run
                 ELSE IF ~PatHolds(c, f.pat, s.i, s.cnt, s.cur) THEN s1
                 ELSE (CASE f.act.t = "none" ->     \* action-less: write the packet as modified so far
                             [s1 EXCEPT !.out = IF c.skip THEN s.out ELSE Append(s.out, c.in[s.i].hdr \o s.cur)]
                        [] f.act.t = "count" ->
                             [s1 EXCEPT !.cnt = s.cnt + 1, !.log = Append(s.log, Probe(c, s) \o <<s.cnt + 1>>)]
                        [] f.act.t = "setttl" ->
                             [s1 EXCEPT !.cur = PatchBits(s.cur, 14, Field("ipv4", "ttl"), f.act.k),
                                        !.log = Append(s.log, Probe(c, s) \o <<s.cnt>>)]
                        [] f.act.t = "local" ->
                             [s1 EXCEPT !.log = Append(s.log, Probe(c, s) \o <<s.cnt, 2 * s.i>>)])
    [] s.phase = "end" ->
         [s EXCEPT !.phase = "done", !.log = IF c.prog.hasEnd THEN Append(s.log, <<"END", NPk(c), s.cnt>>) ELSE s.log]
    [] OTHER -> s

\* the whole run (the loop takes at most 4 + NPk * (NF + 2) steps)
RECURSIVE RunFrom(_, _, _)
RunFrom(c, s, fuel) == IF s.phase = "done" \/ fuel = 0 THEN s ELSE RunFrom(c, Step(c, s), fuel - 1)
Run(c) == RunFrom(c, S0, 6 + NPk(c) * (NF(c) + 3))

\* ------------------------------ properties (of a state s of configuration c) -------------
ActionEvents(s) == SelectSeq(s.log, LAMBDA e : e[1] = "A")
MainOnceFirst(s) == (s.log # <<>> => s.log[1] = <<"MAIN">>) /\ Cardinality({n \in 1..Len(s.log) : s.log[n] = <<"MAIN">>}) <= 1
\* packets in order, filters in source order within a packet, NP = the packet's 1-based index
Ordered(s) == \A a, b \in 1..Len(ActionEvents(s)) : a < b =>
                LET x == ActionEvents(s)[a]  y == ActionEvents(s)[b]
                IN x[3] < y[3] \/ (x[3] = y[3] /\ x[2] < y[2])
VarsMatchRecord(c, s) == \A n \in 1..Len(ActionEvents(s)) :
                           LET e == ActionEvents(s)[n]
                           IN e[3] \in 1..NPk(c) /\ e[4] = PL(c, e[3]) /\ e[5] = WL(c, e[3]) /\ e[6] = TSS(c, e[3]) /\ e[7] = TSU(c, e[3])
EndOnceLast(c, s) == s.phase = "done" =>
                       /\ c.prog.hasEnd => s.log[Len(s.log)] = <<"END", NPk(c), s.cnt>>
                       /\ Cardinality({n \in 1..Len(s.log) : s.log[n][1] = "END"}) = (IF c.prog.hasEnd THEN 1 ELSE 0)
OutputShape(c, s) == /\ c.skip => (s.outHdr = <<>> /\ s.out = <<>>)
                     /\ (~c.skip /\ s.phase \notin {"main", "hdr"}) => s.outHdr = c.inhdr
WritesBounded(c, s) == Len(s.out) <= NPk(c) * Cardinality({n \in 1..NF(c) : c.prog.filters[n].act.t = "none"})
=============================================================================
