SPECIFICATION Spec
CONSTANTS
 NChunks = 16
 Stride = 3
CHECK_DEADLOCK FALSE
