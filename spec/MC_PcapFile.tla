----------------------------- MODULE MC_PcapFile -----------------------------
(* files of NRecs distinguishable records (their ids), damaged after them or not *)
EXTENDS PcapFile
CONSTANT NRecs
MCComplete == [i \in 1..NRecs |-> i]
=============================================================================
