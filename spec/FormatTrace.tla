----------------------------- MODULE FormatTrace -----------------------------
(***************************************************************************)
(* Validation of recorded format / print calls of the real interpreter     *)
(* against the reference renderer of Format.tla (C12).                     *)
(*  kind "format": [fmt, args (value + display text), how, text]           *)
(*     Render ok    => the call succeeded and returned exactly the text    *)
(*     Render error => the call raised a runtime error                     *)
(*  kind "print": a script of calls [name, fmt, args]; what the process    *)
(*     wrote to stdout and stderr, the integers the calls returned, how    *)
(*     the run ended.  Expected: the texts of the successful prefix of     *)
(*     calls, in order, on the stream of each call (plus newline for the   *)
(*     ln variants), each call returning the UTF-8 length of what it       *)
(*     wrote; the first call whose Render is an error ends the run with a  *)
(*     runtime error.                                                      *)
(***************************************************************************)
EXTENDS Format, Json, IOUtils

CONSTANT NChunks
\* parsed once at start-up into a TLC register (TLC re-evaluates a definition that reads a file on every reference)
ASSUME TLCSet(7, ndJsonDeserialize(IOEnv.TRACE))
Recs == TLCGet(7)

FormatVerdict(rec) ==
  LET r == Render(rec.fmt, rec.args)
      good == CASE r.how = "unspec" -> TRUE
                [] r.how = "error" -> rec.how = "rterror"
                [] OTHER -> rec.how = "ok" /\ rec.text = r.text
  IN [id |-> rec.id, v |-> IF good THEN "ok" ELSE "bad", exp |-> r.how, want |-> r.text]

\* fold over the calls: expected stdout / stderr (code points), returned lengths, state "run" | "error" | "unspec"
PrintVerdict(rec) ==
  LET step(acc, c) ==
        IF acc.st # "run" THEN acc
        ELSE LET r == Render(c.fmt, c.args)
             IN IF r.how = "unspec" THEN [acc EXCEPT !.st = "unspec"]
                ELSE IF r.how = "error" THEN [acc EXCEPT !.st = "error"]
                ELSE LET t == PrintText(c.name, r)
                     IN IF PrintStream(c.name) = "out"
                        THEN [acc EXCEPT !.out = acc.out \o t, !.lens = Append(acc.lens, Utf8Len(t))]
                        ELSE [acc EXCEPT !.err = acc.err \o t, !.lens = Append(acc.lens, Utf8Len(t))]
      e == FoldLeft(step, [st |-> "run", out |-> <<>>, err |-> <<>>, lens |-> <<>>], rec.calls)
      good == CASE e.st = "unspec" -> TRUE
                [] e.st = "error" -> rec.how = "rterror" /\ rec.out = e.out /\ rec.errtext = e.err
                [] OTHER -> rec.how = "ok" /\ rec.out = e.out /\ rec.errtext = e.err /\ rec.lens = e.lens
  IN [id |-> rec.id, v |-> IF good THEN "ok" ELSE "bad", exp |-> e.st, want |-> e.out]

Verdict(rec) == IF rec.kind = "format" THEN FormatVerdict(rec) ELSE PrintVerdict(rec)

VARIABLE pc
Init == pc = <<"root", 0>>
Next == \/ /\ pc[1] = "root" /\ \E c \in 0..(NChunks - 1) : pc' = <<"chunk", c>>
        \/ /\ pc[1] = "chunk"
           /\ LET idxs == SetToSortSeq({i \in 1..Len(Recs) : i % NChunks = pc[2]}, <)
                  vs == [n \in 1..Len(idxs) |-> Verdict(Recs[idxs[n]])]
              IN ndJsonSerialize(IOEnv.OUTDIR \o "/v" \o ToString(pc[2]) \o ".ndjson", vs)
           /\ pc' = <<"done", pc[2]>>
Spec == Init /\ [][Next]_pc
=============================================================================
