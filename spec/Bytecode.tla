------------------------------ MODULE Bytecode ------------------------------
(***************************************************************************)
(* The bytecode format (C14): an instruction is an opcode byte followed by *)
(* its operands, each big-endian in the width the opcode's definition      *)
(* gives.  Encode is defined only when every operand fits its width; the   *)
(* decoder and the VM must read exactly what the encoder wrote.            *)
(* The width table W is a parameter (a sequence indexed by opcode + 1 of   *)
(* sequences of widths): SpecWidths is the documented design; conformance  *)
(* runs bind W to the widths the real encoder produces, because the        *)
(* property demands agreement of encoder, decoder and VM, not a layout.    *)
(***************************************************************************)
EXTENDS Integers, Sequences, SequencesExt, FiniteSets, TLC

OpNames == <<"Constant", "Pop", "Add", "Sub", "Mul", "Div", "Mod", "True", "False", "Equal", "NotEqual", "Greater",
             "GreaterEq", "Minus", "Bang", "Jump", "JumpIfFalse", "JumpIfFalseNoPop", "Null", "DefineGlobal",
             "GetGlobal", "SetGlobal", "Array", "Map", "GetIndex", "SetIndex", "Call", "ReturnValue", "Return",
             "DefineLocal", "GetLocal", "SetLocal", "GetBuiltinFn", "GetBuiltinVar", "Closure", "GetFree", "SetFree",
             "CurrClosure", "Not", "And", "Or", "Xor", "ShiftLeft", "ShiftRight", "Dup", "GetProp", "SetProp", "Dollar">>
NOps == Len(OpNames)
OpCode(name) == CHOOSE i \in 0..(NOps - 1) : OpNames[i + 1] = name

SpecWidths == [i \in 1..NOps |->
  LET n == OpNames[i] IN
  CASE n \in {"Constant", "Jump", "JumpIfFalse", "JumpIfFalseNoPop", "DefineGlobal", "GetGlobal", "SetGlobal", "Array", "Map"} -> <<2>>
    [] n \in {"Call", "DefineLocal", "GetLocal", "SetLocal", "GetBuiltinFn", "GetBuiltinVar", "GetFree", "SetFree", "GetProp", "SetProp"} -> <<1>>
    [] n = "Closure" -> <<2, 1>>
    [] OTHER -> <<>>]

Pow256(w) == CASE w = 0 -> 1 [] w = 1 -> 256 [] w = 2 -> 65536 [] w = 3 -> 16777216
Fits(v, w) == v >= 0 /\ v < Pow256(w)
SumSeq(s) == FoldLeft(LAMBDA a, b : a + b, 0, s)
InstrLen(W, op) == 1 + SumSeq(W[op + 1])

\* big-endian bytes of v in w bytes
BE(v, w) == [i \in 1..w |-> (v \div Pow256(w - i)) % 256]
FromBE(bs) == FoldLeft(LAMBDA a, b : a * 256 + b, 0, bs)

OperandsFit(W, op, operands) ==
  /\ Len(operands) = Len(W[op + 1])
  /\ \A i \in 1..Len(operands) : Fits(operands[i], W[op + 1][i])
\* defined when OperandsFit
Encode(W, op, operands) ==
  <<op>> \o FoldLeft(LAMBDA acc, i : acc \o BE(operands[i], W[op + 1][i]), <<>>, [i \in 1..Len(operands) |-> i])

\* operands of the instruction at position ip (0-based) of code
Operands(W, code, ip) ==
  LET op == code[ip + 1]
      ws == W[op + 1]
      f(acc, w) == [off |-> acc.off + w, vs |-> Append(acc.vs, FromBE(SubSeq(code, ip + 1 + acc.off + 1, ip + 1 + acc.off + w)))]
  IN FoldLeft(f, [off |-> 0, vs |-> <<>>], ws).vs
Decode(W, code, ip) == [op |-> code[ip + 1], operands |-> Operands(W, code, ip), len |-> InstrLen(W, code[ip + 1])]
=============================================================================
