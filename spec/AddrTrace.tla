------------------------------ MODULE AddrTrace ------------------------------
(***************************************************************************)
(* Validation of address assignments performed by the real interpreter     *)
(* (C18).  A record is one run: the text assigned to an address property   *)
(* of a layer of a fixed frame, whether the assignment raised a runtime    *)
(* error, the text read back from the property and the address bytes found *)
(* in the packet written out afterwards.                                   *)
(*   text accepted by the reference parser  =>  no error, the stored bytes *)
(*     are the parser's address, and the text read back denotes the same   *)
(*     address (whatever display style the implementation uses)            *)
(*   text rejected by the reference parser  =>  runtime error              *)
(* kind = "display": the text is what the implementation displayed for the *)
(* address `orig` of another field; it must parse back to `orig` and be    *)
(* accepted when assigned.                                                 *)
(***************************************************************************)
EXTENDS Addr, Json, IOUtils

\* parsed once at start-up into a TLC register (TLC re-evaluates a definition that reads a file on every reference)
ASSUME TLCSet(7, ndJsonDeserialize(IOEnv.TRACE))
Recs == TLCGet(7)
Verdict(rec) ==
  LET r == Parse(rec.fam, rec.text)
      good ==
        IF rec.kind = "display"
        THEN \* the displayed text of an address, whatever form the display chooses, is accepted back and stores
             \* that address (when the form is one the reference parser settles, it must also denote it)
             /\ rec.how = "ok"
             /\ rec.stored = rec.orig
             /\ (r.s = "ok" => r.bytes = rec.orig)
             /\ r.s # "reject"
        ELSE CASE r.s = "unspec" -> TRUE
               [] r.s = "reject" -> rec.how = "rterror"
               [] r.s = "ok" -> /\ rec.how = "ok"
                                /\ rec.stored = r.bytes
                                /\ LET b == Parse(rec.fam, rec.readback) IN b.s = "ok" /\ b.bytes = r.bytes
  IN [id |-> rec.id, v |-> IF good THEN "ok" ELSE "bad", exp |-> r.s]

VARIABLE pc
Init == pc = "run"
Next == /\ pc = "run"
        /\ ndJsonSerialize(IOEnv.OUTDIR \o "/v0.ndjson", [i \in 1..Len(Recs) |-> Verdict(Recs[i])])
        /\ pc' = "done"
Spec == Init /\ [][Next]_pc
=============================================================================
