-------------------------------- MODULE Total --------------------------------
(***************************************************************************)
(* Totality of execution (C08), end to end: whatever the program and the   *)
(* packet input, a run of the interpreter ends in one of the terminal      *)
(* outcomes                                                                *)
(*    "exit"  - the process exited by itself (any status)                  *)
(* and never with a panic, an abort / signal, or not at all.  A program    *)
(* that asks for exit(n) ends with status n mod 256; a reported runtime    *)
(* error is reported on stderr as "[line N] Runtime error: ...".           *)
(* Each record of the trace is one run: [id, want, out = [how, rc, rterr]].*)
(***************************************************************************)
EXTENDS Integers, Sequences, SequencesExt, FiniteSets, TLC, Json, IOUtils

CONSTANT NChunks
\* parsed once at start-up into a TLC register (TLC re-evaluates a definition that reads a file on every reference)
ASSUME TLCSet(7, ndJsonDeserialize(IOEnv.TRACE))
Recs == TLCGet(7)
Terminal == {"exit"}
\* want.kind: "terminal" | "status" (want.rc) | "rterror" (a runtime error must be reported) | "clean" (no runtime error)
Verdict(rec) ==
  LET out == rec.out
      good == /\ out.how \in Terminal
              /\ CASE rec.want.kind = "status" -> out.rc = rec.want.rc
                   [] rec.want.kind = "rterror" -> out.rterr
                   [] rec.want.kind = "clean" -> ~out.rterr /\ out.rc = 0
                   [] OTHER -> TRUE
  IN [id |-> rec.id, v |-> IF good THEN "ok" ELSE "bad"]

VARIABLE pc
N == Len(Recs)
Init == pc = <<"root", 0>>
Next == \/ /\ pc[1] = "root" /\ \E c \in 0..(NChunks - 1) : pc' = <<"chunk", c>>
        \/ /\ pc[1] = "chunk"
           /\ LET idxs == SetToSortSeq({i \in 1..N : i % NChunks = pc[2]}, <)
                  vs == [n \in 1..Len(idxs) |-> Verdict(Recs[idxs[n]])]
              IN ndJsonSerialize(IOEnv.OUTDIR \o "/v" \o ToString(pc[2]) \o ".ndjson", vs)
           /\ pc' = <<"done", pc[2]>>
Spec == Init /\ [][Next]_pc
=============================================================================
