SPECIFICATION TSpec
CONSTANT NChunks = 8
CHECK_DEADLOCK FALSE
