SPECIFICATION Spec
CONSTANT NChunks = 4
CHECK_DEADLOCK FALSE
