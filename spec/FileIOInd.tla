----------------------------- MODULE FileIOInd -----------------------------
(***************************************************************************)
(* FileIO.tla in a typed form for Apalache (results kept flattened in      *)
(* `got`): PrefixExactlyOnce and ShortOnlyAtEOF as an inductive invariant  *)
(* for every content of up to MaxLen bytes, every delivery schedule and    *)
(* call histories of every length.                                         *)
(***************************************************************************)
EXTENDS Integers, Sequences, Apalache

CONSTANTS
  \* @type: Seq(Int);
  Content

VARIABLES
  \* @type: Int;
  cursor,
  \* @type: Int;
  arrived,
  \* @type: Bool;
  closed,
  \* @type: Seq(Int);
  got,
  \* @type: Bool;
  short

N == Len(Content)
NL == 10
\* @type: (Int, Int) => Int;
Min2(a, b) == IF a < b THEN a ELSE b
\* @type: Seq(Int);
Empty == <<>>

\* position (1-based) of the first newline after c and not beyond upto, or 0
\* @type: (Int, Int) => Int;
NextNL(c, upto) ==
  IF \E i \in 1..8 : i > c /\ i <= upto /\ i <= N /\ Content[i] = NL
  THEN CHOOSE i \in 1..8 : /\ i > c /\ i <= upto /\ i <= N /\ Content[i] = NL
                            /\ \A k \in 1..8 : (k > c /\ k <= upto /\ k <= N /\ Content[k] = NL) => i <= k
  ELSE 0

Deliver == /\ ~closed /\ arrived < N
           /\ \E k \in 1..8 : arrived' = Min2(arrived + k, N)
           /\ UNCHANGED <<cursor, closed, got, short>>
CloseWriter == ~closed /\ arrived = N /\ closed' = TRUE /\ UNCHANGED <<cursor, arrived, got, short>>
\* @type: (Int) => Bool;
Answer(len) == /\ got' = got \o SubSeq(Content, cursor + 1, cursor + len)
               /\ cursor' = cursor + len /\ UNCHANGED <<arrived, closed>>
Read(n) == /\ (arrived - cursor >= n \/ closed)
           /\ LET len == Min2(n, N - cursor) IN
              /\ Answer(len)
              /\ short' = (short \/ (len < n /\ cursor + len < N))
ReadAll == closed /\ Answer(N - cursor) /\ UNCHANGED short
ReadLine == /\ (NextNL(cursor, arrived) # 0 \/ closed)
            /\ LET p == NextNL(cursor, N) IN Answer(IF p = 0 THEN N - cursor ELSE p - cursor)
            /\ UNCHANGED short
Init == cursor = 0 /\ arrived = 0 /\ closed = FALSE /\ got = Empty /\ short = FALSE
Next == Deliver \/ CloseWriter \/ (\E n \in 0..9 : Read(n)) \/ ReadAll \/ ReadLine

TypeOK == cursor \in 0..N /\ arrived \in 0..N /\ cursor <= arrived /\ (closed => arrived = N)
PrefixExactlyOnce == got = SubSeq(Content, 1, cursor)
ShortOnlyAtEOF == ~short
IndInv == TypeOK /\ PrefixExactlyOnce /\ ShortOnlyAtEOF
IndInit == /\ cursor \in 0..8 /\ arrived \in 0..8 /\ closed \in BOOLEAN /\ short = FALSE
           /\ cursor <= arrived /\ arrived <= N /\ (closed => arrived = N)
           /\ got = SubSeq(Content, 1, cursor)
\* contents of up to 8 bytes of arbitrary value
ConstInit == Content = Gen(8)
=============================================================================
