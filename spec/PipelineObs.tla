---------------------------- MODULE PipelineObs ----------------------------
(* What can be observed of a finished run of the pipeline (Pipeline.tla):    *)
(* <<diagnostics reported, program executed>>.  Pipeline.tla's invariant     *)
(* TerminalsAsStated ties this set to the state machine.                     *)
EXTENDS Naturals, Sequences, SequencesExt, FiniteSets, TLC, Json, IOUtils
TerminalObs == {<<FALSE, TRUE>>, <<TRUE, FALSE>>}
=============================================================================
