------------------------------ MODULE GenCalls ------------------------------
(***************************************************************************)
(* Case generator for the pure builtins (C11) and for crash-freedom of     *)
(* builtin calls (C08): every builtin at its documented arities with every *)
(* combination of the boundary arguments, and at every other arity 0..3    *)
(* with a reduced argument set.  Each case binds the arguments to          *)
(* variables, observes the call's result and then the first argument (so   *)
(* in-place effects are visible).  Expected results come from Builtins.tla.*)
(***************************************************************************)
EXTENDS AstB

CONSTANTS NChunks, Stride
O(tag, e) == [tag |-> tag, e |-> e]
Bytes(bs) == ArrE(FoldLeft(LAMBDA acc, b : Append(acc, L(By(b))), <<>>, bs))
Args == <<
  O("int:0", N(0)), O("int:1", N(1)), O("int:-1", N(-1)), O("int:2", N(2)), O("int:65", N(65)), O("int:97", N(97)),
  O("int:255", N(255)), O("int:256", N(256)), O("int:surrogate", N(55296)), O("int:1114112", N(1114112)),
  O("int:MAX", L(I(MaxInt))), O("int:MIN", L(I(MinInt))), O("int:-123456789", L(I(Neg(<<21, 205, 91, 7, 0, 0, 0, 0>>)))),
  O("float:0", L(PZero)), O("float:1.5", L(F("dy", 3, 1))), O("float:-2.5", L(F("dy", -5, 1))), O("float:2.75", L(F("dy", 11, 2))),
  O("float:97", L(F("dy", 97, 0))), O("float:nan", L(NaN)), O("float:inf", L(PInf)), O("float:-0.25", L(F("dy", -1, 2))),
  O("str:empty", L(S(<<>>))), O("str:a", L(S(<<97>>))), O("str:Ab", L(S(<<65, 98>>))), O("str:e-acute", L(S(<<233>>))),
  O("str:12", L(S(<<49, 50>>))), O("str:-7", L(S(<<45, 55>>))), O("str:1.5", L(S(<<49, 46, 53>>))), O("str:x", L(S(<<120>>))),
  O("str:sp1", L(S(<<32, 49>>))), O("str:big", L(S(<<57, 50, 50, 51, 51, 55, 50, 48, 51, 54, 56, 53, 52, 55, 55, 53, 56, 48, 55>>))),
  O("str:hello-euro", L(S(<<104, 8364, 108>>))),
  O("char:a", L(Ch(97))), O("char:Z", L(Ch(90))), O("char:e-acute", L(Ch(233))), O("char:emoji", L(Ch(128512))),
  O("byte:0", L(By(0))), O("byte:65", L(By(65))), O("byte:200", L(By(200))),
  O("bool:true", L(B(TRUE))), O("bool:false", L(B(FALSE))), O("null", L(Null)),
  O("arr:empty", ArrE(<<>>)), O("arr:ints", ArrE(<<N(3), N(1), N(2), N(1)>>)),
  O("arr:mixed-num", ArrE(<<N(3), L(F("dy", 3, 1)), N(2)>>)), O("arr:strs", ArrE(<<L(S(<<98>>)), L(S(<<97>>)), L(S(<<>>))>>)),
  O("arr:chars", ArrE(<<L(Ch(104)), L(Ch(105))>>)), O("arr:bytes-hi", Bytes(<<104, 105>>)),
  O("arr:bytes-e-acute", Bytes(<<195, 169>>)), O("arr:bytes-bad", Bytes(<<255>>)), O("arr:bytes-overlong", Bytes(<<192, 128>>)),
  O("arr:bytes-surrogate", Bytes(<<237, 160, 128>>)), O("arr:bytes-trunc", Bytes(<<226, 130>>)),
  O("arr:bytes-4", Bytes(<<240, 159, 152, 128>>)),
  O("arr:int-and-str", ArrE(<<N(1), L(S(<<97>>))>>)), O("arr:nested", ArrE(<<ArrE(<<N(1)>>)>>)),
  O("map:empty", MapE(<<>>)), O("map:1", MapE(<< <<N(1), N(2)>>, <<L(S(<<97>>)), L(Null)>> >>)),
  O("fn", FnE(<<>>, <<>>)), O("builtin:len", Id("len")),
  \* (appended later: numbers that equal an integer key / element of the containers above in another kind)
  O("float:1", L(F("dy", 1, 0))), O("float:3", L(F("dy", 3, 0))), O("byte:1", L(By(1)))
>>
NA == Len(Args)
\* reduced set (indices into Args) for undocumented arities and third arguments
Red == <<1, 15, 23, 42, 44, 58>>
NR == Len(Red)

\* builtin, documented arities
Bs == << <<"len", {1}>>, <<"first", {1}>>, <<"last", {1}>>, <<"rest", {1}>>, <<"push", {2}>>, <<"pop", {1}>>,
         <<"get", {2}>>, <<"contains", {2}>>, <<"insert", {3}>>, <<"str", {1}>>, <<"int", {1}>>, <<"float", {1}>>,
         <<"char", {1}>>, <<"byte", {1}>>, <<"tolower", {1}>>, <<"toupper", {1}>>, <<"sort", {1}>>, <<"chars", {1}>>,
         <<"join", {1, 2}>>, <<"encode_utf8", {1}>>, <<"decode_utf8", {1}>>, <<"is_error", {1}>>, <<"round", {2}>>,
         \* not pure (their results are not prescribed here: Builtins.tla leaves them unspecified), but no argument
         \* may crash them (C08).  None of these touches a file or a stream with the arguments above.
         <<"rand", {0, 1}>>, <<"strerror", {1}>>, <<"get_errno", {0}>>, <<"read", {1, 2}>>, <<"write", {2}>>,
         <<"read_to_string", {1}>>, <<"read_line", {1}>>, <<"pcap_read_next", {1}>>, <<"pcap_read_all", {1}>>,
         <<"pcap_write", {2}>>, <<"pcap_stream", {1}>>, <<"print", {1}>>, <<"eprintln", {1}>> >>
NBs == Len(Bs)

\* number of cases of builtin b at arity n
Count(b, n) == IF n \in Bs[b][2]
               THEN (CASE n = 0 -> 1 [] n = 1 -> NA [] n = 2 -> NA * NA [] n = 3 -> NA * NR * NR)
               ELSE (CASE n = 0 -> 1 [] n = 1 -> NR [] n = 2 -> NR * NR [] n = 3 -> NR * NR * NR)
\* cumulative layout: blocks (b, n) for b in 1..NBs, n in 0..3
Blocks == [x \in 1..(NBs * 4) |-> Count(((x - 1) \div 4) + 1, (x - 1) % 4)]
Offsets == FoldLeft(LAMBDA acc, x : Append(acc, acc[Len(acc)] + Blocks[x]), <<0>>, [x \in 1..(NBs * 4) |-> x])
NAll == Offsets[NBs * 4 + 1]
NCases == (NAll + Stride - 1) \div Stride
BlockOf(n) == CHOOSE x \in 1..(NBs * 4) : Offsets[x] <= n /\ n < Offsets[x + 1]

ArgIdx(b, ar, k) ==   \* index tuples of case k within block (b, ar)
  IF ar \in Bs[b][2]
  THEN (CASE ar = 0 -> <<>>
          [] ar = 1 -> <<k + 1>>
          [] ar = 2 -> <<(k \div NA) + 1, (k % NA) + 1>>
          [] ar = 3 -> <<(k \div (NR * NR)) + 1, Red[((k \div NR) % NR) + 1], Red[(k % NR) + 1]>>)
  ELSE (CASE ar = 0 -> <<>>
          [] ar = 1 -> <<Red[k + 1]>>
          [] ar = 2 -> <<Red[(k \div NR) + 1], Red[(k % NR) + 1]>>
          [] ar = 3 -> <<Red[(k \div (NR * NR)) + 1], Red[((k \div NR) % NR) + 1], Red[(k % NR) + 1]>>)

VarName(i) == CASE i = 1 -> "a1" [] i = 2 -> "a2" [] i = 3 -> "a3"
\* quick configurations thin out only the big blocks (argument pairs / triples)
Selected(n) == Stride = 1 \/ Blocks[BlockOf(n)] <= NA \/ n % Stride = 0
Case(n) ==
  LET x == BlockOf(n)
      b == ((x - 1) \div 4) + 1    ar == (x - 1) % 4
      idx == ArgIdx(b, ar, n - Offsets[x])
      lets == [i \in 1..ar |-> LetS(VarName(i), Args[idx[i]].e)]
      args == [i \in 1..ar |-> Id(VarName(i))]
  IN [id |-> n, b |-> Bs[b][1], ar |-> ar, doc |-> ar \in Bs[b][2],
      tags |-> [i \in 1..ar |-> Args[idx[i]].tag],
      prog |-> <<ObsDecl>> \o lets \o <<Obs(Call(Bs[b][1], args))>>
               \o (IF ar >= 1 THEN <<Obs(Id("a1"))>> ELSE <<>>)]

VARIABLE pc
Init == pc = <<"root", 0>>
Next == \/ /\ pc[1] = "root" /\ \E c \in 0..(NChunks - 1) : pc' = <<"chunk", c>>
        \/ /\ pc[1] = "chunk"
           /\ LET ns == SetToSortSeq({n \in 0..(NAll - 1) : n % NChunks = pc[2] /\ Selected(n)}, <)
                  cs == [y \in 1..Len(ns) |-> Case(ns[y])]
              IN ndJsonSerialize(IOEnv.OUTDIR \o "/g" \o ToString(pc[2]) \o ".ndjson", cs)
           /\ pc' = <<"done", pc[2]>>
Spec == Init /\ [][Next]_pc
=============================================================================
