------------------------------ MODULE FaultTrace ------------------------------
(* Trace validation for C22 *)
EXTENDS IOFaultOps
(* ---- trace validation: one record = one run: the ops with what is_error reported ---- *)
\* parsed once at start-up into a TLC register (TLC re-evaluates a definition that reads a file on every reference)
ASSUME TLCSet(7, ndJsonDeserialize(IOEnv.TRACE))
Recs == TLCGet(7)
Verdict(rec) ==
  \* fault: "yes" | "no" | "either" (the standard output still holds bytes an earlier failed write left in its buffer:
  \* whether a later small write to it meets the full device again is the buffer's business)
  LET stepOK(i) == CASE rec.steps[i].fault = "yes" -> rec.steps[i].seen = "true"
                     [] rec.steps[i].fault = "no" -> rec.steps[i].seen = "false"
                     [] OTHER -> rec.steps[i].seen \in {"true", "false"}
      bad == {i \in 1..Len(rec.steps) : ~stepOK(i)}
  IN [id |-> rec.id, v |-> IF bad = {} /\ rec.done /\ rec.how = "exit" /\ ~rec.rterror THEN "ok" ELSE "bad",
      at |-> IF bad = {} THEN 0 ELSE CHOOSE i \in bad : \A k \in bad : i <= k]
VARIABLE tpc
Init == tpc = "run"
Next == /\ tpc = "run"
         /\ ndJsonSerialize(IOEnv.OUTDIR \o "/v0.ndjson", [i \in 1..Len(Recs) |-> Verdict(Recs[i])])
         /\ tpc' = "done"
Spec == Init /\ [][Next]_tpc
======================================================================================================================================================
