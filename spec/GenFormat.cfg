SPECIFICATION Spec
CONSTANTS
 NChunks = 16
CHECK_DEADLOCK FALSE
