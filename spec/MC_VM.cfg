SPECIFICATION MCSpec
CONSTANTS
  StackSize = 4096
  MaxFrames = 4096
  MaxDepth = 60
  MaxIter = 400
INVARIANTS TypeOK FetchAligned NeverStuck NoUnderflow FramesNested EndsBalanced
