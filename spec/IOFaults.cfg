SPECIFICATION Spec
CONSTANT MaxLen = 2
INVARIANTS NeverAborts ErrIffFault
PROPERTY RunsToEnd
CHECK_DEADLOCK FALSE
