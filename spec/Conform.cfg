SPECIFICATION Spec
CONSTANTS
  MaxDepth = 60
  MaxIter = 300
  NChunks = 32
CHECK_DEADLOCK FALSE
