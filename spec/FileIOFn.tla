------------------------------ MODULE FileIOFn ------------------------------
(* The answers of the read calls as functions of a content c and a cursor,   *)
(* and the content of a file after a program that wrote to it (C21); used by *)
(* the state machine FileIO.tla and by the trace validation FileIOTrace.tla. *)
EXTENDS Integers, Sequences, SequencesExt, FiniteSets, TLC
NL == 10
Min2(a, b) == IF a < b THEN a ELSE b
\* position (absolute, 1-based) of the first newline of c after cursor and not beyond upto, or 0
NextNLc(c, cursor, upto) == LET s == {i \in (cursor + 1)..upto : c[i] = NL} IN IF s = {} THEN 0 ELSE CHOOSE i \in s : \A k \in s : i <= k
RRes(c, cursor, n) == SubSeq(c, cursor + 1, cursor + Min2(n, Len(c) - cursor))
ARes(c, cursor) == SubSeq(c, cursor + 1, Len(c))
LRes(c, cursor) == LET p == NextNLc(c, cursor, Len(c)) IN IF p = 0 THEN ARes(c, cursor) ELSE SubSeq(c, cursor + 1, p)
Flatten(rs) == FoldLeft(LAMBDA a, b : a \o b, <<>>, rs)
\* read_line / read_to_string return text: a piece of the content that is not well-formed UTF-8 (no overlong forms, no
\* surrogates, nothing above U+10FFFF, no sequence cut short) cannot be returned as text without changing it
WellFormedUtf8(bs) ==
  LET step(acc, b) ==
        IF ~acc.ok THEN acc
        ELSE IF acc.need = 0 THEN
          (CASE b < 128 -> acc
             [] b >= 194 /\ b <= 223 -> [acc EXCEPT !.need = 1, !.cp = b - 192, !.min = 128]
             [] b >= 224 /\ b <= 239 -> [acc EXCEPT !.need = 2, !.cp = b - 224, !.min = 2048]
             [] b >= 240 /\ b <= 244 -> [acc EXCEPT !.need = 3, !.cp = b - 240, !.min = 65536]
             [] OTHER -> [acc EXCEPT !.ok = FALSE])
        ELSE IF b < 128 \/ b > 191 THEN [acc EXCEPT !.ok = FALSE]
        ELSE LET cp == acc.cp * 64 + (b - 128)
             IN IF acc.need > 1 THEN [acc EXCEPT !.need = acc.need - 1, !.cp = cp]
                ELSE IF cp < acc.min \/ cp > 1114111 \/ (cp >= 55296 /\ cp <= 57343) THEN [acc EXCEPT !.ok = FALSE]
                ELSE [acc EXCEPT !.need = 0, !.cp = 0]
      r == FoldLeft(step, [ok |-> TRUE, need |-> 0, cp |-> 0, min |-> 0], bs)
  IN r.ok /\ r.need = 0
(* writing: what a file holds after a program that opened it with a mode, wrote some byte   *)
(* strings and ended normally (handles are flushed and closed at exit)                       *)
(*   r: must exist (open fails otherwise); w: create or truncate; a: create or append;       *)
(*   x: create, failing if it exists                                                         *)
OpenFails(mode, existed) == (mode = "r" /\ ~existed) \/ (mode = "x" /\ existed)
AfterExit(mode, existed, before, writes) ==
  IF OpenFails(mode, existed) \/ mode = "r" THEN before
  ELSE IF mode = "a" THEN before \o Flatten(writes)
  ELSE Flatten(writes)
=============================================================================
