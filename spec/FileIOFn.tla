------------------------------ MODULE FileIOFn ------------------------------
(* The answers of the read calls as functions of a content c and a cursor,   *)
(* and the content of a file after a program that wrote to it (C21); used by *)
(* the state machine FileIO.tla and by the trace validation FileIOTrace.tla. *)
EXTENDS Integers, Sequences, SequencesExt, FiniteSets, TLC
NL == 10
Min2(a, b) == IF a < b THEN a ELSE b
\* position (absolute, 1-based) of the first newline of c after cursor and not beyond upto, or 0
NextNLc(c, cursor, upto) == LET s == {i \in (cursor + 1)..upto : c[i] = NL} IN IF s = {} THEN 0 ELSE CHOOSE i \in s : \A k \in s : i <= k
RRes(c, cursor, n) == SubSeq(c, cursor + 1, cursor + Min2(n, Len(c) - cursor))
ARes(c, cursor) == SubSeq(c, cursor + 1, Len(c))
LRes(c, cursor) == LET p == NextNLc(c, cursor, Len(c)) IN IF p = 0 THEN ARes(c, cursor) ELSE SubSeq(c, cursor + 1, p)
Flatten(rs) == FoldLeft(LAMBDA a, b : a \o b, <<>>, rs)
(* writing: what a file holds after a program that opened it with a mode, wrote some byte   *)
(* strings and ended normally (handles are flushed and closed at exit)                       *)
(*   r: must exist (open fails otherwise); w: create or truncate; a: create or append;       *)
(*   x: create, failing if it exists                                                         *)
OpenFails(mode, existed) == (mode = "r" /\ ~existed) \/ (mode = "x" /\ existed)
AfterExit(mode, existed, before, writes) ==
  IF OpenFails(mode, existed) \/ mode = "r" THEN before
  ELSE IF mode = "a" THEN before \o Flatten(writes)
  ELSE Flatten(writes)
=============================================================================
