SPECIFICATION Spec
CONSTANTS
 Content <- C4
 MaxChunk = 3
 MaxRead = 4
INVARIANTS TypeOK PrefixExactlyOnce ShortOnlyAtEOF
CHECK_DEADLOCK FALSE
