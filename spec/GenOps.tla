------------------------------- MODULE GenOps -------------------------------
(***************************************************************************)
(* Case generator for the operator model (C09, C08): every binary operator *)
(* applied to every ordered pair of the boundary operands, and every unary *)
(* operator applied to every operand.  TLC enumerates the table and writes *)
(* it as ndjson (one expression per case); the expected outcome of each    *)
(* case is decided by Values.BinOp / UnOp when the implementation's result *)
(* is validated (Conform.tla).                                             *)
(***************************************************************************)
EXTENDS Values, Json, IOUtils

CONSTANT NChunks
OutDir == IOEnv.OUTDIR

L(v) == [t |-> "lit", v |-> v]
O(tag, e) == [tag |-> tag, e |-> e]
Word(b) == <<b[1], b[2], b[3], b[4], b[5], b[6], b[7], b[8]>>

Operands == <<
  O("int:0", L(IntV(0))), O("int:1", L(IntV(1))), O("int:-1", L(IntV(-1))), O("int:2", L(IntV(2))),
  O("int:3", L(IntV(3))), O("int:-7", L(IntV(-7))),
  O("int:63", L(IntV(63))), O("int:64", L(IntV(64))), O("int:65", L(IntV(65))), O("int:-64", L(IntV(-64))),
  O("int:255", L(IntV(255))), O("int:256", L(IntV(256))),
  O("int:MIN", L(I(MinInt))), O("int:MAX", L(I(MaxInt))), O("int:MIN+1", L(I(Add(MinInt, One)))),
  O("int:2^32", L(I(<<0,0,0,0,1,0,0,0>>))), O("int:2^62", L(I(<<0,0,0,0,0,0,0,64>>))),
  O("float:0", L(PZero)), O("float:-0", L(NZero)), O("float:1", L(F("dy", 1, 0))), O("float:-1", L(F("dy", -1, 0))),
  O("float:0.5", L(F("dy", 1, 1))), O("float:1.5", L(F("dy", 3, 1))), O("float:2", L(F("dy", 2, 0))),
  O("float:-2.5", L(F("dy", -5, 1))), O("float:64", L(F("dy", 64, 0))),
  O("float:inf", L(PInf)), O("float:-inf", L(NInf)), O("float:nan", L(NaN)),
  O("byte:0", L(By(0))), O("byte:1", L(By(1))), O("byte:2", L(By(2))), O("byte:127", L(By(127))),
  O("byte:128", L(By(128))), O("byte:255", L(By(255))),
  O("str:empty", L(S(<<>>))), O("str:a", L(S(<<97>>))), O("str:e-acute", L(S(<<233>>))), O("str:ab", L(S(<<97, 98>>))),
  O("char:a", L(Ch(97))), O("char:b", L(Ch(98))), O("char:e-acute", L(Ch(233))),
  O("bool:true", L(B(TRUE))), O("bool:false", L(B(FALSE))), O("null", L(Null)),
  O("arr:empty", [t |-> "arr", es |-> <<>>]), O("arr:1", [t |-> "arr", es |-> <<L(IntV(1))>>]),
  O("arr:2", [t |-> "arr", es |-> <<L(IntV(2))>>]),
  O("map:empty", [t |-> "map", kvs |-> <<>>]),
  O("fn", [t |-> "fn", n |-> "", ps |-> <<>>, body |-> <<>>]),
  O("builtin:len", [t |-> "id", n |-> "len"])
>>
Ops2 == <<"+", "-", "*", "/", "%", "<", ">", "<=", ">=", "==", "!=", "&", "|", "^", "<<", ">>">>
Ops1 == <<"-", "~", "!">>

NO == Len(Operands)
NBin == Len(Ops2) * NO * NO
NUn == Len(Ops1) * NO
NCases == NBin + NUn

\* case number n in 0..NCases-1
Case(n) ==
  IF n < NBin
  THEN LET o == n \div (NO * NO)   i == (n \div NO) % NO   j == n % NO
           a == Operands[i + 1]    b == Operands[j + 1]
       IN [id |-> n, op |-> Ops2[o + 1], ta |-> a.tag, tb |-> b.tag,
           e |-> [t |-> "bin", op |-> Ops2[o + 1], l |-> a.e, r |-> b.e]]
  ELSE LET m == n - NBin   o == m \div NO   i == m % NO   a == Operands[i + 1]
       IN [id |-> n, op |-> "u" \o Ops1[o + 1], ta |-> a.tag, tb |-> "",
           e |-> [t |-> "un", op |-> Ops1[o + 1], e |-> a.e]]

VARIABLE pc
Init == pc = <<"root", 0>>
Next == \/ /\ pc[1] = "root" /\ \E c \in 0..(NChunks - 1) : pc' = <<"chunk", c>>
        \/ /\ pc[1] = "chunk"
           /\ LET ns == SetToSortSeq({n \in 0..(NCases - 1) : n % NChunks = pc[2]}, <)
                  cs == [x \in 1..Len(ns) |-> Case(ns[x])]
              IN ndJsonSerialize(OutDir \o "/g" \o ToString(pc[2]) \o ".ndjson", cs)
           /\ pc' = <<"done", pc[2]>>
Spec == Init /\ [][Next]_pc
=============================================================================
