-------------------------------- MODULE Addr --------------------------------
(***************************************************************************)
(* Textual forms of MAC, IPv4 and IPv6 addresses (C18): reference parsers  *)
(* written from the standards.  A text is a sequence of code points; the   *)
(* result is [s |-> "ok", bytes |-> <<...>>], [s |-> "reject"] or          *)
(* [s |-> "unspec"] (forms the property does not settle).                  *)
(*   MAC   six colon-separated groups of one or two hexadecimal digits     *)
(*   IPv4  four dot-separated decimal octets 0..255 (leading zeros: unspec)*)
(*   IPv6  RFC 4291 section 2.2 forms 1 and 2: groups of 1-4 hex digits,   *)
(*         at most one "::" standing for one or more zero groups, at any   *)
(*         position; upper or lower case.  The mixed form with a dotted    *)
(*         IPv4 tail (form 3) is unspec.                                   *)
(***************************************************************************)
EXTENDS Integers, Sequences, SequencesExt, FiniteSets, TLC

Colon == 58   Dot == 46
IsDec(c) == c >= 48 /\ c <= 57
IsHex(c) == IsDec(c) \/ (c >= 97 /\ c <= 102) \/ (c >= 65 /\ c <= 70)
HexVal(c) == IF IsDec(c) THEN c - 48 ELSE IF c >= 97 THEN c - 87 ELSE c - 55
AllOf(cs, P(_)) == \A i \in 1..Len(cs) : P(cs[i])

\* split at every occurrence of sep: "a::b" -> <<"a", "", "b">>
Split(cs, sep) ==
  LET f(acc, c) == IF c = sep THEN [parts |-> Append(acc.parts, acc.cur), cur |-> <<>>]
                   ELSE [parts |-> acc.parts, cur |-> Append(acc.cur, c)]
      r == FoldLeft(f, [parts |-> <<>>, cur |-> <<>>], cs)
  IN Append(r.parts, r.cur)

HexNum(cs) == FoldLeft(LAMBDA a, c : a * 16 + HexVal(c), 0, cs)
DecNum(cs) == FoldLeft(LAMBDA a, c : a * 10 + (c - 48), 0, cs)
Ok(bytes) == [s |-> "ok", bytes |-> bytes]
Reject == [s |-> "reject"]
Unspec == [s |-> "unspec"]

ParseMac(cs) ==
  LET ps == Split(cs, Colon)
  IN IF Len(ps) # 6 THEN Reject
     ELSE IF \E i \in 1..6 : Len(ps[i]) \notin {1, 2} \/ ~AllOf(ps[i], IsHex) THEN Reject
     ELSE Ok([i \in 1..6 |-> HexNum(ps[i])])

ParseV4(cs) ==
  LET ps == Split(cs, Dot)
  IN IF Len(ps) # 4 THEN Reject
     ELSE IF \E i \in 1..4 : Len(ps[i]) = 0 \/ ~AllOf(ps[i], IsDec) THEN Reject
     ELSE IF \E i \in 1..4 : Len(ps[i]) > 3 \/ DecNum(SubSeq(ps[i], 1, IF Len(ps[i]) > 4 THEN 4 ELSE Len(ps[i]))) > 255 THEN Reject
     ELSE IF \E i \in 1..4 : Len(ps[i]) > 1 /\ ps[i][1] = 48 THEN Unspec
     ELSE Ok([i \in 1..4 |-> DecNum(ps[i])])

GroupOK(g) == Len(g) \in 1..4 /\ AllOf(g, IsHex)
GroupBytes(gs) == FoldLeft(LAMBDA acc, g : acc \o <<HexNum(g) \div 256, HexNum(g) % 256>>, <<>>, gs)
Zeros(n) == [i \in 1..n |-> 0]
ParseV6(cs) ==
  LET ps == Split(cs, Colon)
      n == Len(ps)
      empties == {i \in 1..n : ps[i] = <<>>}
  IN IF \E i \in 1..Len(cs) : cs[i] = Dot THEN Unspec
     ELSE IF cs = <<>> THEN Reject
     ELSE IF empties = {} THEN
       (IF n = 8 /\ \A i \in 1..8 : GroupOK(ps[i]) THEN Ok(GroupBytes(ps)) ELSE Reject)
     ELSE
       \* exactly one "::"; at the start it shows as two leading empty parts, at the end as two trailing ones
       LET lead == n >= 2 /\ ps[1] = <<>> /\ ps[2] = <<>>
           trail == n >= 2 /\ ps[n] = <<>> /\ ps[n - 1] = <<>>
           core == IF cs = <<Colon, Colon>> THEN <<>>                     \* "::" alone
                   ELSE IF lead /\ trail THEN <<1>>                        \* marks an invalid text such as ":::" or "::x::"
                   ELSE IF lead THEN Tail(ps)                              \* <<"", g...>>
                   ELSE IF trail THEN Front(ps)                            \* <<g..., "">>
                   ELSE ps
           idx == {i \in 1..Len(core) : core[i] = <<>>}
       IN IF cs = <<Colon, Colon>> THEN Ok(Zeros(16))
          ELSE IF lead /\ trail THEN Reject
          ELSE IF (~lead /\ ps[1] = <<>>) \/ (~trail /\ ps[n] = <<>>) THEN Reject   \* a stray single colon at an end
          ELSE IF Cardinality(idx) # 1 THEN Reject                        \* a second "::", or a stray single colon at an end
          ELSE LET k == CHOOSE i \in idx : TRUE
                   left == SubSeq(core, 1, k - 1)
                   right == SubSeq(core, k + 1, Len(core))
                   m == Len(left) + Len(right)
               IN IF m > 7 THEN Reject
                  ELSE IF \E i \in 1..Len(left) : ~GroupOK(left[i]) THEN Reject
                  ELSE IF \E i \in 1..Len(right) : ~GroupOK(right[i]) THEN Reject
                  ELSE Ok(GroupBytes(left) \o Zeros(2 * (8 - m)) \o GroupBytes(right))

Parse(fam, cs) == CASE fam = "mac" -> ParseMac(cs) [] fam = "ipv4" -> ParseV4(cs) [] fam = "ipv6" -> ParseV6(cs)
=============================================================================
