------------------------------- MODULE Conform -------------------------------
(***************************************************************************)
(* Trace validation of whole-program executions against the reference      *)
(* semantics.  Each record of the trace file is one execution of the real  *)
(* interpreter: the program (abstract syntax, with the lines the renderer  *)
(* placed its statements on) and what the implementation did (outcome      *)
(* class, observation sequence, final value, error line).  A record is     *)
(* accepted iff RefSem.Run allows that outcome.  Rejected records do not   *)
(* stop the validation: every record gets a verdict, written as ndjson.    *)
(*                                                                         *)
(* Records are independent executions, so they are validated in parallel:  *)
(* root -> chunk c -> done c; the worker expanding chunk c validates the   *)
(* records i with i % NChunks = c.                                         *)
(***************************************************************************)
EXTENDS RefSem, Json, IOUtils

CONSTANT NChunks
\* parsed once at start-up into a TLC register (TLC re-evaluates a definition that reads a file on every reference)
ASSUME TLCSet(7, ndJsonDeserialize(IOEnv.TRACE))
Recs == TLCGet(7)
OutDir == IOEnv.OUTDIR

RECURSIVE MatchJ(_, _)
\* does the implementation's value j (JSON projection) equal the specification's value v ?
MatchJ(v, j) ==
  CASE j.k = "deep" -> TRUE
    [] v.k \in {"any", "deep"} -> TRUE
    [] v.k = "anystr" -> j.k = "str"
    [] v.k = "float" -> j.k = "float" /\ (v.c = "oom" \/ j.c = "oom" \/ (v.c = j.c /\ v.m = j.m /\ v.e = j.e))
    [] v.k = "arr" -> j.k = "arr" /\ Len(v.v) = Len(j.v) /\ \A i \in 1..Len(v.v) : MatchJ(v.v[i], j.v[i])
    [] v.k = "map" -> /\ j.k = "map" /\ Len(v.v) = Len(j.v)
                      /\ \A i \in 1..Len(v.v) : \E n \in 1..Len(j.v) :
                            MatchJ(v.v[i][1], j.v[n][1]) /\ MatchJ(v.v[i][2], j.v[n][2])
    [] v.k = "fn" -> j.k = "fn"
    [] v.k = "eobj" -> j.k = "err"
    [] v.k = "null" -> j.k = "null"
    [] v.k = "none" -> TRUE
    [] OTHER -> j.k = v.k /\ j.v = v.v

IsBuiltinErr(c) == c \in {"builtin:" \o b : b \in BuiltinNames}
Has(seq, x) == \E i \in 1..Len(seq) : seq[i] = x

\* observed array extends the expected one
ObsPrefix(v, j) == \/ v.k # "arr" \/ j.k # "arr"
                   \/ /\ Len(v.v) <= Len(j.v)
                      /\ \A i \in 1..Len(v.v) : MatchJ(v.v[i], j.v[i])

\* rec = [id, prog, out = [how, obs, final, line], chk = sequence of "final" | "line"]
Verdict(rec) ==
  LET exp == Run(rec.prog)
      out == rec.out
      \* a panic, abort or hang is never an allowed outcome, whatever the program
      crashed == out.how \in {"panic", "abort", "timeout"}
      good == ~crashed /\
        \* (a target that cannot be assigned to may already be refused by the parser)
        CASE exp.how = "compile" -> out.how = "compile" \/ ("lvalue" \in exp.faults /\ out.how = "parse")
          [] exp.how = "ok" -> /\ out.how = "ok"
                               /\ MatchJ(exp.obs, out.obs)
                               /\ Has(rec.chk, "final") => MatchJ(exp.final, out.final)
          [] exp.how = "rterror" -> /\ out.how = "rterror"
                                    /\ MatchJ(exp.obs, out.obs)
                                    /\ Has(rec.chk, "line") => out.line = exp.err.ln
                                    \* a failing builtin is named by the error message
                                    /\ (Has(rec.chk, "bname") /\ IsBuiltinErr(exp.err.c)) => ("builtin:" \o out.mname) = exp.err.c
          [] exp.how = "unspec" -> ObsPrefix(exp.obs, out.obs)
  IN IF good /\ ~Has(rec.chk, "exp")
     THEN [id |-> rec.id, v |-> IF exp.how = "unspec" THEN "unspec" ELSE "ok", how |-> exp.how]
     ELSE IF good THEN [id |-> rec.id, v |-> IF exp.how = "unspec" THEN "unspec" ELSE "ok", how |-> exp.how, exp |-> exp]
     ELSE [id |-> rec.id, v |-> "bad", how |-> exp.how, exp |-> exp]

VARIABLE pc
N == Len(Recs)
ChunkIdx(c) == SetToSortSeq({i \in 1..N : i % NChunks = c}, <)
Init == pc = <<"root", 0>>
Next == \/ /\ pc[1] = "root"
           /\ \E c \in 0..(NChunks - 1) : pc' = <<"chunk", c>>
        \/ /\ pc[1] = "chunk"
           /\ LET idxs == ChunkIdx(pc[2])
                  vs == [n \in 1..Len(idxs) |-> Verdict(Recs[idxs[n]])]
              IN ndJsonSerialize(OutDir \o "/v" \o ToString(pc[2]) \o ".ndjson", vs)
           /\ pc' = <<"done", pc[2]>>
Spec == Init /\ [][Next]_pc
=============================================================================
