------------------------------- MODULE Store -------------------------------
(* The store of reference objects (arrays, maps, closures) and variable     *)
(* cells, with the association-list model of maps (property C10): a map is  *)
(* a sequence of <<key, value>> pairs with pairwise non-equal keys; lookup  *)
(* is by value equality.                                                    *)
EXTENDS Values

EmptyStore == [heap |-> <<>>, cells |-> <<>>]
Alloc(st, obj) == [st EXCEPT !.heap = Append(st.heap, obj)]
NewId(st) == Len(st.heap) + 1
NewCell(st, v) == [st EXCEPT !.cells = Append(st.cells, v)]
NewCellId(st) == Len(st.cells) + 1
SetCell(st, c, v) == [st EXCEPT !.cells[c] = v]
SetObj(st, id, v) == [st EXCEPT !.heap[id].v = v]
Elems(st, a) == st.heap[a.id].v

\* replace the value of the pair whose key equals key, or append a new pair
AssocPut(h, prs, key, val) ==
  LET f(acc, p) == IF ValEq(h, p[1], key) = "t" THEN [ps |-> Append(acc.ps, <<p[1], val>>), hit |-> TRUE]
                   ELSE [ps |-> Append(acc.ps, p), hit |-> acc.hit]
      r == FoldLeft(f, [ps |-> <<>>, hit |-> FALSE], prs)
  IN IF r.hit THEN r.ps ELSE Append(prs, <<key, val>>)

\* a key whose equality with some stored key is not settled makes the lookup unspecified
AssocUnsettled(h, prs, key) == \E i \in 1..Len(prs) : ValEq(h, prs[i][1], key) = "u"
=============================================================================
