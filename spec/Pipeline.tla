------------------------------ MODULE Pipeline ------------------------------
(***************************************************************************)
(* The front-end pipeline of the interpreter (C01, C24):                   *)
(*   source text -> scan + parse -> compile -> run                         *)
(* Every stage is total: for every input it either hands over to the next  *)
(* stage or reports diagnostics and stops.  A program for which            *)
(* diagnostics were reported is not executed.                              *)
(* The text itself is abstracted away: the environment chooses, per stage, *)
(* whether that stage accepts it (the choice stands for "all inputs").     *)
(***************************************************************************)
EXTENDS PipelineObs

VARIABLES stage, diag, executed
vars == <<stage, diag, executed>>

Init == stage = "parse" /\ diag = FALSE /\ executed = FALSE
ParseOk == stage = "parse" /\ stage' = "compile" /\ UNCHANGED <<diag, executed>>
ParseDiag == stage = "parse" /\ stage' = "done" /\ diag' = TRUE /\ UNCHANGED executed
CompileOk == stage = "compile" /\ stage' = "run" /\ UNCHANGED <<diag, executed>>
CompileDiag == stage = "compile" /\ stage' = "done" /\ diag' = TRUE /\ UNCHANGED executed
Run == stage = "run" /\ stage' = "done" /\ executed' = TRUE /\ UNCHANGED diag
Next == ParseOk \/ ParseDiag \/ CompileOk \/ CompileDiag \/ Run
Spec == Init /\ [][Next]_vars /\ WF_vars(Next)

TypeOK == stage \in {"parse", "compile", "run", "done"} /\ diag \in BOOLEAN /\ executed \in BOOLEAN
\* the safety property of C01
DiagnosedNotExecuted == diag => ~executed
TerminalsAsStated == stage = "done" => <<diag, executed>> \in TerminalObs
\* every stage has a successor (totality) and the pipeline ends
Terminates == <>(stage = "done")

=============================================================================
