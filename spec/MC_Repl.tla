------------------------------- MODULE MC_Repl -------------------------------
(* All histories of up to MaxLines lines over a line library: definitions,      *)
(* redefinitions, function definitions, uses, unparsable lines, lines the       *)
(* compiler rejects after a let of an existing name, lines failing at run time  *)
(* after a side effect.                                                         *)
EXTENDS Repl
CONSTANT MaxLines
L(v) == [t |-> "lit", v |-> v]
N(n) == L(IntV(n))
Id(n) == [t |-> "id", n |-> n]
Bin(op, l, r) == [t |-> "bin", op |-> op, l |-> l, r |-> r]
Call(f, as) == [t |-> "call", f |-> Id(f), as |-> as]
LetS(n, e) == [t |-> "let", n |-> n, e |-> e, ln |-> 1]
ExprS(e) == [t |-> "expr", e |-> e, ln |-> 1]
Obs(e) == ExprS(Call("push", <<Id("OBS"), e>>))
Stmts(b) == [kind |-> "stmts", b |-> b]
Lib == <<
  Stmts(<<LetS("OBS", [t |-> "arr", es |-> <<>>])>>),
  Stmts(<<LetS("x", N(1))>>),
  Stmts(<<LetS("x", N(2)), Obs(Id("x"))>>),
  Stmts(<<Obs(Id("x"))>>),
  Stmts(<<[t |-> "fndef", n |-> "f", ps |-> <<"a">>, body |-> <<ExprS(Bin("+", Id("a"), Id("x")))>>, ln |-> 1]>>),
  Stmts(<<Obs(Call("f", <<N(10)>>))>>),
  [kind |-> "unparsable"],
  Stmts(<<LetS("x", Id("nosuch"))>>),
  Stmts(<<Obs(N(7)), ExprS(Bin("/", N(1), N(0))), Obs(N(8))>>),
  Stmts(<<ExprS([t |-> "asg", tg |-> Id("x"), e |-> Bin("+", Id("x"), N(5))])>>)
>>
VARIABLES hist, ts, last
vars == <<hist, ts, last>>
Init == hist = <<>> /\ ts = TopState0 /\ last = <<"none", TopState0>>
Next == /\ Len(hist) < MaxLines
        /\ \E i \in 1..Len(Lib) :
             LET r == RunLine(ts, Lib[i])
             IN /\ hist' = Append(hist, i) /\ last' = <<r.class, ts>> /\ ts' = r.ts
Spec == Init /\ [][Next]_vars
\* a rejected line leaves every earlier binding and its value unchanged
RejectedLineHasNoEffect == last[1] \in {"parse", "compile"} => ts = last[2]
\* the incremental state is the state of running the history as one sequence of lines
LikeOneProgram == ts = RunLines([i \in 1..Len(hist) |-> Lib[hist[i]]])
=============================================================================
