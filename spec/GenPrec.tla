------------------------------- MODULE GenPrec -------------------------------
(***************************************************************************)
(* Precedence and associativity (C03).                                     *)
(*                                                                         *)
(* PrecOf is the documented table (docs/language/expression-precedence.md):*)
(* binary operators group left to right, assignment right to left.         *)
(* RenderMin writes an expression tree with only the parentheses the table *)
(* requires, RenderFull parenthesises every application.  The requirement  *)
(* on the implementation: both texts evaluate alike (and as RefSem         *)
(* evaluates the tree).                                                    *)
(*                                                                         *)
(* The generator enumerates every ordered pair of binary operators in both *)
(* nesting positions, every prefix operator over / under every binary      *)
(* operator, postfix index / call against prefix and binary operators and  *)
(* assignment chains.  For each tree TLC searches leaves under which the   *)
(* tree and its mis-grouped sibling evaluate differently, so that a wrong  *)
(* grouping cannot hide behind equal values.                               *)
(***************************************************************************)
EXTENDS RefSem, Json, IOUtils

CONSTANT NChunks

\* documented levels, highest binds tightest
PrecOf(op) ==
  CASE op \in {"*", "/", "%"} -> 12
    [] op \in {"+", "-"} -> 11
    [] op \in {"<<", ">>"} -> 10
    [] op = "&" -> 9
    [] op = "^" -> 8
    [] op = "|" -> 7
    [] op \in {"==", "!=", "<", ">", "<=", ">="} -> 6
    [] op = "&&" -> 5
    [] op = "||" -> 4
PAssign == 1
PUnary == 13
PCall == 14

Paren(ts) == <<"(">> \o ts \o <<")">>
RECURSIVE RenderMin(_, _), RenderFull(_)
JoinArgs(ts) == IF Len(ts) = 0 THEN <<>>
                ELSE FoldLeft(LAMBDA acc, t : acc \o <<",">> \o t, ts[1], Tail(ts))
LitText(v) == CASE v.k = "int" -> <<ToString(ToInt(v.v))>>
                [] v.k = "bool" -> <<IF v.v THEN "true" ELSE "false">>
RenderMin(e, ctx) ==
  CASE e.t = "lit" -> LitText(e.v)
    [] e.t = "id" -> <<e.n>>
    [] e.t = "bin" -> LET p == PrecOf(e.op)
                          ts == RenderMin(e.l, p) \o <<e.op>> \o RenderMin(e.r, p + 1)
                      IN IF ctx > p THEN Paren(ts) ELSE ts
    [] e.t = "un" -> LET ts == <<e.op>> \o RenderMin(e.e, PUnary) IN IF ctx > PUnary THEN Paren(ts) ELSE ts
    [] e.t = "idx" -> RenderMin(e.a, PCall) \o <<"[">> \o RenderMin(e.i, 0) \o <<"]">>
    [] e.t = "call" -> RenderMin(e.f, PCall) \o <<"(">>
                       \o JoinArgs([i \in 1..Len(e.as) |-> RenderMin(e.as[i], PAssign)]) \o <<")">>
    [] e.t = "asg" -> LET ts == RenderMin(e.tg, PCall) \o <<"=">> \o RenderMin(e.e, PAssign)
                      IN IF ctx > PAssign THEN Paren(ts) ELSE ts
RenderFull(e) ==
  CASE e.t = "lit" -> LitText(e.v)
    [] e.t = "id" -> <<e.n>>
    [] e.t = "bin" -> Paren(RenderFull(e.l) \o <<e.op>> \o RenderFull(e.r))
    [] e.t = "un" -> Paren(<<e.op>> \o RenderFull(e.e))
    [] e.t = "idx" -> Paren(RenderFull(e.a) \o <<"[">> \o RenderFull(e.i) \o <<"]">>)
    [] e.t = "call" -> Paren(RenderFull(e.f) \o <<"(">>
                       \o JoinArgs([i \in 1..Len(e.as) |-> RenderFull(e.as[i])]) \o <<")">>)
    [] e.t = "asg" -> Paren(RenderFull(e.tg) \o <<"=">> \o RenderFull(e.e))

L(v) == [t |-> "lit", v |-> v]
Bin(op, l, r) == [t |-> "bin", op |-> op, l |-> l, r |-> r]
Un(op, e) == [t |-> "un", op |-> op, e |-> e]
Id(n) == [t |-> "id", n |-> n]

BinOps == <<"*", "/", "%", "+", "-", "<<", ">>", "&", "^", "|", "==", "!=", "<", ">", "<=", ">=", "&&", "||">>
UnOps == <<"!", "-", "~">>
NB == Len(BinOps)
NU == Len(UnOps)
\* (a sequence, not a set: TLC cannot order records whose v fields differ in type)
Leaves == <<L(IntV(0)), L(IntV(1)), L(IntV(2)), L(IntV(3)), L(IntV(5)), L(IntV(7)), L(B(TRUE)), L(B(FALSE))>>
NL == Len(Leaves)

\* outcome of a closed expression: <<status, value>>
Outcome(e) == LET r == Ev(e, <<>>, EmptyStore, 1, 0) IN <<r.s, r.v>>

\* shapes: a tree builder T(a, b, c) and its mis-grouped sibling S(a, b, c)
Shape(n) ==
  IF n < NB * NB THEN
    LET o1 == BinOps[(n \div NB) + 1]  o2 == BinOps[(n % NB) + 1]
    IN [shape |-> "left", o1 |-> o1, o2 |-> o2]      \* (a o1 b) o2 c   vs   a o1 (b o2 c)
  ELSE IF n < 2 * NB * NB THEN
    LET m == n - NB * NB  o1 == BinOps[(m \div NB) + 1]  o2 == BinOps[(m % NB) + 1]
    IN [shape |-> "right", o1 |-> o1, o2 |-> o2]     \* a o1 (b o2 c)   vs   (a o1 b) o2 c
  ELSE IF n < 2 * NB * NB + NU * NB THEN
    LET m == n - 2 * NB * NB IN [shape |-> "un-left", o1 |-> UnOps[(m \div NB) + 1], o2 |-> BinOps[(m % NB) + 1]]
                                                       \* (u a) o2 b    vs   u (a o2 b)
  ELSE IF n < 2 * NB * NB + 2 * NU * NB THEN
    LET m == n - 2 * NB * NB - NU * NB IN [shape |-> "un-over", o1 |-> UnOps[(m \div NB) + 1], o2 |-> BinOps[(m % NB) + 1]]
                                                       \* u (a o2 b)    vs   (u a) o2 b
  ELSE
    LET m == n - 2 * NB * NB - 2 * NU * NB IN [shape |-> "un-right", o1 |-> UnOps[(m \div NB) + 1], o2 |-> BinOps[(m % NB) + 1]]
                                                       \* a o2 (u b)
NShapes == 2 * NB * NB + 3 * NU * NB

Tree(s, a, b, c) ==
  CASE s.shape = "left" -> Bin(s.o2, Bin(s.o1, a, b), c)
    [] s.shape = "right" -> Bin(s.o1, a, Bin(s.o2, b, c))
    [] s.shape = "un-left" -> Bin(s.o2, Un(s.o1, a), b)
    [] s.shape = "un-over" -> Un(s.o1, Bin(s.o2, a, b))
    [] s.shape = "un-right" -> Bin(s.o2, a, Un(s.o1, b))
Sibling(s, a, b, c) ==
  CASE s.shape = "left" -> Bin(s.o1, a, Bin(s.o2, b, c))
    [] s.shape = "right" -> Bin(s.o2, Bin(s.o1, a, b), c)
    [] s.shape = "un-left" -> Un(s.o1, Bin(s.o2, a, b))
    [] s.shape = "un-over" -> Bin(s.o2, Un(s.o1, a), b)
    [] s.shape = "un-right" -> Un(s.o1, Bin(s.o2, a, b))

Triples == (1..NL) \X (1..NL) \X (1..NL)
Lf(t, i) == Leaves[t[i]]
\* (kind first: TLC refuses to compare payloads of different types)
OutEq(x, y) == /\ x[1] = y[1]
               /\ IF x[1] = "ok" THEN x[2].k = y[2].k /\ x[2] = y[2]
                  ELSE IF x[1] = "err" THEN x[2].c = y[2].c ELSE TRUE
Discriminates(s, t) == ~OutEq(Outcome(Tree(s, Lf(t, 1), Lf(t, 2), Lf(t, 3))), Outcome(Sibling(s, Lf(t, 1), Lf(t, 2), Lf(t, 3))))
\* prefer leaves under which the tree itself evaluates without error
Good(s, t) == Discriminates(s, t) /\ Outcome(Tree(s, Lf(t, 1), Lf(t, 2), Lf(t, 3)))[1] = "ok"
Case(n) ==
  LET s == Shape(n)
      hasGood == \E t \in Triples : Good(s, t)
      hasAny == \E t \in Triples : Discriminates(s, t)
      t == IF hasGood THEN CHOOSE t \in Triples : Good(s, t)
           ELSE IF hasAny THEN CHOOSE t \in Triples : Discriminates(s, t)
           ELSE <<2, 3, 4>>
      e == Tree(s, Lf(t, 1), Lf(t, 2), Lf(t, 3))
  IN [id |-> n, shape |-> s.shape, o1 |-> s.o1, o2 |-> s.o2, nontrivial |-> hasAny,
      e |-> e, min |-> RenderMin(e, 0), full |-> RenderFull(e)]

VARIABLE pc
Init == pc = <<"root", 0>>
Next == \/ /\ pc[1] = "root" /\ \E c \in 0..(NChunks - 1) : pc' = <<"chunk", c>>
        \/ /\ pc[1] = "chunk"
           /\ LET ns == SetToSortSeq({n \in 0..(NShapes - 1) : n % NChunks = pc[2]}, <)
                  cs == [x \in 1..Len(ns) |-> Case(ns[x])]
              IN ndJsonSerialize(IOEnv.OUTDIR \o "/g" \o ToString(pc[2]) \o ".ndjson", cs)
           /\ pc' = <<"done", pc[2]>>
Spec == Init /\ [][Next]_pc
=============================================================================
