------------------------------ MODULE ReplTrace ------------------------------
(***************************************************************************)
(* Trace validation for C23: one record = one REPL session of the real     *)
(* binary (scripted line source): the lines entered (statements, or a text *)
(* the parser must reject) with, for each, the outcome class observed      *)
(* (parse / compile diagnostics, runtime error, or none) and the contents  *)
(* of the observation array OBS read back after the line.  The session is  *)
(* accepted iff every line's class and the observations after it are those *)
(* of Repl.RunLine from the state built by the lines before it, and what   *)
(* the line printed is what the same line prints at the end of a script    *)
(* made of the lines accepted before it (both texts are recorded).         *)
(***************************************************************************)
EXTENDS Repl, Json, IOUtils

CONSTANT NChunks
\* parsed once at start-up into a TLC register (TLC re-evaluates a definition that reads a file on every reference)
ASSUME TLCSet(7, ndJsonDeserialize(IOEnv.TRACE))
Recs == TLCGet(7)

RECURSIVE SameObs(_, _)
SameObs(v, j) ==   \* specification value v (reified) against observed value j (integers and arrays of them)
  CASE v.k = "none" -> j.k = "none"
    [] v.k = "arr" -> j.k = "arr" /\ Len(v.v) = Len(j.v) /\ \A i \in 1..Len(v.v) : SameObs(v.v[i], j.v[i])
    [] v.k = "int" -> j.k = "int" /\ j.v = v.v
    [] OTHER -> TRUE

Verdict(rec) ==
  LET f(acc, i) ==
        IF ~acc.ok \/ acc.free THEN acc
        ELSE LET l == rec.lines[i]
                 r == RunLine(acc.ts, l.line)
             IN IF r.class = "unspec" THEN [acc EXCEPT !.free = TRUE]
                ELSE IF r.class # l.class THEN [acc EXCEPT !.ok = FALSE, !.at = i, !.why = "class", !.want = r.class]
                ELSE IF ~SameObs(ObsOf(r.ts), l.obs) THEN [acc EXCEPT !.ok = FALSE, !.at = i, !.why = "state", !.want = r.class]
                \* what the line printed is what it prints as the last line of a script of the lines accepted so far
                \* (l.script = <<-1>>: not compared)
                ELSE IF l.script # <<-1>> /\ l.echo # l.script THEN [acc EXCEPT !.ok = FALSE, !.at = i, !.why = "output", !.want = r.class]
                ELSE [acc EXCEPT !.ts = r.ts]
      r == FoldLeft(f, [ok |-> TRUE, free |-> FALSE, at |-> 0, why |-> "", want |-> "", ts |-> TopState0], [i \in 1..Len(rec.lines) |-> i])
  IN [id |-> rec.id, v |-> IF r.ok THEN "ok" ELSE "bad", at |-> r.at, why |-> r.why, want |-> r.want]

VARIABLE pc
Init == pc = <<"root", 0>>
Next == \/ /\ pc[1] = "root" /\ \E c \in 0..(NChunks - 1) : pc' = <<"chunk", c>>
        \/ /\ pc[1] = "chunk"
           /\ LET idxs == SetToSortSeq({i \in 1..Len(Recs) : i % NChunks = pc[2]}, <)
                  vs == [n \in 1..Len(idxs) |-> Verdict(Recs[idxs[n]])]
              IN ndJsonSerialize(IOEnv.OUTDIR \o "/v" \o ToString(pc[2]) \o ".ndjson", vs)
           /\ pc' = <<"done", pc[2]>>
Spec == Init /\ [][Next]_pc
=============================================================================
