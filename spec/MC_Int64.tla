----------------------------- MODULE MC_Int64 -----------------------------
(* Law configuration for Int64: a one-step machine picks an operand pair  *)
(* from the boundary set; the invariant states the laws.  (Never ASSUME:  *)
(* heavy evaluation must run on a worker thread.)                         *)
EXTENDS Int64, FiniteSets

Small == {-70000, -65536, -257, -256, -255, -129, -128, -127, -3, -2, -1, 0, 1, 2, 3, 7, 10, 63, 64, 65,
          127, 128, 255, 256, 257, 1000, 4095, 4096, 32767, 65535, 65536, 70000, 1000000, 8388607, -8388608}
Big == {MinInt, MaxInt, Sub(MaxInt, One), Add(MinInt, One), <<0,0,0,0,1,0,0,0>>, <<255,255,255,255,0,0,0,0>>,
        <<0,0,0,128,0,0,0,0>>, <<1,2,3,4,5,6,7,8>>, <<200,1,200,1,200,1,200,201>>, <<0,0,0,0,0,0,0,64>>}
Dom == {FromInt(n) : n \in Small} \cup Big

VARIABLES a, b, phase
vars == <<a, b, phase>>
Init == a = Zero /\ b = Zero /\ phase = "pick"
Next == /\ phase = "pick" /\ a' \in Dom /\ b' \in Dom /\ phase' = "check"
Spec == Init /\ [][Next]_vars

InRange(n) == n > -1000000000 /\ n < 1000000000
\* agreement with TLC's native arithmetic where both are defined
Native ==
  (IsSmall(a) /\ IsSmall(b)) =>
    LET x == ToInt(a)  y == ToInt(b) IN
    /\ Add(a, b) = FromInt(x + y)
    /\ Sub(a, b) = FromInt(x - y)
    /\ (x > -32768 /\ x < 32768 /\ y > -32768 /\ y < 32768) => Mul(a, b) = FromInt(x * y)
    /\ SCmp(a, b) = (IF x < y THEN -1 ELSE IF x > y THEN 1 ELSE 0)
    /\ (y # 0) => LET ax == IF x < 0 THEN -x ELSE x  ay == IF y < 0 THEN -y ELSE y
                      q == ax \div ay  r == ax % ay
                  IN /\ UDivMod(Abs(a), Abs(b)).q = FromInt(q)
                     /\ UDivMod(Abs(a), Abs(b)).r = FromInt(r)
Laws ==
  /\ IsWord(Add(a, b)) /\ IsWord(Mul(a, b)) /\ IsWord(Neg(a))
  /\ Add(a, Neg(a)) = Zero
  /\ Add(a, b) = Add(b, a) /\ Mul(a, b) = Mul(b, a)
  /\ Sub(Add(a, b), b) = a
  /\ Mul(a, One) = a /\ Mul(a, Zero) = Zero /\ Mul(a, AllOnes) = Neg(a)
  /\ (b # Zero) => Add(Mul(SDiv(a, b), b), SRem(a, b)) = a
  /\ (b # Zero) => (SRem(a, b) = Zero \/ IsNeg(SRem(a, b)) = IsNeg(a))
  /\ (b # Zero) => UCmp(Abs(SRem(a, b)), Abs(b)) < 0
  /\ SDiv(MinInt, AllOnes) = MinInt /\ SRem(MinInt, AllOnes) = Zero
  /\ Shl(a, b) = ShlN(a, b[1] % 64)
  /\ ShlN(a, 1) = Add(a, a)
  /\ ShrN(ShlN(a, 8), 8) = (IF a[7] >= 128 THEN [a EXCEPT ![8] = 255] ELSE [a EXCEPT ![8] = 0])
  /\ BXor(a, AllOnes) = BNot(a) /\ BAnd(a, b) = BNot(BOr(BNot(a), BNot(b)))
  /\ (SCmp(a, b) < 0) = (SCmp(b, a) > 0)
  /\ (SCmp(a, b) = 0) = (a = b)
  /\ Lt(a, b) = IsNeg(Sub(a, b)) \/ (IsNeg(a) # IsNeg(b))   \* overflow cases excluded by second disjunct
Inv == phase = "check" => (Native /\ Laws)
=============================================================================
