SPECIFICATION Spec
CONSTANT MaxLen = 4
INVARIANTS IndexInBoundsAndProgress Bounded LineOK
CHECK_DEADLOCK FALSE
