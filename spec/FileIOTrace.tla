----------------------------- MODULE FileIOTrace -----------------------------
(***************************************************************************)
(* Trace validation for C21.                                               *)
(*  kind "read":  one handle on a content (file, or stdin fed through a    *)
(*    pipe in some chunk schedule): the calls read(f, n) / read(f) /       *)
(*    read_line(f) / read_to_string(f) with the bytes each returned; every *)
(*    result must be the answer FileIO.tla gives for the current cursor    *)
(*    (so the results concatenate to a prefix of the content, each byte    *)
(*    once, in order, short only at the end) whatever the schedule was.    *)
(*  kind "modes": a program opened a path with a mode, wrote byte strings  *)
(*    (flushing or not) and ended; the file must then hold                 *)
(*    AfterExit(mode, existed, before, writes), and the open must have     *)
(*    failed exactly when OpenFails says so.                               *)
(***************************************************************************)
EXTENDS FileIOFn, Json, IOUtils

CONSTANT NChunks
\* parsed once at start-up into a TLC register (TLC re-evaluates a definition that reads a file on every reference)
ASSUME TLCSet(7, ndJsonDeserialize(IOEnv.TRACE))
Recs == TLCGet(7)

ReadVerdict(rec) ==
  LET c == rec.content
      f(acc, i) ==
        IF acc.cursor < 0 THEN acc
        ELSE LET call == rec.calls[i]
                 want == CASE call.op = "read" -> RRes(c, acc.cursor, call.n)
                           [] call.op \in {"readall", "tostring"} -> ARes(c, acc.cursor)
                           [] call.op = "line" -> LRes(c, acc.cursor)
                 text == call.op \in {"line", "tostring"}
             IN \* text that is not text: only an error object does not misreport the content; where the handle
                \* stands afterwards is not settled (-2: accepted, the calls after it are not judged)
                IF text /\ ~WellFormedUtf8(want) THEN [cursor |-> IF call.res.k = "err" THEN -2 ELSE -1, at |-> i]
                ELSE IF call.res.k = "bytes" /\ call.res.v = want THEN [cursor |-> acc.cursor + Len(want), at |-> i]
                ELSE [cursor |-> -1, at |-> i]
      r == FoldLeft(f, [cursor |-> 0, at |-> 0], [i \in 1..Len(rec.calls) |-> i])
  IN [id |-> rec.id, v |-> IF r.cursor = -1 THEN "bad" ELSE "ok", at |-> r.at]
ModesVerdict(rec) ==
  LET fails == OpenFails(rec.mode, rec.existed)
      good == /\ (rec.opened = "err") = fails
              /\ rec.after = AfterExit(rec.mode, rec.existed, rec.before, rec.writes)
              /\ rec.exists_after = (rec.existed \/ (~fails /\ rec.mode # "r"))
              \* "once flushed": what a second handle reads right after flush(f) is everything written so far
              \* (rec.mid = <<-1>> when the program did not look)
              /\ (rec.mid = <<-1>> \/ rec.mid = AfterExit(rec.mode, rec.existed, rec.before, rec.writes))
  IN [id |-> rec.id, v |-> IF good THEN "ok" ELSE "bad", at |-> 0]
Verdict(rec) == IF rec.kind = "read" THEN ReadVerdict(rec) ELSE ModesVerdict(rec)

VARIABLE pc
Init == pc = <<"root", 0>>
Next == \/ /\ pc[1] = "root" /\ \E c \in 0..(NChunks - 1) : pc' = <<"chunk", c>>
        \/ /\ pc[1] = "chunk"
           /\ LET idxs == SetToSortSeq({i \in 1..Len(Recs) : i % NChunks = pc[2]}, <)
                  vs == [n \in 1..Len(idxs) |-> Verdict(Recs[idxs[n]])]
              IN ndJsonSerialize(IOEnv.OUTDIR \o "/v" \o ToString(pc[2]) \o ".ndjson", vs)
           /\ pc' = <<"done", pc[2]>>
Spec == Init /\ [][Next]_pc
=============================================================================
