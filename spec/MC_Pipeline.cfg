SPECIFICATION Spec

INVARIANTS TypeOK DiagnosedNotExecuted TerminalsAsStated
PROPERTY Terminates
