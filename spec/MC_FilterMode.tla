---------------------------- MODULE MC_FilterMode ----------------------------
(* Model checking of FilterMode: the configuration (program from a library,    *)
(* 0..3 packets, -s or not) is chosen nondeterministically at the start; the    *)
(* machine then takes Step after Step.                                          *)
EXTENDS FilterMode
Pat(t) == [t |-> t]
Cm(v, op, k) == [t |-> "cmp", v |-> v, op |-> op, k |-> k]
Act(t) == [t |-> t]
F(p, a) == [pat |-> p, act |-> a]
Filters == << F(Pat("true"), Act("none")), F(Pat("false"), Act("none")), F([t |-> "npmod", m |-> 2, r |-> 0], Act("count")),
              F(Cm("cnt", "<", 1), Act("none")), F(Pat("none"), [t |-> "setttl", k |-> 9]), F([t |-> "ttl", op |-> "==", k |-> 9], Act("none")),
              F(Cm("PL", ">=", 34), Act("local")), F([t |-> "ethtype", k |-> 2048], Act("count")) >>
NonBools == {F([t |-> "npint", m |-> 2], Act("count")), F([t |-> "cntval"], Act("local")), F([t |-> "npint", m |-> 3], Act("none"))}
\* a minimal Ethernet / IPv4 frame of 34 bytes with ttl t
Frame(t) == <<2,0,0,0,0,1, 2,0,0,0,0,2, 8,0,  69,0,0,20, 0,1,0,0, t,6,0,0, 10,0,0,1, 10,0,0,2>>
Hdr(sec, n) == <<sec,0,0,0, 5,0,0,0, n,0,0,0, n,0,0,0>>
Pk(k) == [hdr |-> Hdr(k, 34), raw |-> Frame(60 + k)]
GHdr == <<212,195,178,161, 2,0,4,0, 0,0,0,0, 0,0,0,0, 255,255,0,0, 1,0,0,0>>
Progs == {[filters |-> fs, hasEnd |-> e] : fs \in {<<>>} \cup {<<Filters[a]>> : a \in 1..8} \cup {<<Filters[a], Filters[b]>> : a \in 1..8, b \in 1..8}
                                               \cup {<<Filters[5], Filters[a], Filters[6]>> : a \in 1..8}
                                               \cup {<<Filters[a], NB>> : a \in 1..8, NB \in NonBools} \cup {<<NB>> : NB \in NonBools}, e \in BOOLEAN}
Inputs == {<<>>, <<Pk(1)>>, <<Pk(1), Pk(2)>>, <<Pk(1), Pk(2), Pk(3)>>}
VARIABLES cfg, st
vars == <<cfg, st>>
Init == /\ cfg \in {[prog |-> p, in |-> i, inhdr |-> GHdr, skip |-> k] : p \in Progs, i \in Inputs, k \in BOOLEAN}
        /\ st = S0
Next == st.phase # "done" /\ st' = Step(cfg, st) /\ UNCHANGED cfg
Spec == Init /\ [][Next]_vars /\ WF_vars(Next)
Inv == /\ MainOnceFirst(st) /\ Ordered(st) /\ VarsMatchRecord(cfg, st) /\ EndOnceLast(cfg, st)
       /\ OutputShape(cfg, st) /\ WritesBounded(cfg, st)
\* the functional run and the machine agree
RunAgrees == st.phase = "done" => st = Run(cfg)
Terminates == <>(st.phase = "done")
=============================================================================
