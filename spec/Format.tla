------------------------------- MODULE Format -------------------------------
(***************************************************************************)
(* The format mini-language of format / print / println / eprint /         *)
(* eprintln (C12): a reference renderer.                                   *)
(*                                                                         *)
(*   format string = ( literal | "{{" | "}}" | specifier )*                 *)
(*   specifier     = "{" [index] [":"] [[fill] ("<" | ">")] [width]        *)
(*                       ["b" | "o" | "x" | "X"] "}"                        *)
(* index and width are decimal numbers; fill / alignment / width need the  *)
(* colon; fill is the one character in front of "<" or ">".                *)
(*                                                                         *)
(* Strings are sequences of code points.  An argument is [v |-> value,     *)
(* shown |-> its display text]; the display text of integers (decimal),    *)
(* strings (their characters) and booleans is defined here, for other      *)
(* kinds it is what the implementation's str() shows (taken from the run). *)
(*                                                                         *)
(* Render(f, args) = [how |-> "ok", text] | [how |-> "error"] (a specifier *)
(* without a matching argument) | [how |-> "unspec"] (malformed specifier, *)
(* radix on a negative or non-integer value, padded non-ASCII text).       *)
(***************************************************************************)
EXTENDS Builtins

LBrace == 123  RBrace == 125  ColonC == 58  LtC == 60  GtC == 62
At(f, p) == IF p >= 1 /\ p <= Len(f) THEN f[p] ELSE -1
RECURSIVE DigitsEnd(_, _)
DigitsEnd(f, p) == IF At(f, p) >= 48 /\ At(f, p) <= 57 THEN DigitsEnd(f, p + 1) ELSE p
RadixOf(c) == CASE c = 98 -> 2 [] c = 111 -> 8 [] c = 120 -> 16 [] c = 88 -> 17 [] OTHER -> 0     \* 17 = upper-case hex

\* the specifier whose "{" is at position i: [ok, idx (-1 none), fill (-1 default), just ("d", "<", ">"), width, radix, next]
ParseSpec(f, i) ==
  LET p1 == i + 1
      e1 == DigitsEnd(f, p1)
      hasidx == e1 > p1
      hascolon == At(f, e1) = ColonC
      p2 == IF hascolon THEN e1 + 1 ELSE e1
      withfill == hascolon /\ At(f, p2 + 1) \in {LtC, GtC} /\ At(f, p2) \notin {-1, LBrace, RBrace}
      nofill == hascolon /\ ~withfill /\ At(f, p2) \in {LtC, GtC}
      fill == IF withfill THEN At(f, p2) ELSE -1
      just == IF withfill THEN (IF At(f, p2 + 1) = LtC THEN "<" ELSE ">")
              ELSE IF nofill THEN (IF At(f, p2) = LtC THEN "<" ELSE ">") ELSE "d"
      p3 == IF withfill THEN p2 + 2 ELSE IF nofill THEN p2 + 1 ELSE p2
      e3 == IF hascolon THEN DigitsEnd(f, p3) ELSE p3
      haswidth == e3 > p3
      radix == RadixOf(At(f, e3))
      p4 == IF radix # 0 THEN e3 + 1 ELSE e3
      ok == /\ At(f, p4) = RBrace
            /\ e1 - p1 <= 6 /\ e3 - p3 <= 6            \* longer numbers: not settled here
  IN [ok |-> ok, idx |-> IF hasidx /\ ok THEN DigitsNat(SubSeq(f, p1, e1 - 1)) ELSE -1, fill |-> fill, just |-> just,
      width |-> IF haswidth /\ ok THEN DigitsNat(SubSeq(f, p3, e3 - 1)) ELSE 0, radix |-> radix, next |-> p4 + 1]

\* ------------------------------ values -----------------------------------------
\* bits (most significant first, no leading zeros, at least one) of a non-negative word
BitsOf(a) ==
  LET all == FoldLeft(LAMBDA acc, li : acc \o <<(a[li] \div 128) % 2, (a[li] \div 64) % 2, (a[li] \div 32) % 2, (a[li] \div 16) % 2,
                                              (a[li] \div 8) % 2, (a[li] \div 4) % 2, (a[li] \div 2) % 2, a[li] % 2>>,
                      <<>>, <<8, 7, 6, 5, 4, 3, 2, 1>>)
      first == FoldLeft(LAMBDA acc, i : IF acc = 0 /\ all[i] = 1 THEN i ELSE acc, 0, [i \in 1..64 |-> i])
  IN IF first = 0 THEN <<0>> ELSE SubSeq(all, first, 64)
\* digits of base 2^g from the bits
GroupDigits(bits, g) ==
  LET n == Len(bits)
      nd == (n + g - 1) \div g
      digit(k) == \* k-th digit from the left
        LET hi == n - (nd - k + 1) * g + 1      \* first bit position (may be < 1)
        IN FoldLeft(LAMBDA acc, j : acc * 2 + (IF hi + j >= 1 THEN bits[hi + j] ELSE 0), 0, [j \in 1..g |-> j - 1])
  IN [k \in 1..nd |-> digit(k)]
DigitCp(d, upper) == IF d < 10 THEN 48 + d ELSE IF upper THEN 55 + d ELSE 87 + d
RadixText(a, radix) ==
  LET g == CASE radix = 2 -> 1 [] radix = 8 -> 3 [] OTHER -> 4
      ds == GroupDigits(BitsOf(a), g)
  IN [k \in 1..Len(ds) |-> DigitCp(ds[k], radix = 17)]

Shown(arg) == CASE arg.v.k = "int" -> ToDecimal(arg.v.v)
                [] arg.v.k = "str" -> arg.v.v
                [] arg.v.k = "bool" -> (IF arg.v.v THEN <<116, 114, 117, 101>> ELSE <<102, 97, 108, 115, 101>>)
                [] OTHER -> arg.shown
PadOf(c, n) == [i \in 1..n |-> c]
\* one specifier applied to one argument: [ok, v]
RenderArg(s, arg) ==
  LET isint == arg.v.k = "int"
      radixbad == s.radix # 0 /\ (~isint \/ IsNeg(arg.v.v))
      base == IF s.radix # 0 /\ ~radixbad THEN RadixText(arg.v.v, s.radix) ELSE Shown(arg)
      padn == IF s.width > Len(base) THEN s.width - Len(base) ELSE 0
      pad == PadOf(IF s.fill = -1 THEN 32 ELSE s.fill, padn)
      left == s.just = "<" \/ (s.just = "d" /\ ~isint)        \* text first, padding after it
      nonascii == \E i \in 1..Len(base) : base[i] > 127
      \* str() and format display characters and bytes differently ('q' / q, 0xff / 255): their text is not settled
      nodisplay == s.radix = 0 /\ arg.v.k \in {"char", "byte"}
  IN IF radixbad \/ nodisplay \/ (padn > 0 /\ nonascii) THEN [ok |-> FALSE, v |-> <<>>]
     ELSE [ok |-> TRUE, v |-> IF left THEN base \o pad ELSE pad \o base]

\* ------------------------------ the renderer -------------------------------------
OkR(t) == [how |-> "ok", text |-> t]
ErrR == [how |-> "error", text |-> <<>>]
UnR == [how |-> "unspec", text |-> <<>>]
RECURSIVE Go(_, _, _, _, _)
Go(f, args, i, na, out) ==
  IF i > Len(f) THEN OkR(out)
  ELSE IF f[i] = LBrace THEN
         (IF At(f, i + 1) = LBrace THEN Go(f, args, i + 2, na, Append(out, LBrace))
          ELSE LET s == ParseSpec(f, i)
                   ai == IF s.idx = -1 THEN na ELSE s.idx + 1
               IN IF ~s.ok THEN UnR
                  ELSE IF ai > Len(args) THEN ErrR
                  ELSE LET piece == RenderArg(s, args[ai])
                       IN IF ~piece.ok THEN UnR
                          ELSE Go(f, args, s.next, IF s.idx = -1 THEN na + 1 ELSE na, out \o piece.v))
  ELSE IF f[i] = RBrace THEN
         (IF At(f, i + 1) = RBrace THEN Go(f, args, i + 2, na, Append(out, RBrace)) ELSE UnR)
  ELSE Go(f, args, i + 1, na, Append(out, f[i]))
Render(f, args) == Go(f, args, 1, 1, <<>>)

\* print family: what is written (stream, bytes as code points) and returned
PrintStream(name) == IF name \in {"print", "println"} THEN "out" ELSE "err"
PrintText(name, r) == IF name \in {"println", "eprintln"} THEN r.text \o <<10>> ELSE r.text
=============================================================================
