------------------------------ MODULE Builtins ------------------------------
(* Contracts of the pure builtins (property C11), from docs/language/        *)
(* builtins.md.  CallBuiltin(name, args, st) = [x, st] where x is a value,   *)
(* Err("builtin:<name>") (wrong arity or argument kind: a runtime error      *)
(* naming the builtin) or Unspec (the documentation does not settle it).     *)
(* AnyV == a value the documentation does not pin down (matches anything).    *)
EXTENDS Store

AnyV == [k |-> "any"]
EObj == [k |-> "eobj"]

BuiltinNames == {"len", "puts", "first", "last", "rest", "push", "pop", "get", "contains", "insert",
                 "str", "int", "float", "char", "byte", "time", "exit", "flush", "format", "print",
                 "println", "eprint", "eprintln", "round", "sleep", "tolower", "toupper", "open",
                 "read", "write", "read_to_string", "decode_utf8", "encode_utf8", "read_line",
                 "input", "get_errno", "strerror", "is_error", "sort", "chars", "join", "rand",
                 "pcap_open", "pcap_stream", "pcap_read_next", "pcap_read_all", "pcap_write"}

Utf8Width(cp) == IF cp < 128 THEN 1 ELSE IF cp < 2048 THEN 2 ELSE IF cp < 65536 THEN 3 ELSE 4
Utf8Len(cps) == FoldLeft(LAMBDA acc, cp : acc + Utf8Width(cp), 0, cps)


\* ------------------------------ text helpers --------------------------------
IsDigit(c) == c >= 48 /\ c <= 57
AllDigits(cs) == Len(cs) > 0 /\ \A i \in 1..Len(cs) : IsDigit(cs[i])
\* value of a digit string (at most 18 digits) as an Int64 word
DigitsWord(cs) == FoldLeft(LAMBDA acc, c : Add(Mul(acc, Ten), FromNat(c - 48)), Zero, cs)
\* int("..."): optional sign and 1..18 digits -> that integer; anything else is not pinned down
ParseInt(cs) ==
  LET neg == Len(cs) > 0 /\ cs[1] = 45
      ds == IF neg THEN Tail(cs) ELSE cs
  IN IF AllDigits(ds) /\ Len(ds) <= 18 THEN (IF neg THEN I(Neg(DigitsWord(ds))) ELSE I(DigitsWord(ds))) ELSE AnyV
\* small natural number of a digit string (at most 6 digits)
DigitsNat(cs) == FoldLeft(LAMBDA acc, c : acc * 10 + (c - 48), 0, cs)
Pow10(k) == CASE k = 0 -> 1 [] k = 1 -> 10 [] k = 2 -> 100 [] k = 3 -> 1000 [] k = 4 -> 10000 [] k = 5 -> 100000 [] OTHER -> 1000000
IndexOf(cs, c) == FoldLeft(LAMBDA acc, i : IF acc = 0 /\ cs[i] = c THEN i ELSE acc, 0, [i \in 1..Len(cs) |-> i])
\* float("..."): [-]digits[.digits] whose value is a small dyadic -> that float; "NaN", "inf", "-inf";
\* anything else is not pinned down
ParseFloat(cs) ==
  LET neg == Len(cs) > 0 /\ cs[1] = 45
      body == IF neg THEN Tail(cs) ELSE cs
      dot == IndexOf(body, 46)
      ip == IF dot = 0 THEN body ELSE SubSeq(body, 1, dot - 1)
      fp == IF dot = 0 THEN <<>> ELSE SubSeq(body, dot + 1, Len(body))
  IN CASE cs = <<78, 97, 78>> -> NaN
       [] cs = <<105, 110, 102>> -> PInf
       [] cs = <<45, 105, 110, 102>> -> NInf
       [] AllDigits(ip) /\ Len(ip) <= 4 /\ (fp = <<>> \/ (AllDigits(fp) /\ Len(fp) <= 5)) /\ (dot = 0 \/ fp # <<>>) ->
            LET k == Len(fp)
                num == DigitsNat(fp) * 256
            IN IF (num % Pow10(k)) # 0 THEN AnyV
               ELSE LET m == DigitsNat(ip) * 256 + num \div Pow10(k)
                    IN IF m = 0 THEN (IF neg THEN NZero ELSE PZero) ELSE Dy(IF neg THEN -m ELSE m, 8)
       [] OTHER -> AnyV
\* int(float): truncation toward zero on the modelled floats
FloatToInt(x) ==
  IF x.c = "dy" THEN IntV(IF x.m < 0 THEN -((-x.m) \div P2(x.e)) ELSE x.m \div P2(x.e))
  ELSE IF x.c = "nzero" THEN IntV(0) ELSE AnyV
\* round(x, 0): nearest integer, ties not pinned down
RoundHalfAway(x) ==
  IF x.c # "dy" THEN (IF x.c = "oom" THEN OOM ELSE x)
  ELSE IF x.e = 0 THEN x
  ELSE LET a == AbsI(x.m)  q == a \div P2(x.e)  r == a % P2(x.e)
       IN IF 2 * r = P2(x.e) THEN AnyV
          ELSE LET v == IF 2 * r > P2(x.e) THEN q + 1 ELSE q
               IN IF v = 0 THEN (IF x.m < 0 THEN NZero ELSE PZero) ELSE F("dy", IF x.m < 0 THEN -v ELSE v, 0)
IsScalar(cp) == cp <= 1114111 /\ ~(cp >= 55296 /\ cp <= 57343)
CaseCp(name, c) == IF name = "tolower" THEN (IF c >= 65 /\ c <= 90 THEN c + 32 ELSE c)
                   ELSE (IF c >= 97 /\ c <= 122 THEN c - 32 ELSE c)

\* ------------------------------ UTF-8 -----------------------------------------
Utf8EncodeCp(cp) ==
  IF cp < 128 THEN <<cp >>
  ELSE IF cp < 2048 THEN <<192 + cp \div 64, 128 + (cp % 64) >>
  ELSE IF cp < 65536 THEN <<224 + cp \div 4096, 128 + ((cp \div 64) % 64), 128 + (cp % 64) >>
  ELSE <<240 + cp \div 262144, 128 + ((cp \div 4096) % 64), 128 + ((cp \div 64) % 64), 128 + (cp % 64) >>
Utf8Encode(cps) == FoldLeft(LAMBDA acc, cp : acc \o Utf8EncodeCp(cp), <<>>, cps)
\* well-formed UTF-8 only: no overlong forms, no surrogates, nothing above U+10FFFF
Utf8Decode(bs) ==
  LET step(acc, b) ==
        IF ~acc.ok THEN acc
        ELSE IF acc.need = 0 THEN
          (CASE b < 128 -> [acc EXCEPT !.out = Append(acc.out, b)]
             [] b >= 194 /\ b <= 223 -> [acc EXCEPT !.need = 1, !.cp = b - 192, !.min = 128]
             [] b >= 224 /\ b <= 239 -> [acc EXCEPT !.need = 2, !.cp = b - 224, !.min = 2048]
             [] b >= 240 /\ b <= 244 -> [acc EXCEPT !.need = 3, !.cp = b - 240, !.min = 65536]
             [] OTHER -> [acc EXCEPT !.ok = FALSE])
        ELSE IF b < 128 \/ b > 191 THEN [acc EXCEPT !.ok = FALSE]
        ELSE LET cp == acc.cp * 64 + (b - 128)
             IN IF acc.need > 1 THEN [acc EXCEPT !.need = acc.need - 1, !.cp = cp]
                ELSE IF cp < acc.min \/ ~IsScalar(cp) THEN [acc EXCEPT !.ok = FALSE]
                ELSE [acc EXCEPT !.need = 0, !.cp = 0, !.out = Append(acc.out, cp)]
      r == FoldLeft(step, [ok |-> TRUE, out |-> <<>>, need |-> 0, cp |-> 0, min |-> 0], bs)
  IN [ok |-> r.ok /\ r.need = 0, out |-> r.out]

\* sort is specified for arrays of mutually comparable values
Sortable(es) ==
  \/ es = <<>>
  \/ \A i \in 1..Len(es) : \A j \in 1..Len(es) :
        LET c == BinOp("<", es[i], es[j]) IN c.k = "bool" /\ (i # j => (c.v \/ BinOp("<", es[j], es[i]).v \/ ValEq(<<>>, es[i], es[j]) = "t"))

BR(x, st) == [x |-> x, st |-> st]
BErr(name) == Err("builtin:" \o name)

CallBuiltin(name, args, st) ==
  LET n == Len(args)
      a1 == args[1]  a2 == args[2]  a3 == args[3]
      bad == BR(BErr(name), st)
  IN
  CASE \E i \in 1..n : Vague(args[i]) /\ ~(name = "push" /\ i = 2) /\ ~(name = "insert" /\ i = 3) ->
         BR(Unspec, st)    \* an argument the documentation does not pin down (stored values excepted)
    [] name = "len" ->
         IF n # 1 THEN bad
         ELSE CASE a1.k = "str" -> BR(IntV(Utf8Len(a1.v)), st)
                [] a1.k \in {"arr", "map"} -> BR(IntV(Len(Elems(st, a1))), st)
                [] OTHER -> bad
    [] name = "first" ->
         IF n # 1 \/ a1.k # "arr" THEN bad
         ELSE BR(IF Elems(st, a1) = <<>> THEN Null ELSE Elems(st, a1)[1], st)
    [] name = "last" ->
         IF n # 1 \/ a1.k # "arr" THEN bad
         ELSE BR(IF Elems(st, a1) = <<>> THEN Null ELSE Elems(st, a1)[Len(Elems(st, a1))], st)
    [] name = "rest" ->
         IF n # 1 \/ a1.k # "arr" THEN bad
         ELSE IF Elems(st, a1) = <<>> THEN BR(Null, st)
         ELSE BR(ArrRef(NewId(st)), Alloc(st, [t |-> "arr", v |-> Tail(Elems(st, a1))]))
    [] name = "push" ->
         IF n # 2 \/ a1.k # "arr" THEN bad
         ELSE BR(AnyV, SetObj(st, a1.id, Append(Elems(st, a1), a2)))
    [] name = "pop" ->
         IF n # 1 \/ a1.k # "arr" THEN bad
         ELSE IF Elems(st, a1) = <<>> THEN BR(AnyV, st)
         ELSE BR(Elems(st, a1)[Len(Elems(st, a1))], SetObj(st, a1.id, Front(Elems(st, a1))))
    [] name = "get" ->
         IF n # 2 THEN bad
         ELSE CASE a1.k = "arr" ->
                     IF a2.k # "int" THEN bad
                     ELSE IF IsNeg(a2.v) \/ ~IsSmall(a2.v) \/ ToInt(a2.v) >= Len(Elems(st, a1)) THEN BR(Null, st)
                     ELSE BR(Elems(st, a1)[ToInt(a2.v) + 1], st)
                [] a1.k = "map" ->
                     IF AssocUnsettled(st.heap, Elems(st, a1), a2) THEN BR(Unspec, st)
                     ELSE LET o == AssocFind(st.heap, Elems(st, a1), a2)
                          IN BR(IF o.k = "NOTFOUND" THEN Null ELSE o, st)
                [] OTHER -> bad
    [] name = "contains" ->
         IF n # 2 \/ a1.k # "map" THEN bad
         ELSE IF AssocUnsettled(st.heap, Elems(st, a1), a2) THEN BR(Unspec, st)
         ELSE BR(B(AssocFind(st.heap, Elems(st, a1), a2).k # "NOTFOUND"), st)
    [] name = "insert" ->
         IF n # 3 \/ a1.k # "map" THEN bad
         ELSE IF ~IsValidKey(a2) \/ AssocUnsettled(st.heap, Elems(st, a1), a2) THEN BR(Unspec, st)
         ELSE LET o == AssocFind(st.heap, Elems(st, a1), a2)
              IN BR(IF o.k = "NOTFOUND" THEN Null ELSE o,
                    SetObj(st, a1.id, AssocPut(st.heap, Elems(st, a1), a2, a3)))
    [] name = "is_error" -> IF n # 1 THEN bad ELSE BR(B(a1.k = "eobj"), st)
    [] name = "str" ->
         IF n # 1 THEN bad
         ELSE CASE a1.k = "str" -> BR(a1, st)
                [] a1.k = "int" -> BR(S(ToDecimal(a1.v)), st)
                [] a1.k \in {"null", "float", "char", "byte", "bool", "arr", "map"} -> BR([k |-> "anystr"], st)
                [] OTHER -> bad
    [] name = "int" ->
         IF n # 1 THEN bad
         ELSE CASE a1.k = "int" -> BR(a1, st)
                [] a1.k = "str" -> BR(ParseInt(a1.v), st)
                [] a1.k = "float" -> BR(FloatToInt(a1), st)
                [] a1.k = "char" -> BR(IntV(a1.v), st)
                [] a1.k = "byte" -> BR(IntV(a1.v), st)
                [] a1.k = "bool" -> BR(IntV(IF a1.v THEN 1 ELSE 0), st)
                [] OTHER -> bad
    [] name = "float" ->
         IF n # 1 THEN bad
         ELSE CASE a1.k = "float" -> BR(a1, st)
                [] a1.k = "str" -> BR(ParseFloat(a1.v), st)
                [] a1.k = "int" -> BR(IntToF(a1.v), st)
                [] a1.k = "char" -> BR(IF a1.v <= MMAX THEN F("dy", a1.v, 0) ELSE OOM, st)
                [] a1.k = "byte" -> BR(F("dy", a1.v, 0), st)
                [] a1.k = "bool" -> BR(F("dy", IF a1.v THEN 1 ELSE 0, 0), st)
                [] OTHER -> bad
    [] name = "char" ->
         IF n # 1 THEN bad
         ELSE CASE a1.k = "char" -> BR(a1, st)
                [] a1.k = "byte" -> BR(Ch(a1.v), st)
                [] a1.k = "int" -> BR(IF IsSmall(a1.v) /\ ToInt(a1.v) >= 0 /\ IsScalar(ToInt(a1.v)) THEN Ch(ToInt(a1.v)) ELSE AnyV, st)
                [] a1.k \in {"float", "str", "bool"} -> BR(AnyV, st)     \* documented kinds, result not pinned down
                [] OTHER -> bad
    [] name = "byte" ->
         IF n # 1 THEN bad
         ELSE CASE a1.k = "byte" -> BR(a1, st)
                [] a1.k = "char" -> BR(IF a1.v < 256 THEN By(a1.v) ELSE AnyV, st)
                [] a1.k = "bool" -> BR(By(IF a1.v THEN 1 ELSE 0), st)
                [] a1.k = "int" -> BR(IF IsSmall(a1.v) /\ ToInt(a1.v) >= 0 /\ ToInt(a1.v) < 256 THEN By(ToInt(a1.v)) ELSE AnyV, st)
                [] a1.k \in {"float", "str"} -> BR(AnyV, st)
                [] OTHER -> bad
    [] name \in {"tolower", "toupper"} ->
         IF n # 1 THEN bad
         ELSE CASE a1.k = "char" -> BR(IF a1.v < 128 THEN Ch(CaseCp(name, a1.v)) ELSE AnyV, st)
                [] a1.k = "byte" -> BR(IF a1.v < 128 THEN By(CaseCp(name, a1.v)) ELSE AnyV, st)
                [] a1.k = "str" -> BR(IF \A i \in 1..Len(a1.v) : a1.v[i] < 128
                                       THEN S(FoldLeft(LAMBDA acc, c : Append(acc, CaseCp(name, c)), <<>>, a1.v))
                                       ELSE [k |-> "anystr"], st)
                [] OTHER -> bad
    [] name = "chars" ->
         IF n # 1 \/ a1.k # "str" THEN bad
         ELSE BR(ArrRef(NewId(st)), Alloc(st, [t |-> "arr", v |-> FoldLeft(LAMBDA acc, c : Append(acc, Ch(c)), <<>>, a1.v)]))
    [] name = "join" ->
         IF n \notin {1, 2} \/ a1.k # "arr" THEN bad
         ELSE IF n = 2 /\ a2.k \notin {"str", "char"} THEN bad
         ELSE IF \E i \in 1..Len(Elems(st, a1)) : Elems(st, a1)[i].k # "char" THEN bad
         ELSE LET sep == IF n = 1 THEN <<>> ELSE IF a2.k = "str" THEN a2.v ELSE <<a2.v>>
                  es == Elems(st, a1)
                  f(acc, i) == IF i = 1 THEN <<es[i].v>> ELSE acc \o sep \o <<es[i].v>>
              IN BR(S(FoldLeft(f, <<>>, [i \in 1..Len(es) |-> i])), st)
    [] name = "encode_utf8" ->
         IF n # 1 \/ a1.k # "str" THEN bad
         ELSE BR(ArrRef(NewId(st)),
                 Alloc(st, [t |-> "arr", v |-> FoldLeft(LAMBDA acc, b : Append(acc, By(b)), <<>>, Utf8Encode(a1.v))]))
    [] name = "decode_utf8" ->
         IF n # 1 \/ a1.k # "arr" THEN bad
         ELSE IF \E i \in 1..Len(Elems(st, a1)) : Elems(st, a1)[i].k # "byte" THEN bad
         ELSE LET d == Utf8Decode(FoldLeft(LAMBDA acc, b : Append(acc, b.v), <<>>, Elems(st, a1)))
              IN BR(IF d.ok THEN S(d.out) ELSE EObj, st)
    [] name = "sort" ->
         IF n # 1 \/ a1.k # "arr" THEN bad
         ELSE IF ~Sortable(Elems(st, a1)) THEN BR(Unspec, st)
         ELSE BR(AnyV, SetObj(st, a1.id, SortSeq(Elems(st, a1), LAMBDA x, y : BinOp("<", x, y).v)))
    [] name = "round" ->
         \* round(x, n): x to n decimal places.  Decided here: non-finite values are left alone; a value
         \* with at most n binary places has at most n decimal places, so it is its own rounding (for every
         \* precision the builtin accepts, however large x * 10^n gets); n = 0 rounds half away from zero.
         IF n # 2 \/ a1.k # "float" \/ a2.k # "int" THEN bad
         ELSE IF ~IsSmall(a2.v) \/ ToInt(a2.v) < 0 \/ ToInt(a2.v) > 18 THEN BR(Unspec, st)
         ELSE IF a1.c \in {"nan", "pinf", "ninf"} THEN BR(a1, st)
         ELSE IF a1.c # "dy" THEN BR(Unspec, st)
         ELSE IF a1.e <= ToInt(a2.v) THEN BR(a1, st)
         ELSE IF a2.v = Zero THEN BR(RoundHalfAway(a1), st)
         ELSE BR(Unspec, st)
    [] OTHER -> BR(Unspec, st)
=============================================================================
