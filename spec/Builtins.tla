------------------------------ MODULE Builtins ------------------------------
(* Contracts of the pure builtins (property C11), from docs/language/        *)
(* builtins.md.  CallBuiltin(name, args, st) = [x, st] where x is a value,   *)
(* Err("builtin:<name>") (wrong arity or argument kind: a runtime error      *)
(* naming the builtin) or Unspec (the documentation does not settle it).     *)
(* AnyV == a value the documentation does not pin down (matches anything).    *)
EXTENDS Store

AnyV == [k |-> "any"]
EObj == [k |-> "eobj"]

BuiltinNames == {"len", "puts", "first", "last", "rest", "push", "pop", "get", "contains", "insert",
                 "str", "int", "float", "char", "byte", "time", "exit", "flush", "format", "print",
                 "println", "eprint", "eprintln", "round", "sleep", "tolower", "toupper", "open",
                 "read", "write", "read_to_string", "decode_utf8", "encode_utf8", "read_line",
                 "input", "get_errno", "strerror", "is_error", "sort", "chars", "join", "rand",
                 "pcap_open", "pcap_stream", "pcap_read_next", "pcap_read_all", "pcap_write"}

Utf8Width(cp) == IF cp < 128 THEN 1 ELSE IF cp < 2048 THEN 2 ELSE IF cp < 65536 THEN 3 ELSE 4
Utf8Len(cps) == FoldLeft(LAMBDA acc, cp : acc + Utf8Width(cp), 0, cps)

BR(x, st) == [x |-> x, st |-> st]
BErr(name) == Err("builtin:" \o name)

CallBuiltin(name, args, st) ==
  LET n == Len(args)
      a1 == args[1]  a2 == args[2]  a3 == args[3]
      bad == BR(BErr(name), st)
  IN
  CASE \E i \in 1..n : Vague(args[i]) -> BR(Unspec, st)    \* an argument the documentation does not pin down
    [] name = "len" ->
         IF n # 1 THEN bad
         ELSE CASE a1.k = "str" -> BR(IntV(Utf8Len(a1.v)), st)
                [] a1.k \in {"arr", "map"} -> BR(IntV(Len(Elems(st, a1))), st)
                [] OTHER -> bad
    [] name = "first" ->
         IF n # 1 \/ a1.k # "arr" THEN bad
         ELSE BR(IF Elems(st, a1) = <<>> THEN Null ELSE Elems(st, a1)[1], st)
    [] name = "last" ->
         IF n # 1 \/ a1.k # "arr" THEN bad
         ELSE BR(IF Elems(st, a1) = <<>> THEN Null ELSE Elems(st, a1)[Len(Elems(st, a1))], st)
    [] name = "rest" ->
         IF n # 1 \/ a1.k # "arr" THEN bad
         ELSE IF Elems(st, a1) = <<>> THEN BR(Null, st)
         ELSE BR(ArrRef(NewId(st)), Alloc(st, [t |-> "arr", v |-> Tail(Elems(st, a1))]))
    [] name = "push" ->
         IF n # 2 \/ a1.k # "arr" THEN bad
         ELSE BR(AnyV, SetObj(st, a1.id, Append(Elems(st, a1), a2)))
    [] name = "pop" ->
         IF n # 1 \/ a1.k # "arr" THEN bad
         ELSE IF Elems(st, a1) = <<>> THEN BR(AnyV, st)
         ELSE BR(Elems(st, a1)[Len(Elems(st, a1))], SetObj(st, a1.id, Front(Elems(st, a1))))
    [] name = "get" ->
         IF n # 2 THEN bad
         ELSE CASE a1.k = "arr" ->
                     IF a2.k # "int" THEN bad
                     ELSE IF IsNeg(a2.v) \/ ~IsSmall(a2.v) \/ ToInt(a2.v) >= Len(Elems(st, a1)) THEN BR(Null, st)
                     ELSE BR(Elems(st, a1)[ToInt(a2.v) + 1], st)
                [] a1.k = "map" ->
                     IF AssocUnsettled(st.heap, Elems(st, a1), a2) THEN BR(Unspec, st)
                     ELSE LET o == AssocFind(st.heap, Elems(st, a1), a2)
                          IN BR(IF o.k = "NOTFOUND" THEN Null ELSE o, st)
                [] OTHER -> bad
    [] name = "contains" ->
         IF n # 2 \/ a1.k # "map" THEN bad
         ELSE IF AssocUnsettled(st.heap, Elems(st, a1), a2) THEN BR(Unspec, st)
         ELSE BR(B(AssocFind(st.heap, Elems(st, a1), a2).k # "NOTFOUND"), st)
    [] name = "insert" ->
         IF n # 3 \/ a1.k # "map" THEN bad
         ELSE IF ~IsValidKey(a2) \/ AssocUnsettled(st.heap, Elems(st, a1), a2) THEN BR(Unspec, st)
         ELSE LET o == AssocFind(st.heap, Elems(st, a1), a2)
              IN BR(IF o.k = "NOTFOUND" THEN Null ELSE o,
                    SetObj(st, a1.id, AssocPut(st.heap, Elems(st, a1), a2, a3)))
    [] name = "is_error" -> IF n # 1 THEN bad ELSE BR(B(a1.k = "eobj"), st)
    [] name = "str" ->
         IF n # 1 THEN bad
         ELSE CASE a1.k = "str" -> BR(a1, st)
                [] a1.k = "int" -> BR(S(ToDecimal(a1.v)), st)
                [] a1.k \in {"null", "float", "char", "byte", "bool", "arr", "map"} -> BR([k |-> "anystr"], st)
                [] OTHER -> bad
    [] OTHER -> BR(Unspec, st)
=============================================================================
