---------------------------- MODULE PcapFileInd ----------------------------
(***************************************************************************)
(* PcapFile.tla in a typed form for Apalache: the same machine (cursor,    *)
(* delivered; ReadNext / ReadAll with the same outcome sets, an outcome    *)
(* being [kind, recs, cursor] with the delivered records as a sequence),   *)
(* used to discharge NothingLost as an INDUCTIVE invariant:                *)
(*    Init => IndInv            and      IndInv /\ Next => IndInv'         *)
(* for every file of up to MaxLen records of arbitrary content, damaged or *)
(* not, and - because IndInv says nothing about the number of calls made - *)
(* for call histories of every length (TLC checks histories of <= 6 calls).*)
(***************************************************************************)
EXTENDS Integers, Sequences, Apalache

CONSTANTS
  \* @type: Seq(Int);
  Complete,
  \* @type: Bool;
  Damaged,
  \* @type: Int;
  MaxN

VARIABLES
  \* @type: Int;
  cursor,
  \* @type: Seq(Int);
  delivered

\* @type: (Int, Int) => Int;
Min2(a, b) == IF a < b THEN a ELSE b
Remaining(c) == Len(Complete) - c

\* @type: (Str, Seq(Int), Int) => { kind: Str, recs: Seq(Int), cursor: Int };
Out(k, rs, c) == [kind |-> k, recs |-> rs, cursor |-> c]
\* @type: Seq(Int);
Empty == <<>>

NextOutcomes(c) ==
  IF c < Len(Complete) THEN {Out("rec", <<Complete[c + 1]>>, c + 1)}
  ELSE {Out("null", Empty, c)} \union (IF Damaged THEN {Out("err", Empty, c)} ELSE {})
AllOutcomes(c, n) ==
  LET m == IF n = -1 THEN Remaining(c) ELSE Min2(n, Remaining(c))
      got == SubSeq(Complete, c + 1, c + m)
  IN {Out("arr", got, c + m)} \union (IF m = 0 /\ Damaged /\ n # 0 THEN {Out("err", Empty, c)} ELSE {})

\* @type: ({ kind: Str, recs: Seq(Int), cursor: Int }) => Bool;
Deliver(o) == cursor' = o.cursor /\ delivered' = delivered \o o.recs
ReadNext == \E o \in NextOutcomes(cursor) : Deliver(o)
ReadAll == \E n \in {-1} \union {k \in 0..6 : k <= MaxN} : \E o \in AllOutcomes(cursor, n) : Deliver(o)
Init == cursor = 0 /\ delivered = Empty
Next == ReadNext \/ ReadAll

TypeOK == cursor \in 0..Len(Complete)
NothingLost == delivered = SubSeq(Complete, 1, cursor)
IndInv == TypeOK /\ NothingLost
\* any state satisfying the invariant (cursor anywhere, delivered whatever NothingLost forces)
IndInit == /\ cursor \in 0..Len(Complete)
           /\ delivered = SubSeq(Complete, 1, cursor)
\* files of up to 5 records of arbitrary content
ConstInit == /\ Complete = Gen(5)
             /\ Damaged \in BOOLEAN
             /\ MaxN \in 0..6
=============================================================================
