--------------------------- MODULE PipelineTrace ---------------------------
EXTENDS PipelineObs
(* ---- trace validation: one record per real run ----------------------------- *)
(* [id, how, diag, ran]: how = "exit" when the process ended by itself; diag =  *)
(* parse or compile diagnostics were printed; ran = the probe statement at the  *)
(* start of the program produced its output.                                    *)
CONSTANT NChunks
\* parsed once at start-up into a TLC register (TLC re-evaluates a definition that reads a file on every reference)
ASSUME TLCSet(7, ndJsonDeserialize(IOEnv.TRACE))
Recs == TLCGet(7)
Verdict(rec) == [id |-> rec.id,
                 v |-> IF rec.how = "exit" /\ <<rec.diag, rec.ran>> \in TerminalObs THEN "ok" ELSE "bad"]
VARIABLE pc
TInit == pc = <<"root", 0>>
TNext == \/ /\ pc[1] = "root" /\ \E c \in 0..(NChunks - 1) : pc' = <<"chunk", c>>
         \/ /\ pc[1] = "chunk"
            /\ LET idxs == SetToSortSeq({i \in 1..Len(Recs) : i % NChunks = pc[2]}, <)
                   vs == [n \in 1..Len(idxs) |-> Verdict(Recs[idxs[n]])]
               IN ndJsonSerialize(IOEnv.OUTDIR \o "/v" \o ToString(pc[2]) \o ".ndjson", vs)
            /\ pc' = <<"done", pc[2]>>
TSpec == TInit /\ [][TNext]_pc
=============================================================================
