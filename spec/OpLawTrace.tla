----------------------------- MODULE OpLawTrace -----------------------------
(***************************************************************************)
(* C09, the relations among the comparison operators themselves: whatever  *)
(* two operands are - also pairs whose ordering the documentation leaves   *)
(* open (a byte against a number, ...) - the six operators must describe   *)
(* one and the same relation:                                              *)
(*   - the four ordering operators accept a pair or refuse it together;    *)
(*   - a <= b  iff  a < b or a == b;   a >= b  iff  a > b or a == b;       *)
(*   - never both a < b and a > b;     a != b  iff  not a == b;            *)
(*   - a < b iff b > a,  a <= b iff b >= a,  a == b iff b == a.            *)
(* A record carries what the real interpreter answered for the six         *)
(* operators on (a, b) and on (b, a): "T", "F", "E" (runtime error).       *)
(***************************************************************************)
EXTENDS Integers, Sequences, TLC, Json, IOUtils

ASSUME TLCSet(7, ndJsonDeserialize(IOEnv.TRACE))
Recs == TLCGet(7)

Bool(x) == x \in {"T", "F"}
Holds(x) == x = "T"
Broken(r) ==
  LET ord == {r.lt, r.gt, r.le, r.ge}
  IN IF ~(\A x \in ord \cup {r.eq, r.ne} : x \in {"T", "F", "E"}) THEN "an answer that is neither a boolean nor an error"
     ELSE IF "E" \in ord /\ ord # {"E"} THEN "the ordering operators do not refuse the pair together"
     ELSE IF ~Bool(r.eq) \/ ~Bool(r.ne) THEN "== or != refuses a pair"
     ELSE IF Holds(r.ne) = Holds(r.eq) THEN "!= is not the negation of =="
     ELSE IF r.sw.eq # r.eq THEN "== is not symmetric"
     ELSE IF ord = {"E"} THEN (IF {r.sw.lt, r.sw.gt, r.sw.le, r.sw.ge} # {"E"} THEN "refused one way round, accepted the other" ELSE "")
     ELSE IF Holds(r.lt) /\ Holds(r.gt) THEN "both a < b and a > b"
     ELSE IF Holds(r.le) # (Holds(r.lt) \/ Holds(r.eq)) THEN "<= is not (< or ==)"
     ELSE IF Holds(r.ge) # (Holds(r.gt) \/ Holds(r.eq)) THEN ">= is not (> or ==)"
     ELSE IF r.sw.gt # r.lt \/ r.sw.lt # r.gt THEN "a < b is not b > a"
     ELSE IF r.sw.ge # r.le \/ r.sw.le # r.ge THEN "a <= b is not b >= a"
     ELSE ""
Verdict(rec) == LET w == Broken(rec) IN [id |-> rec.id, v |-> IF w = "" THEN "ok" ELSE "bad", why |-> w]

VARIABLE pc
Init == pc = "run"
Next == /\ pc = "run"
        /\ ndJsonSerialize(IOEnv.OUTDIR \o "/v0.ndjson", [i \in 1..Len(Recs) |-> Verdict(Recs[i])])
        /\ pc' = "done"
Spec == Init /\ [][Next]_pc
=============================================================================
