SPECIFICATION Spec
CONSTANT NChunks = 16
CHECK_DEADLOCK FALSE
