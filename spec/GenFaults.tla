------------------------------ MODULE GenFaults ------------------------------
(* Case generator for C22: every program of one or two operations of IOFaultOps (a third strided) *)
EXTENDS IOFaultOps
(* ---- generator: all programs of one or two operations (thorough: a third, strided) ---- *)
CONSTANTS NChunks, Stride
NAll == NOps + NOps * NOps + NOps * NOps * NOps
Selected(n) == n < NOps + NOps * NOps \/ n % Stride = 0
ProgOf(n) == IF n < NOps THEN <<n + 1>>
             ELSE IF n < NOps + NOps * NOps THEN LET m == n - NOps IN <<(m \div NOps) + 1, (m % NOps) + 1>>
             ELSE LET m == n - NOps - NOps * NOps IN <<(m \div (NOps * NOps)) + 1, ((m \div NOps) % NOps) + 1, (m % NOps) + 1>>
Case(n) == [id |-> n, ops |-> [i \in 1..Len(ProgOf(n)) |-> Ops[ProgOf(n)[i]]]]
VARIABLE gpc
Init == gpc = <<"root", 0>>
Next == \/ /\ gpc[1] = "root" /\ \E c \in 0..(NChunks - 1) : gpc' = <<"chunk", c>>
         \/ /\ gpc[1] = "chunk"
            /\ LET ns == SetToSortSeq({n \in 0..(NAll - 1) : n % NChunks = gpc[2] /\ Selected(n)}, <)
                   cs == [y \in 1..Len(ns) |-> Case(ns[y])]
               IN ndJsonSerialize(IOEnv.OUTDIR \o "/g" \o ToString(gpc[2]) \o ".ndjson", cs)
            /\ gpc' = <<"done", gpc[2]>>
Spec == Init /\ [][Next]_gpc

=============================================================================
