SPECIFICATION Spec
INVARIANT Laws
CHECK_DEADLOCK FALSE
