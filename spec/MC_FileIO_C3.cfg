SPECIFICATION Spec
CONSTANTS
 Content <- C3
 MaxChunk = 3
 MaxRead = 4
INVARIANTS TypeOK PrefixExactlyOnce ShortOnlyAtEOF
CHECK_DEADLOCK FALSE
