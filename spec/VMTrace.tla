------------------------------- MODULE VMTrace -------------------------------
(***************************************************************************)
(* Validation of instruction-level traces of the real VM (hook H2) against *)
(* the machine-level requirements of C07 and C14.                          *)
(*                                                                         *)
(* An execution record carries the compiled functions (byte code), the     *)
(* constant pool (projected values), the width table the real encoder      *)
(* uses, and the trace: one event <<fi, func, ip, op, sp>> per executed    *)
(* instruction, taken BEFORE the instruction executes (fi = number of      *)
(* frames, func = compiled function of the current frame, sp = operand     *)
(* stack height).  mode = 1: every instruction; mode = 2: only Constant,   *)
(* Pop, Jump, Call and the returns (for long runs).                        *)
(*                                                                         *)
(* Stack discipline (C07) -- the verdict `disc`:                           *)
(*  M. Generated programs carry marker statements "§b"; (a string literal  *)
(*     expression statement, i.e. Constant;Pop) between the statements of  *)
(*     every block b.  Within one activation all markers of a block see    *)
(*     the same sp: a statement leaves the stack at the height it found.   *)
(*  J. Every backward jump of an activation to the same target arrives     *)
(*     with the same sp (loop heads are stable, so loops run in constant   *)
(*     stack) -- this includes the jumps of `continue`.                    *)
(*  E. A run that ends normally ends with sp = 0.                          *)
(*                                                                         *)
(* Operand decoding (C14) -- the verdict `ipok` (mode 1 only): the VM      *)
(* fetches exactly the instructions the encoder wrote.  Each event's ip    *)
(* must be the position the previous instruction of that frame leads to    *)
(* when decoded with the encoder's widths: ip + InstrLen for straight-line *)
(* code, the decoded operand for jumps, 0 in a callee, the instruction     *)
(* after the call on return; and the opcode byte at ip is the traced one.  *)
(*                                                                         *)
(* `drift` counts events whose sp differs from the effect table of         *)
(* DESIGN.md appendix B; it only localises a leak and is never a verdict.  *)
(***************************************************************************)
EXTENDS Bytecode, Json, IOUtils

CONSTANT NChunks
\* parsed once at start-up into a TLC register (TLC re-evaluates a definition that reads a file on every reference)
ASSUME TLCSet(7, ndJsonDeserialize(IOEnv.TRACE))
Recs == TLCGet(7)

\* Opcodes are identified by the names the real code gives them (rec.opnames, rec.opc: measured with the
\* widths), not by fixed numbers: a renumbering is not a change of the format.
Nm(rec, op) == IF op < Len(rec.opnames) THEN rec.opnames[op + 1] ELSE "?"

AssocGet(al, k) == FoldLeft(LAMBDA acc, p : IF p[1] = k THEN p[2] ELSE acc, -1, al)
AssocSet(al, k, v) == Append(al, <<k, v>>)

Code(rec, func) == rec.funcs[func + 1].code
IsMarker(rec, code, ip, W) ==
  LET ci == Operands(W, code, ip)[1]
  IN /\ ci + 1 <= Len(rec.consts) /\ rec.consts[ci + 1].k = "str"
     /\ Len(rec.consts[ci + 1].v) >= 1 /\ rec.consts[ci + 1].v[1] = 167
MarkerKey(rec, code, ip, W) == rec.consts[Operands(W, code, ip)[1] + 1].v

\* positions the instruction at ip may lead to within its own frame
NextIps(rec, W, code, ip, op) ==
  CASE Nm(rec, op) = "Jump" -> {Operands(W, code, ip)[1]}
    [] Nm(rec, op) \in {"JumpIfFalse", "JumpIfFalseNoPop"} -> {Operands(W, code, ip)[1], ip + InstrLen(W, op)}
    [] Nm(rec, op) \in {"Return", "ReturnValue"} -> {}
    [] OTHER -> {ip + InstrLen(W, op)}

\* required effect on sp of a non-control instruction (DESIGN.md appendix B), or 99 = not applicable
Effect(rec, W, code, ip, op) ==
  LET nm == Nm(rec, op) IN
  CASE nm \in {"Constant", "True", "False", "Null", "GetGlobal", "GetLocal", "GetBuiltinFn", "GetBuiltinVar", "GetFree",
               "CurrClosure", "Dup"} -> 1
    [] nm \in {"Minus", "Bang", "Not", "Jump", "JumpIfFalseNoPop", "SetGlobal", "SetLocal", "SetFree", "GetProp", "Dollar"} -> 0
    [] nm \in {"Pop", "Add", "Sub", "Mul", "Div", "Mod", "Equal", "NotEqual", "Greater", "GreaterEq", "And", "Or", "Xor",
               "ShiftLeft", "ShiftRight", "JumpIfFalse", "DefineGlobal", "DefineLocal", "GetIndex", "SetProp"} -> -1
    [] nm = "SetIndex" -> -2
    [] nm \in {"Array", "Map"} -> 1 - Operands(W, code, ip)[1]
    [] nm = "Closure" -> 1 - Operands(W, code, ip)[2]
    [] OTHER -> 99

Frame(func) == [func |-> func, allowed |-> {0}, marks |-> <<>>, heads |-> <<>>]
Bad(st, why, i) == IF st.disc = "ok" THEN [st EXCEPT !.disc = why, !.at = i] ELSE st
BadIp(st, why, i) == IF st.ipok = "ok" THEN [st EXCEPT !.ipok = why, !.ipat = i] ELSE st

StepEv(rec, W, st, i) ==
  LET e == rec.trace[i]
      fi == e[1]  func == e[2]  ip == e[3]  op == e[4]  sp == e[5]
      full == rec.mode = 1
      depth == Len(st.frames)
      prev == st.prev
      \* frame bookkeeping: call, return or same frame
      st1 == IF fi = depth + 1 THEN
               (IF full /\ (Nm(rec, prev[4]) # "Call" \/ ip # 0)
                THEN BadIp([st EXCEPT !.frames = Append(st.frames, Frame(func))], "callee entered without Call at ip 0", i)
                ELSE [st EXCEPT !.frames = Append(st.frames, Frame(func))])
             ELSE IF fi < depth /\ fi >= 1 THEN
               (IF full /\ Nm(rec, prev[4]) \notin {"Return", "ReturnValue"}
                THEN BadIp([st EXCEPT !.frames = SubSeq(st.frames, 1, fi)], "frame left without a return", i)
                ELSE [st EXCEPT !.frames = SubSeq(st.frames, 1, fi)])
             ELSE IF fi = depth THEN st
             ELSE BadIp([st EXCEPT !.frames = st.frames \o [k \in 1..(fi - depth) |-> Frame(func)]], "frame depth jumped", i)
      fr == st1.frames[fi]
      code == Code(rec, func)
      \* C14: fetch position and opcode
      st2 == IF ~full THEN st1
             ELSE IF fr.func # func THEN BadIp(st1, "frame executes another function", i)
             ELSE IF ip \notin fr.allowed THEN BadIp(st1, "ip is not where the previous instruction leads", i)
             ELSE IF ip + 1 > Len(code) \/ code[ip + 1] # op THEN BadIp(st1, "traced opcode is not the byte at ip", i)
             ELSE IF op >= Len(W) THEN BadIp(st1, "undefined opcode executed", i)
             ELSE st1
      \* sp effect (localisation only)
      drifted == /\ full /\ i > 1 /\ prev[1] = fi /\ prev[2] = func /\ prev[4] < Len(W)
                 /\ Effect(rec, W, code, prev[3], prev[4]) # 99
                 /\ sp # prev[5] + Effect(rec, W, code, prev[3], prev[4])
      \* C07 M: markers
      ismark == Nm(rec, op) = "Constant" /\ ip + InstrLen(W, op) <= Len(code) /\ IsMarker(rec, code, ip, W)
      key == MarkerKey(rec, code, ip, W)
      seen == AssocGet(fr.marks, key)
      st3 == IF ~ismark THEN st2
             ELSE IF seen = -1 THEN [st2 EXCEPT !.frames[fi].marks = AssocSet(fr.marks, key, sp)]
             ELSE IF seen # sp THEN Bad(st2, "statement boundary of a block seen at two stack heights", i)
             ELSE st2
      \* C07 J: backward jumps
      tgt == Operands(W, code, ip)[1]
      isback == Nm(rec, op) = "Jump" /\ ip + InstrLen(W, op) <= Len(code) /\ tgt <= ip
      hseen == AssocGet(st3.frames[fi].heads, tgt)
      st4 == IF ~isback THEN st3
             ELSE IF hseen = -1 THEN [st3 EXCEPT !.frames[fi].heads = AssocSet(st3.frames[fi].heads, tgt, sp)]
             ELSE IF hseen # sp THEN Bad(st3, "loop head reached at two stack heights", i)
             ELSE st3
      nexts == IF op < Len(W) /\ ip + InstrLen(W, op) <= Len(code) THEN NextIps(rec, W, code, ip, op) ELSE {}
  IN [st4 EXCEPT !.frames[fi].allowed = nexts, !.prev = e, !.drift = IF drifted THEN st4.drift + 1 ELSE st4.drift,
                 !.nmark = IF ismark THEN st4.nmark + 1 ELSE st4.nmark, !.nback = IF isback THEN st4.nback + 1 ELSE st4.nback]

Verdict(rec) ==
  LET W == rec.widths
      init == [disc |-> "ok", at |-> 0, ipok |-> "ok", ipat |-> 0, frames |-> <<Frame(0)>>, prev |-> <<1, 0, 0, 99, 0>>,
               drift |-> 0, nmark |-> 0, nback |-> 0]
      r == FoldLeft(LAMBDA st, i : StepEv(rec, W, st, i), init, [i \in 1..Len(rec.trace) |-> i])
      \* C07 E
      fin == IF rec.end.how = "ok" /\ rec.end.sp # 0 THEN Bad(r, "normal end with a non-empty stack", Len(rec.trace)) ELSE r
  IN [id |-> rec.id, disc |-> fin.disc, at |-> fin.at, ipok |-> fin.ipok, ipat |-> fin.ipat, drift |-> fin.drift,
      nmark |-> fin.nmark, nback |-> fin.nback, n |-> Len(rec.trace)]

VARIABLE pc
N == Len(Recs)
Init == pc = <<"root", 0>>
Next == \/ /\ pc[1] = "root" /\ \E c \in 0..(NChunks - 1) : pc' = <<"chunk", c>>
        \/ /\ pc[1] = "chunk"
           /\ LET idxs == SetToSortSeq({i \in 1..N : i % NChunks = pc[2]}, <)
                  vs == [n \in 1..Len(idxs) |-> Verdict(Recs[idxs[n]])]
              IN ndJsonSerialize(IOEnv.OUTDIR \o "/v" \o ToString(pc[2]) \o ".ndjson", vs)
           /\ pc' = <<"done", pc[2]>>
Spec == Init /\ [][Next]_pc
=============================================================================
