------------------------------ MODULE PcapFile ------------------------------
(***************************************************************************)
(* Reading a legacy pcap file record by record (C19).                      *)
(*                                                                         *)
(* A file has a sequence Complete of complete, valid records (everything   *)
(* before the first damage) and may be Damaged after them (cut inside a    *)
(* record, or a record whose caplen exceeds the snaplen).  A reader has a  *)
(* cursor; the calls are                                                   *)
(*   ReadNext       the next record; after the last complete one: null,    *)
(*                  or - only if the file is damaged - an error object     *)
(*   ReadAll(n)     the next min(n, remaining) records as an array (n may  *)
(*                  be "all"); records already read are never lost: an     *)
(*                  error object is allowed only when there is nothing to  *)
(*                  return and the file is damaged                         *)
(* Safety: the records delivered so far are a prefix of Complete, in file  *)
(* order, each exactly once.                                               *)
(***************************************************************************)
EXTENDS Integers, Sequences, SequencesExt, FiniteSets, TLC

CONSTANTS Complete,      \* sequence of records (any values)
          Damaged,       \* BOOLEAN
          MaxCalls, MaxN

Min2(a, b) == IF a < b THEN a ELSE b
Remaining(cursor) == Len(Complete) - cursor

\* allowed outcomes of the calls in a state with the given cursor: sets of [res, cursor]
Null == [k |-> "null"]
ErrObj == [k |-> "err"]
Arr(rs) == [k |-> "arr", v |-> rs]
Rec(r) == [k |-> "rec", v |-> r]
NextOutcomes(cursor) ==
  IF cursor < Len(Complete) THEN {[res |-> Rec(Complete[cursor + 1]), cursor |-> cursor + 1]}
  ELSE {[res |-> Null, cursor |-> cursor]} \cup (IF Damaged THEN {[res |-> ErrObj, cursor |-> cursor]} ELSE {})
\* n = -1 means "all"
AllOutcomes(cursor, n) ==
  LET m == IF n = -1 THEN Remaining(cursor) ELSE Min2(n, Remaining(cursor))
      got == SubSeq(Complete, cursor + 1, cursor + m)
  IN {[res |-> Arr(got), cursor |-> cursor + m]}
     \cup (IF m = 0 /\ Damaged /\ n # 0 THEN {[res |-> ErrObj, cursor |-> cursor]} ELSE {})

VARIABLES cursor, delivered, calls
vars == <<cursor, delivered, calls>>
Init == cursor = 0 /\ delivered = <<>> /\ calls = 0
Deliver(o) == /\ cursor' = o.cursor
              /\ delivered' = CASE o.res.k = "rec" -> Append(delivered, o.res.v)
                                [] o.res.k = "arr" -> delivered \o o.res.v
                                [] OTHER -> delivered
              /\ calls' = calls + 1
ReadNext == calls < MaxCalls /\ \E o \in NextOutcomes(cursor) : Deliver(o)
ReadAll == calls < MaxCalls /\ \E n \in {-1} \cup (0..MaxN) : \E o \in AllOutcomes(cursor, n) : Deliver(o)
Next == ReadNext \/ ReadAll
Spec == Init /\ [][Next]_vars

TypeOK == cursor \in 0..Len(Complete)
PrefixInOrder == IsPrefix(delivered, Complete)
ExactlyOnce == Len(delivered) = cursor
\* whatever the interleaving of calls, nothing is skipped and nothing is lost
NothingLost == delivered = SubSeq(Complete, 1, cursor)
=============================================================================
