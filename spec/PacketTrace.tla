----------------------------- MODULE PacketTrace -----------------------------
(***************************************************************************)
(* Trace validation of packet histories (C15, C16, C17).  One record = one *)
(* packet (record header hdr, captured bytes raw) and the sequence of      *)
(* steps a script performed on it through the real interpreter:            *)
(*   read   path.prop   with the result the script observed                *)
(*   assign path.prop = val   with "ok" or "rterror"                       *)
(*   write  the bytes pcap_write / write / filter mode produced            *)
(* The specification state is (hdr, raw); reads must return what Packet.tla*)
(* derives from the current bytes and never change them; an assignment     *)
(* patches exactly one field (or is refused, or - for an out-of-range      *)
(* integer - stores the value reduced to the field's width); a write must  *)
(* produce hdr \o raw.                                                     *)
(***************************************************************************)
EXTENDS Packet, Json, IOUtils

CONSTANT NChunks
\* parsed once at start-up into a TLC register (TLC re-evaluates a definition that reads a file on every reference)
ASSUME TLCSet(7, ndJsonDeserialize(IOEnv.TRACE))
Recs == TLCGet(7)

\* path: sequence of [t |-> "name", n |-> layer] or [t |-> "dollar", n |-> k].  Result: a layer, or where it stopped.
ResolveFrom(raw, lay0, path) ==
  LET f(acc, i) ==
        IF acc.lay.s # "ok" THEN acc
        ELSE LET st == path[i]
                 \* $n beyond 10 is an implementation limit the documentation neither promises nor forbids
                 nxt == IF st.t = "dollar" THEN (IF st.n > 10 THEN [s |-> "unspec"] ELSE DownN(raw, Pkt, st.n))
                        ELSE Down(raw, acc.lay, st.n)
             IN [lay |-> nxt, at |-> i]
  IN FoldLeft(f, [lay |-> lay0, at |-> 0], [i \in 1..Len(path) |-> i])

IntRes(w) == [k |-> "int", v |-> w]
\* does the observed result j agree with the specification for reading prop of the resolved layer ?
ReadOK(hdr, raw, orig, r, prop, j) ==
  LET lay == r.lay IN
  CASE lay.s = "unspec" -> TRUE
    [] lay.s = "badprop" -> j.k = "rterror"
    [] lay.s = "null" -> j.k = "stop" /\ j.why = "N" /\ j.at = r.at
    [] lay.s = "err" -> j.k = "stop" /\ j.why = "E" /\ j.at = r.at
    [] prop = "" -> j.k = "pkt"                                   \* the layer object itself
    [] prop = "payload" ->
         \* after an assignment to a field inside the payload the property leaves open whether the payload of an
         \* enclosing layer shows the new bytes or the captured ones: both are accepted (src ranges over them)
         IF lay.kind = "pkt" THEN j.k = "bytes" /\ (j.v = raw \/ j.v = orig)
         ELSE LET hl == HdrLen(raw, lay.kind, lay.off) IN
              IF hl = -1 THEN TRUE
              ELSE j.k = "bytes" /\ \E e \in PayloadEnds(raw, lay) : \E src \in {raw, orig} :
                     LET st == PayloadStart(raw, lay)
                         en == IF e > Len(raw) THEN Len(raw) ELSE e
                     IN j.v = (IF st >= en THEN <<>> ELSE SubSeq(src, st + 1, en))
    [] prop \in LayerNames ->
         LET d == Down(raw, lay, prop)
         IN CASE d.s = "ok" -> j.k = "pkt" [] d.s = "null" -> j.k = "null" [] d.s = "err" -> j.k = "err"
              [] d.s = "badprop" -> j.k = "rterror" [] OTHER -> TRUE
    [] ~HasField(lay.kind, prop) -> j.k = "rterror"
    [] OTHER ->
         LET f == Field(lay.kind, prop)
             src == IF lay.kind = "pkt" THEN hdr ELSE raw
         IN CASE f.t \in {"int", "le32"} -> j.k = "int" /\ j.v = FieldWord(src, lay.off, f)
              [] f.t = "bool" -> j.k = "bool" /\ j.v = (BitsVal(src, lay.off, f) = 1)
              [] f.t = "mac" -> j.k = "str" /\ LET a == ParseMac(j.v) IN a.s = "ok" /\ a.bytes = FieldBytes(src, lay.off, f)
              [] f.t = "ip4" -> j.k = "str" /\ LET a == ParseV4(j.v) IN a.s = "ok" /\ a.bytes = FieldBytes(src, lay.off, f)
              [] f.t = "ip6" -> j.k = "str" /\ LET a == ParseV6(j.v) IN a.s = "ok" /\ a.bytes = FieldBytes(src, lay.off, f)

\* the states an assignment may lead to: set of [how, hdr, raw]
Low(w, nbits) ==   \* the low nbits (<= 20) of an Int64 word as a natural
  LET n == w[1] + 256 * w[2] + 65536 * (w[3] % 16) IN n % P2n(nbits)
AssignOutcomes(hdr, raw, r, prop, val) ==
  LET lay == r.lay
      same == [how |-> "rterror", hdr |-> hdr, raw |-> raw]
      any == {[how |-> "any", hdr |-> hdr, raw |-> raw]}
  IN
  CASE lay.s = "unspec" -> any
    [] lay.s # "ok" -> {same}                   \* null / error object / bad property: the assignment cannot succeed
    [] ~HasField(lay.kind, prop) -> {same}
    [] OTHER ->
       LET f == Field(lay.kind, prop)
           inhdr == lay.kind = "pkt"
           src == IF inhdr THEN hdr ELSE raw
           put(newsrc) == IF inhdr THEN [how |-> "ok", hdr |-> newsrc, raw |-> raw] ELSE [how |-> "ok", hdr |-> hdr, raw |-> newsrc]
       IN
       IF f.ro THEN {same}
       ELSE CASE f.t \in {"int", "bool"} /\ IsBits(f) ->
                   IF f.t = "bool" /\ val.k = "bool" THEN {put(PatchBits(src, lay.off, f, IF val.v THEN 1 ELSE 0))}
                   ELSE IF val.k # "int" THEN {same}
                   ELSE IF f.t = "int" /\ ~IsNeg(val.v) /\ IsSmall(val.v) /\ ToInt(val.v) < P2n(f.w)
                        THEN {put(PatchBits(src, lay.off, f, ToInt(val.v)))}
                   ELSE {same, put(PatchBits(src, lay.off, f, Low(val.v, f.w)))}          \* refused, or reduced to the width
              [] f.t \in {"int", "le32"} ->     \* 32-bit fields
                   IF val.k # "int" THEN {same}
                   ELSE LET bs == IF f.t = "le32" THEN <<val.v[1], val.v[2], val.v[3], val.v[4]>>
                                  ELSE <<val.v[4], val.v[3], val.v[2], val.v[1]>>
                            inrange == val.v[5] = 0 /\ val.v[6] = 0 /\ val.v[7] = 0 /\ val.v[8] = 0
                        IN IF inrange THEN {put(PatchBytes(src, lay.off, f, bs))} ELSE {same, put(PatchBytes(src, lay.off, f, bs))}
              [] OTHER ->                        \* addresses
                   IF val.k # "str" THEN {same}
                   ELSE LET a == CASE f.t = "mac" -> ParseMac(val.v) [] f.t = "ip4" -> ParseV4(val.v) [] f.t = "ip6" -> ParseV6(val.v)
                        IN CASE a.s = "ok" -> {put(PatchBytes(src, lay.off, f, a.bytes))}
                             [] a.s = "reject" -> {same}
                             [] OTHER -> any

Structural == {<<"eth", "type">>, <<"vlan", "type">>, <<"ipv4", "proto">>, <<"ipv4", "ihl">>, <<"ipv6", "nextheader">>,
               <<"tcp", "dataoff">>, <<"tcp", "len">>}
\* fold over the steps; st = [ok, at, why, hdr, raw] (nondeterministic assignments resolved by the observed outcome)
StepOK(st, rec, i) ==
  IF ~st.ok \/ st.free THEN st ELSE
  LET s == rec.steps[i]
      r == ResolveFrom(st.raw, Pkt, s.path)
      Checks(x) == \E n \in 1..Len(rec.check) : rec.check[n] = x
  IN CASE s.op = "read" ->
            \* a crash while reading is never allowed; the value is compared when the record asks for it
            IF s.res.k \in {"panic", "abort", "timeout"} THEN [st EXCEPT !.ok = FALSE, !.at = i, !.why = "crash"]
            ELSE IF st.rfree \/ ~Checks("read") \/ ReadOK(st.hdr, st.raw, rec.raw, r, s.prop, s.res) THEN st
            ELSE [st EXCEPT !.ok = FALSE, !.at = i, !.why = "read"]
       [] s.op = "assign" ->
            LET outs == AssignOutcomes(st.hdr, st.raw, r, s.prop, s.val)
                match == {o \in outs : o.how = "any" \/ o.how = s.res.k}
            IN IF \E o \in outs : o.how = "any" THEN [st EXCEPT !.free = TRUE]
               ELSE IF match = {} THEN [st EXCEPT !.ok = FALSE, !.at = i, !.why = "assign-outcome"]
               ELSE LET o == CHOOSE o \in match : TRUE
                    IN [st EXCEPT !.hdr = o.hdr, !.raw = o.raw,
                                  \* a field that selects the next layer or gives a header length changes the structure:
                                  \* what later reads see (cached layers or the new structure) is not settled
                                  \* (an assignment that leaves the bytes as they were changes no structure)
                                  !.rfree = st.rfree \/ (/\ r.lay.s = "ok" /\ <<r.lay.kind, Alias(r.lay.kind, s.prop)>> \in Structural
                                                          /\ (o.raw # st.raw \/ o.hdr # st.hdr))]
       [] s.op = "write" ->
            IF s.bytes = st.hdr \o st.raw THEN st ELSE [st EXCEPT !.ok = FALSE, !.at = i, !.why = "write"]

Verdict(rec) ==
  LET init == [ok |-> TRUE, at |-> 0, why |-> "", hdr |-> rec.hdr, raw |-> rec.raw, free |-> FALSE, rfree |-> FALSE]
      r == FoldLeft(LAMBDA st, i : StepOK(st, rec, i), init, [i \in 1..Len(rec.steps) |-> i])
  IN [id |-> rec.id, v |-> IF r.ok THEN "ok" ELSE "bad", at |-> r.at, why |-> r.why, free |-> r.free,
      want |-> IF r.ok \/ r.why # "write" THEN <<>> ELSE r.hdr \o r.raw]

VARIABLE pc
N == Len(Recs)
Init == pc = <<"root", 0>>
Next == \/ /\ pc[1] = "root" /\ \E c \in 0..(NChunks - 1) : pc' = <<"chunk", c>>
        \/ /\ pc[1] = "chunk"
           /\ LET idxs == SetToSortSeq({i \in 1..N : i % NChunks = pc[2]}, <)
                  vs == [n \in 1..Len(idxs) |-> Verdict(Recs[idxs[n]])]
              IN ndJsonSerialize(IOEnv.OUTDIR \o "/v" \o ToString(pc[2]) \o ".ndjson", vs)
           /\ pc' = <<"done", pc[2]>>
Spec == Init /\ [][Next]_pc
=============================================================================
