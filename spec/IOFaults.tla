------------------------------- MODULE IOFaults -------------------------------
(* The requirement of C22 as a state machine over the operation table of IOFaultOps.tla *)
EXTENDS IOFaultOps
(* ---- the requirement as a state machine: pc runs through the program; at each step the ---- *)
(* environment's choice (the op's fault flag) determines the only allowed kind of result       *)
CONSTANT MaxLen
VARIABLES prog, pc, results, aborted
vars == <<prog, pc, results, aborted>>
Init == /\ prog \in UNION {[1..n -> 1..NOps] : n \in 0..MaxLen} /\ pc = 1 /\ results = <<>> /\ aborted = FALSE
StepOp == /\ pc <= Len(prog) /\ ~aborted
          /\ results' = Append(results, IF Ops[prog[pc]].fault THEN "err" ELSE "val")
          /\ pc' = pc + 1 /\ UNCHANGED <<prog, aborted>>
Next == StepOp
Spec == Init /\ [][Next]_vars /\ WF_vars(Next)
NeverAborts == ~aborted
ErrIffFault == \A i \in 1..Len(results) : (results[i] = "err") = Ops[prog[i]].fault
RunsToEnd == <>(pc = Len(prog) + 1)

=============================================================================
