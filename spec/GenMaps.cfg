SPECIFICATION Spec
CONSTANTS
 NChunks = 16
 Stride = 5
CHECK_DEADLOCK FALSE
