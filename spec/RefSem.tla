------------------------------- MODULE RefSem -------------------------------
(***************************************************************************)
(* Reference semantics of the p2sh language: direct evaluation of the      *)
(* abstract syntax (properties C02 - C06, C13).  TLC evaluates it; the     *)
(* implementation (scanner, parser, compiler, VM) is compared against it.  *)
(*                                                                         *)
(* Abstract syntax (records, field t is the node kind) -- see DESIGN.md    *)
(* appendix A.  Every statement carries the source line ln it is rendered  *)
(* on; a runtime error is attributed to the line of the statement that     *)
(* contains the failing construct (constructs are rendered on one line).   *)
(*                                                                         *)
(* Store: st = [heap, cells].  heap holds arrays, maps and closures,       *)
(* cells holds variable contents.  An environment is a sequence of         *)
(* bindings [n: name, c: cell, g: is-global]; the innermost binding of a   *)
(* name is the last one.  Bindings made outside every function are global: *)
(* closures share their cells (by reference).  All other bindings are      *)
(* copied into fresh cells when a closure is created (capture by value).   *)
(***************************************************************************)
EXTENDS Builtins

CONSTANTS MaxDepth,    \* call depth beyond which the model does not decide
          MaxIter      \* loop iterations beyond which the model does not decide

\* ----------------------------- results ------------------------------------
\* s: "ok" | "err" | "unspec" | "brk" | "cnt" | "ret"
R(s, v, st) == [s |-> s, v |-> v, st |-> st]
OkR(v, st) == R("ok", v, st)
ErrR(c, ln, st) == R("err", [c |-> c, ln |-> ln], st)
UnspecR(st) == R("unspec", Null, st)
\* lift a Values result (value | ERR | UNSPEC | CONCAT is handled by the caller)
Lift(x, ln, st) == IF IsErr(x) THEN ErrR(x.c, ln, st) ELSE IF IsUnspec(x) THEN UnspecR(st) ELSE OkR(x, st)

Lift2(r, ln) == Lift(r.x, ln, r.st)

\* innermost binding of a name, or 0
LookupB(env, name) ==
  LET f(acc, i) == IF env[i].n = name THEN i ELSE acc
  IN FoldLeft(f, 0, [i \in 1..Len(env) |-> i])

\* capture: non-global bindings are copied into fresh cells
Capture(env, st) ==
  LET f(acc, b) == IF b.g THEN [env |-> Append(acc.env, b), st |-> acc.st]
                   ELSE [env |-> Append(acc.env, [n |-> b.n, c |-> NewCellId(acc.st), g |-> FALSE]),
                         st |-> NewCell(acc.st, acc.st.cells[b.c])]
  IN FoldLeft(f, [env |-> <<>>, st |-> st], env)

\* ------------------------- block values ------------------------------------
\* value of a block = value of its last statement when that is an expression statement
None == [t |-> "none"]

\* ----------------------------- evaluator -----------------------------------
RECURSIVE Ev(_, _, _, _, _), EvSeq(_, _, _, _, _), ExBlock(_, _, _, _, _), Ex(_, _, _, _, _),
          CallVal(_, _, _, _, _), ExLoop(_, _, _, _, _), EvMatchArms(_, _, _, _, _, _, _)

\* evaluate a sequence of expressions left to right: [s, vs, st] (v of a non-ok result in r)
EvSeq(es, env, st, ln, d) ==
  LET f(acc, e) == IF acc.s # "ok" THEN acc
                   ELSE LET r == Ev(e, env, acc.st, ln, d)
                        IN IF r.s = "ok" THEN [s |-> "ok", vs |-> Append(acc.vs, r.v), st |-> r.st, r |-> r]
                           ELSE [s |-> r.s, vs |-> acc.vs, st |-> r.st, r |-> r]
  IN FoldLeft(f, [s |-> "ok", vs |-> <<>>, st |-> st, r |-> OkR(Null, st)], es)

IndexGet(st, a, i, ln) ==
  CASE a.k = "arr" /\ i.k = "int" ->
         IF IsNeg(i.v) \/ ~IsSmall(i.v) \/ ToInt(i.v) >= Len(st.heap[a.id].v) THEN ErrR("index", ln, st)
         ELSE OkR(st.heap[a.id].v[ToInt(i.v) + 1], st)
    [] a.k = "map" ->
         IF i.k = "null" THEN UnspecR(st)
         ELSE IF ~IsValidKey(i) THEN ErrR("key", ln, st)
         ELSE LET o == AssocFind(st.heap, st.heap[a.id].v, i)
              IN IF o.k = "NOTFOUND" THEN ErrR("key", ln, st) ELSE OkR(o, st)
    [] OTHER -> ErrR("index", ln, st)

IndexSet(st, a, i, v, ln) ==
  CASE a.k = "arr" /\ i.k = "int" ->
         IF IsNeg(i.v) \/ ~IsSmall(i.v) \/ ToInt(i.v) >= Len(st.heap[a.id].v) THEN ErrR("index", ln, st)
         ELSE OkR(v, SetObj(st, a.id, [st.heap[a.id].v EXCEPT ![ToInt(i.v) + 1] = v]))
    [] a.k = "map" ->
         IF i.k = "null" THEN UnspecR(st)
         ELSE IF ~IsValidKey(i) THEN ErrR("key", ln, st)
         ELSE OkR(v, SetObj(st, a.id, AssocPut(st.heap, st.heap[a.id].v, i, v)))
    [] OTHER -> ErrR("index", ln, st)

\* build a map from evaluated key/value pairs, left to right, later equal keys win
BuildMap(st, kvs, ln) ==
  LET f(acc, kv) == IF acc.s # "ok" THEN acc
                    ELSE IF kv[1].k = "null" THEN [s |-> "unspec", ps |-> acc.ps]
                    ELSE IF ~IsValidKey(kv[1]) THEN [s |-> "err", ps |-> acc.ps]
                    ELSE [s |-> "ok", ps |-> AssocPut(st.heap, acc.ps, kv[1], kv[2])]
  IN FoldLeft(f, [s |-> "ok", ps |-> <<>>], kvs)

\* ln0: the line of the enclosing statement; an expression written over several lines carries, per node, the line of
\* the token the failing operation belongs to (the operator, the '(' of a call, the '[' of an index)
Ev(e, env, st, ln0, d) ==
  LET ln == IF "ln" \in DOMAIN e THEN e.ln ELSE ln0 IN
  CASE e.t = "lit" -> OkR(e.v, st)
    [] e.t = "id" ->
         LET i == LookupB(env, e.n)
         IN IF i = 0 THEN OkR(Bi(e.n), st) ELSE OkR(st.cells[env[i].c], st)
    [] e.t = "un" ->
         LET r == Ev(e.e, env, st, ln, d)
         IN IF r.s # "ok" THEN r ELSE Lift(UnOp(r.st.heap, e.op, r.v), ln, r.st)
    [] e.t = "bin" /\ e.op = "&&" ->
         LET r == Ev(e.l, env, st, ln, d)
         IN IF r.s # "ok" THEN r
            ELSE IF IsFalsey(r.st.heap, r.v) THEN r ELSE Ev(e.r, env, r.st, ln, d)
    [] e.t = "bin" /\ e.op = "||" ->
         LET r == Ev(e.l, env, st, ln, d)
         IN IF r.s # "ok" THEN r
            ELSE IF ~IsFalsey(r.st.heap, r.v) THEN r ELSE Ev(e.r, env, r.st, ln, d)
    [] e.t = "bin" ->
         \* operands left to right, except < and <= whose right operand is evaluated first
         LET rev == e.op \in {"<", "<="}
             r1 == Ev(IF rev THEN e.r ELSE e.l, env, st, ln, d)
         IN IF r1.s # "ok" THEN r1 ELSE
            LET r2 == Ev(IF rev THEN e.l ELSE e.r, env, r1.st, ln, d)
            IN IF r2.s # "ok" THEN r2 ELSE
               LET a == IF rev THEN r2.v ELSE r1.v
                   b == IF rev THEN r1.v ELSE r2.v
               IN IF e.op \in {"==", "!="}
                  THEN LET q == ValEq(r2.st.heap, a, b)
                       IN IF q = "u" THEN UnspecR(r2.st) ELSE OkR(B((q = "t") = (e.op = "==")), r2.st)
                  ELSE LET x == BinOp(e.op, a, b)
                       IN IF x.k = "CONCAT"
                          THEN OkR(ArrRef(NewId(r2.st)),
                                   Alloc(r2.st, [t |-> "arr", v |-> r2.st.heap[a.id].v \o r2.st.heap[b.id].v]))
                          ELSE Lift(x, ln, r2.st)
    [] e.t = "asg" ->
         \* right-hand side first, then the target's sub-expressions
         LET r == Ev(e.e, env, st, ln, d)
         IN IF r.s # "ok" THEN r
            ELSE IF e.tg.t = "id"
                 THEN LET i == LookupB(env, e.tg.n) IN OkR(r.v, SetCell(r.st, env[i].c, r.v))
                 ELSE IF e.tg.t # "idx" THEN UnspecR(r.st)      \* a packet property: Packet.tla's business
                 ELSE LET tl == IF "ln" \in DOMAIN e.tg THEN e.tg.ln ELSE ln
                          ra == Ev(e.tg.a, env, r.st, tl, d)
                      IN IF ra.s # "ok" THEN ra ELSE
                         LET ri == Ev(e.tg.i, env, ra.st, tl, d)
                         IN IF ri.s # "ok" THEN ri ELSE IndexSet(ri.st, ra.v, ri.v, r.v, tl)
    [] e.t = "idx" ->
         LET ra == Ev(e.a, env, st, ln, d)
         IN IF ra.s # "ok" THEN ra ELSE
            LET ri == Ev(e.i, env, ra.st, ln, d)
            IN IF ri.s # "ok" THEN ri ELSE IndexGet(ri.st, ra.v, ri.v, ln)
    [] e.t = "dollar" -> UnspecR(st)   \* $n: the current packet's layers are Packet.tla's business
    [] e.t = "dot" ->     \* property access: only packet objects (not modelled here) have properties
         LET r == Ev(e.e, env, st, ln, d)
         IN IF r.s # "ok" THEN r ELSE ErrR("prop", ln, r.st)
    [] e.t = "arr" ->
         LET rs == EvSeq(e.es, env, st, ln, d)
         IN IF rs.s # "ok" THEN rs.r
            ELSE OkR(ArrRef(NewId(rs.st)), Alloc(rs.st, [t |-> "arr", v |-> rs.vs]))
    [] e.t = "map" ->
         \* key1, value1, key2, value2, ... left to right
         LET flat == FoldLeft(LAMBDA acc, kv : acc \o <<kv[1], kv[2]>>, <<>>, e.kvs)
             rs == EvSeq(flat, env, st, ln, d)
         IN IF rs.s # "ok" THEN rs.r ELSE
            LET kvs == [i \in 1..(Len(rs.vs) \div 2) |-> <<rs.vs[2 * i - 1], rs.vs[2 * i]>>]
                m == BuildMap(rs.st, kvs, ln)
            IN IF m.s = "err" THEN ErrR("key", ln, rs.st)
               ELSE IF m.s = "unspec" THEN UnspecR(rs.st)
               ELSE OkR(MapRef(NewId(rs.st)), Alloc(rs.st, [t |-> "map", v |-> m.ps]))
    [] e.t = "fn" ->
         LET cp == Capture(env, st)
         IN OkR([k |-> "clos", id |-> NewId(cp.st)],
                Alloc(cp.st, [t |-> "clos", ps |-> e.ps, body |-> e.body, env |-> cp.env, self |-> e.n]))
    [] e.t = "call" ->
         LET rf == Ev(e.f, env, st, ln, d)
         IN IF rf.s # "ok" THEN rf ELSE
            LET rs == EvSeq(e.as, env, rf.st, ln, d)
            IN IF rs.s # "ok" THEN rs.r ELSE CallVal(rf.v, rs.vs, rs.st, ln, d)
    [] e.t = "if" ->
         LET rc == Ev(e.c, env, st, ln, d)
         IN IF rc.s # "ok" THEN rc
            ELSE IF ~IsFalsey(rc.st.heap, rc.v) THEN ExBlock(e.th, env, rc.st, ln, d)
            ELSE IF e.el.t = "none" THEN OkR(Null, rc.st)
            ELSE IF e.el.t = "blk" THEN ExBlock(e.el.b, env, rc.st, ln, d)
            ELSE Ev(e.el, env, rc.st, ln, d)
    [] e.t = "match" ->
         LET rc == Ev(e.e, env, st, ln, d)          \* the scrutinee, once
         IN IF rc.s # "ok" THEN rc ELSE EvMatchArms(e.arms, 1, rc.v, env, rc.st, ln, d)

\* pattern test: "t" "f" "u"
PatHolds(h, p, v) ==
  CASE p.t = "pdef" -> "t"
    [] p.t = "plit" -> ValEq(h, v, p.v)
    [] p.t = "prange" ->
         \* "contains" is what the relational operators say where they are defined (the same kind, or an integer /
         \* float mix).  A scrutinee of another kind: left open - except that a byte against an integer range (or
         \* the reverse) whose number lies outside the bounds is contained under no reading of the documentation.
         LET lo == BinOp(">=", v, p.lo)
             hi == BinOp(IF p.incl THEN "<=" ELSE "<", v, p.hi)
         IN IF IsErr(lo) THEN "e"                        \* the bounds cannot be compared with the scrutinee: a runtime error
            ELSE IF IsVal(lo) /\ ~lo.v THEN "f"          \* below the range: the upper bound is not looked at
            ELSE IF IsVal(lo) /\ IsErr(hi) THEN "e"
            ELSE IF IsVal(lo) /\ IsVal(hi) THEN T3(lo.v /\ hi.v)
            ELSE IF {v.k, p.lo.k} = {"int", "byte"}
                    /\ (SCmp(ToW(v), ToW(p.lo)) < 0 \/ SCmp(ToW(v), ToW(p.hi)) > 0) THEN "f"
            ELSE "u"
\* the patterns of one arm in order: [q: "t" | "f" | "u" | "e", ln: line of the failing pattern]
AnyPat(h, ps, v, ln) ==
  LET f(acc, p) == IF acc.q \in {"t", "e"} THEN acc
                   ELSE LET q == PatHolds(h, p, v)
                        IN IF q = "t" THEN [q |-> "t", ln |-> 0]
                           ELSE IF q = "e" THEN (IF acc.q = "u" THEN acc
                                                 ELSE [q |-> "e", ln |-> IF "ln" \in DOMAIN p THEN p.ln ELSE ln])
                           ELSE IF q = "u" \/ acc.q = "u" THEN [q |-> "u", ln |-> 0] ELSE acc
  IN FoldLeft(f, [q |-> "f", ln |-> 0], ps)
EvMatchArms(arms, i, v, env, st, ln, d) ==
  IF i > Len(arms) THEN OkR(Null, st)
  ELSE LET a == AnyPat(st.heap, arms[i].pats, v, ln)
       IN IF a.q = "u" THEN UnspecR(st)
          ELSE IF a.q = "e" THEN ErrR("kinds", a.ln, st)
          ELSE IF a.q = "t" THEN ExBlock(arms[i].body, env, st, ln, d)
          ELSE EvMatchArms(arms, i + 1, v, env, st, ln, d)

CallVal(f, args, st, ln, d) ==
  CASE f.k = "clos" ->
         LET c == st.heap[f.id]
         IN IF Len(args) # Len(c.ps) THEN ErrR("arity", ln, st)
            ELSE IF d >= MaxDepth THEN UnspecR(st)
            ELSE LET \* the function's own name (if any) denotes the running closure
                     \* (the binding also marks everything after it as function-local)
                     st1 == NewCell(st, f)
                     env1 == Append(c.env, [n |-> IF c.self = "" THEN "<self>" ELSE c.self,
                                            c |-> NewCellId(st), g |-> FALSE])
                     bind(acc, i) == [env |-> Append(acc.env, [n |-> c.ps[i], c |-> NewCellId(acc.st), g |-> FALSE]),
                                      st |-> NewCell(acc.st, args[i])]
                     b == FoldLeft(bind, [env |-> env1, st |-> st1], [i \in 1..Len(args) |-> i])
                     r == ExBlock(c.body, b.env, b.st, ln, d + 1)
                 IN IF r.s = "ret" THEN OkR(r.v, r.st) ELSE r
    [] f.k = "builtin" -> LET r == CallBuiltin(f.v, args, st) IN Lift2(r, ln)
    [] OTHER -> ErrR("notfn", ln, st)

\* statements: result [s, v, st, env]; v is the statement's value (expression statements)
XR(r, env) == [s |-> r.s, v |-> r.v, st |-> r.st, env |-> env]
InFn(env) == \E i \in 1..Len(env) : ~env[i].g

ExBlock(stmts, env, st, ln, d) ==
  \* the environment is restored at the end of the block; ln is the line of the enclosing
  \* construct and is superseded by each statement's own line
  LET f(acc, s) == IF acc.s # "ok" THEN acc ELSE Ex(s, acc.env, acc.st, TRUE, d)
      r == FoldLeft(f, [s |-> "ok", v |-> Null, st |-> st, env |-> env], stmts)
      isval == Len(stmts) > 0 /\ stmts[Len(stmts)].t = "expr"
  IN IF r.s = "ok" THEN OkR(IF isval THEN r.v ELSE Null, r.st) ELSE R(r.s, r.v, r.st)

\* a loop: cond = None for `loop`; n counts iterations (fuel is the generator's business)
ExLoop(s, env, st, d, n) ==
  IF n > MaxIter THEN UnspecR(st) ELSE
  LET rc == IF s.t = "loop" THEN OkR(B(TRUE), st) ELSE Ev(s.c, env, st, s.ln, d)
  IN IF rc.s # "ok" THEN rc
     ELSE IF IsFalsey(rc.st.heap, rc.v) THEN OkR(Null, rc.st)
     ELSE LET rb == ExBlock(s.b, env, rc.st, s.ln, d)
          IN CASE rb.s = "ok" -> ExLoop(s, env, rb.st, d, n + 1)
               [] rb.s = "brk" -> IF rb.v.lb = "" \/ rb.v.lb = s.lb THEN OkR(Null, rb.st) ELSE rb
               [] rb.s = "cnt" -> IF rb.v.lb = "" \/ rb.v.lb = s.lb THEN ExLoop(s, env, rb.st, d, n + 1) ELSE rb
               [] OTHER -> rb

Ex(s, env, st, inblock, d) ==
  CASE s.t = "expr" -> XR(Ev(s.e, env, st, s.ln, d), env)
    [] s.t = "let" ->
         \* (a function literal bound by let is known by that name inside its own body: let f = fn(n) { ... f(n - 1) ... })
         LET init == IF s.e.t = "fn" /\ s.e.n = "" THEN [s.e EXCEPT !.n = s.n] ELSE s.e
             r == Ev(init, env, st, s.ln, d)
         IN IF r.s # "ok" THEN XR(r, env)
            ELSE [s |-> "ok", v |-> Null, st |-> NewCell(r.st, r.v),
                  env |-> Append(env, [n |-> s.n, c |-> NewCellId(r.st), g |-> ~InFn(env)])]
    [] s.t = "fndef" ->
         LET r == Ev([t |-> "fn", n |-> s.n, ps |-> s.ps, body |-> s.body], env, st, s.ln, d)
         IN [s |-> "ok", v |-> Null, st |-> NewCell(r.st, r.v),
             env |-> Append(env, [n |-> s.n, c |-> NewCellId(r.st), g |-> ~InFn(env)])]
    [] s.t = "block" -> LET r == ExBlock(s.b, env, st, s.ln, d) IN XR(R(r.s, IF r.s = "ok" THEN Null ELSE r.v, r.st), env)
    [] s.t \in {"while", "loop"} -> XR(ExLoop(s, env, st, d, 0), env)
    [] s.t = "filter" -> XR(OkR(Null, st), env)      \* filters run in the packet loop (FilterMode), not here
    [] s.t = "break" -> XR(R("brk", [lb |-> s.lb], st), env)
    [] s.t = "continue" -> XR(R("cnt", [lb |-> s.lb], st), env)
    [] s.t = "ret" ->
         IF s.e.t = "none" THEN XR(R("ret", Null, st), env)
         ELSE LET r == Ev(s.e, env, st, s.ln, d) IN IF r.s # "ok" THEN XR(r, env) ELSE XR(R("ret", r.v, r.st), env)

\* ---------------------------- static rules ---------------------------------
(* What the compiler must reject: a use of a name with no visible binding,     *)
(* break / continue outside a loop or naming an unknown label, return outside  *)
(* a function body, match arms whose patterns differ in type, and an           *)
(* assignment whose target is not a variable, an element or a property         *)
(* ("lvalue": null = 1, f() = 1, [1] = 2, $1 = 2 ... have nowhere to store).    *)
PredefNames == BuiltinNames \cup {"argv", "NP", "PL", "WL", "TSS", "TSU", "stdin", "stdout", "stderr"}

RECURSIVE SE(_, _), SS(_, _), SBlock(_, _)
\* sc = [names, user (the names the program itself has bound), loops (set of labels incl. "" when inside a loop), infn]
Bind(sc, nms) == [sc EXCEPT !.names = @ \cup nms, !.user = @ \cup nms]
UnionSeq(f(_), xs) == FoldLeft(LAMBDA acc, x : acc \cup f(x), {}, xs)
PatKind(p) == CASE p.t = "pdef" -> "any" [] p.t = "plit" -> p.v.k [] p.t = "prange" -> p.lo.k
SE(e, sc) ==
  CASE e.t = "lit" -> {}
    [] e.t = "id" -> IF e.n \in sc.names THEN {} ELSE {"undef"}
    [] e.t = "un" -> SE(e.e, sc)
    [] e.t = "bin" -> SE(e.l, sc) \cup SE(e.r, sc)
    [] e.t = "asg" -> SE(e.e, sc) \cup SE(e.tg, sc)
                      \cup (IF e.tg.t \in {"idx", "dot"} \/ (e.tg.t = "id" /\ (e.tg.n \in sc.user \/ e.tg.n \notin sc.names))
                            THEN {} ELSE {"lvalue"})       \* (a predefined name is not a variable either)
    [] e.t = "idx" -> SE(e.a, sc) \cup SE(e.i, sc)
    [] e.t = "dollar" -> {}
    [] e.t = "dot" -> SE(e.e, sc)
    [] e.t = "arr" -> UnionSeq(LAMBDA x : SE(x, sc), e.es)
    [] e.t = "map" -> UnionSeq(LAMBDA kv : SE(kv[1], sc) \cup SE(kv[2], sc), e.kvs)
    [] e.t = "call" -> SE(e.f, sc) \cup UnionSeq(LAMBDA x : SE(x, sc), e.as)
    [] e.t = "fn" ->
         SBlock(e.body, [Bind(sc, {e.ps[i] : i \in 1..Len(e.ps)} \cup (IF e.n = "" THEN {} ELSE {e.n}))
                           EXCEPT !.loops = {}, !.infn = TRUE])
    [] e.t = "if" -> SE(e.c, sc) \cup SBlock(e.th, sc)
                     \cup (IF e.el.t = "none" THEN {} ELSE IF e.el.t = "blk" THEN SBlock(e.el.b, sc) ELSE SE(e.el, sc))
    [] e.t = "match" ->
         LET kinds == UnionSeq(LAMBDA a : UnionSeq(LAMBDA p : {PatKind(p)}, a.pats), e.arms) \ {"any"}
         IN SE(e.e, sc) \cup UnionSeq(LAMBDA a : SBlock(a.body, sc), e.arms)
            \cup (IF Cardinality(kinds) > 1 THEN {"matchtypes"} ELSE {})
\* statements of a block in order; a let extends the names for the statements after it
SBlock(stmts, sc) ==
  LET f(acc, s) == LET r == SS(s, acc.sc)
                   IN [sc |-> Bind(acc.sc, r.def), faults |-> acc.faults \cup r.faults]
  IN FoldLeft(f, [sc |-> sc, faults |-> {}], stmts).faults
SS(s, sc) ==
  CASE s.t = "expr" -> [def |-> {}, faults |-> SE(s.e, sc)]
    [] s.t = "let" -> [def |-> {s.n}, faults |-> SE(s.e, Bind(sc, {s.n}))]
    [] s.t = "fndef" -> [def |-> {s.n}, faults |-> SE([t |-> "fn", n |-> s.n, ps |-> s.ps, body |-> s.body],
                                                        Bind(sc, {s.n}))]
    [] s.t = "block" -> [def |-> {}, faults |-> SBlock(s.b, sc)]
    [] s.t = "while" -> [def |-> {}, faults |-> SE(s.c, [sc EXCEPT !.loops = sc.loops \cup {"", s.lb}])
                                                  \cup SBlock(s.b, [sc EXCEPT !.loops = sc.loops \cup {"", s.lb}])]
    [] s.t = "loop" -> [def |-> {}, faults |-> SBlock(s.b, [sc EXCEPT !.loops = sc.loops \cup {"", s.lb}])]
    [] s.t \in {"break", "continue"} ->
         [def |-> {}, faults |-> IF sc.loops = {} THEN {"break"} ELSE IF s.lb \notin sc.loops THEN {"label"} ELSE {}]
    [] s.t = "filter" ->     \* @ pattern { action }: the action is not a function body
         [def |-> {}, faults |-> (IF s.pat.t = "none" THEN {} ELSE SE(s.pat, sc))
                                 \cup SBlock(s.act, [sc EXCEPT !.loops = {}, !.infn = FALSE])]
    [] s.t = "ret" -> [def |-> {}, faults |-> (IF sc.infn THEN {} ELSE {"return"})
                                               \cup (IF s.e.t = "none" THEN {} ELSE SE(s.e, sc))]
StaticFaults(prog) == SBlock(prog, [names |-> PredefNames, user |-> {}, loops |-> {}, infn |-> FALSE])

RECURSIVE Reify(_, _, _)
\* deep copy of a value out of the heap (fuel n bounds cyclic structures)
Reify(h, v, n) ==
  CASE v.k = "arr" -> IF n = 0 THEN [k |-> "deep"] ELSE
                      [k |-> "arr", v |-> [i \in 1..Len(h[v.id].v) |-> Reify(h, h[v.id].v[i], n - 1)]]
    [] v.k = "map" -> IF n = 0 THEN [k |-> "deep"] ELSE
                      [k |-> "map", v |-> [i \in 1..Len(h[v.id].v) |->
                                              <<Reify(h, h[v.id].v[i][1], n - 1), Reify(h, h[v.id].v[i][2], n - 1)>>]]
    [] v.k = "clos" -> [k |-> "fn"]
    [] OTHER -> v


\* ------------------------------ incremental execution (REPL, C23) -----------
\* the top-level state carried from one accepted line to the next
TopState0 == [st |-> EmptyStore, env |-> <<>>]
NamesOf(env) == {env[i].n : i \in 1..Len(env)}
\* static faults of a line in the context of the bindings made so far
LineFaults(ts, stmts) == SBlock(stmts, [names |-> PredefNames \cup NamesOf(ts.env), user |-> NamesOf(ts.env), loops |-> {}, infn |-> FALSE])
\* run the statements of a line from a top-level state: [s, v, st, env] (s = "ok" | "err" | "unspec")
RunStmts(ts, stmts) ==
  LET f(acc, s) == IF acc.s # "ok" THEN acc ELSE Ex(s, acc.env, acc.st, FALSE, 0)
  IN FoldLeft(f, [s |-> "ok", v |-> Null, st |-> ts.st, env |-> ts.env], stmts)
ObsOf(ts) == LET oi == LookupB(ts.env, "OBS")
             IN IF oi = 0 THEN [k |-> "none"] ELSE Reify(ts.st.heap, ts.st.cells[ts.env[oi].c], 8)

\* ------------------------------ whole programs -----------------------------
\* Run: [how, obs, final, err]
\*   how: "compile" | "ok" | "rterror" | "unspec"
Run(prog) ==
  LET faults == StaticFaults(prog)
  IN IF faults # {} THEN [how |-> "compile", faults |-> faults]
     ELSE
     LET f(acc, s) == IF acc.s # "ok" THEN acc ELSE Ex(s, acc.env, acc.st, FALSE, 0)
         r == FoldLeft(f, [s |-> "ok", v |-> Null, st |-> EmptyStore, env |-> <<>>], prog)
         oi == LookupB(r.env, "OBS")
         obs == IF oi = 0 THEN [k |-> "none"] ELSE Reify(r.st.heap, r.st.cells[r.env[oi].c], 8)
         lastexpr == Len(prog) > 0 /\ prog[Len(prog)].t = "expr"
     IN CASE r.s = "ok" -> [how |-> "ok", obs |-> obs,
                             final |-> IF lastexpr THEN Reify(r.st.heap, r.v, 8) ELSE [k |-> "any"]]
          [] r.s = "err" -> [how |-> "rterror", obs |-> obs, err |-> r.v]
          [] OTHER -> [how |-> "unspec", obs |-> obs]
=============================================================================
