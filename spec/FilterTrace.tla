------------------------------ MODULE FilterTrace ------------------------------
(***************************************************************************)
(* Trace validation for C20: one record = one run of the real binary in    *)
(* filter mode: the configuration (program in FilterMode's vocabulary,     *)
(* input packets, input global header, -s) and what was observed: the      *)
(* probe lines on stderr in order, the global header and the records found *)
(* on stdout (or, with -s, that stdout carried no pcap bytes).             *)
(* The run is accepted iff it equals the run of the FilterMode machine.    *)
(***************************************************************************)
EXTENDS FilterMode, Json, IOUtils

CONSTANT NChunks
\* parsed once at start-up into a TLC register (TLC re-evaluates a definition that reads a file on every reference)
ASSUME TLCSet(7, ndJsonDeserialize(IOEnv.TRACE))
Recs == TLCGet(7)
Verdict(rec) ==
  LET want == Run(rec.cfg)
      okLog == rec.log = want.log
      okHdr == rec.outHdr = want.outHdr
      okOut == rec.out = want.out
  IN [id |-> rec.id, v |-> IF okLog /\ okHdr /\ okOut /\ want.phase = "done" THEN "ok" ELSE "bad",
      why |-> IF ~okLog THEN "events" ELSE IF ~okHdr THEN "global-header" ELSE IF ~okOut THEN "records" ELSE "",
      want |-> IF okLog /\ okHdr /\ okOut THEN <<>> ELSE <<want.log, want.outHdr, Len(want.out)>>]
VARIABLE pc
Init == pc = <<"root", 0>>
Next == \/ /\ pc[1] = "root" /\ \E c \in 0..(NChunks - 1) : pc' = <<"chunk", c>>
        \/ /\ pc[1] = "chunk"
           /\ LET idxs == SetToSortSeq({i \in 1..Len(Recs) : i % NChunks = pc[2]}, <)
                  vs == [n \in 1..Len(idxs) |-> Verdict(Recs[idxs[n]])]
              IN ndJsonSerialize(IOEnv.OUTDIR \o "/v" \o ToString(pc[2]) \o ".ndjson", vs)
           /\ pc' = <<"done", pc[2]>>
Spec == Init /\ [][Next]_pc
=============================================================================
