SPECIFICATION Spec
INVARIANT Inv
CHECK_DEADLOCK FALSE
