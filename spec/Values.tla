------------------------------- MODULE Values -------------------------------
(***************************************************************************)
(* The value universe of p2sh and the typing / numeric model of its        *)
(* operators (properties C06, C09, C10).                                   *)
(*                                                                         *)
(* A value is a record with a kind tag k:                                  *)
(*   null, bool(v), int(v = Int64 word), byte(v), char(v = code point),    *)
(*   str(v = code points), float(c, m, e), arr(id), map(id), clos(id),     *)
(*   builtin(v = name), eobj (error object), file                          *)
(* Floats are modelled exactly on a finite domain: c = "nan" | "pinf" |    *)
(* "ninf" | "nzero" | "dy" (the dyadic m / 2^e, |m| <= 2^20, e <= 8, m odd *)
(* unless e = 0) | "oom" (a double outside the model: never compared).     *)
(* Arrays, maps and closures live in a heap (a sequence of objects);       *)
(* operators that must look inside them take the heap h.                   *)
(***************************************************************************)
EXTENDS Int64

Null == [k |-> "null"]
B(b) == [k |-> "bool", v |-> b]
I(w) == [k |-> "int", v |-> w]
IntV(n) == [k |-> "int", v |-> FromInt(n)]
By(n) == [k |-> "byte", v |-> n]
Ch(n) == [k |-> "char", v |-> n]
S(cps) == [k |-> "str", v |-> cps]
F(c, m, e) == [k |-> "float", c |-> c, m |-> m, e |-> e]
NaN == F("nan", 0, 0)   PInf == F("pinf", 0, 0)   NInf == F("ninf", 0, 0)
NZero == F("nzero", 0, 0)   PZero == F("dy", 0, 0)   OOM == F("oom", 0, 0)
ArrRef(id) == [k |-> "arr", id |-> id]
MapRef(id) == [k |-> "map", id |-> id]
Bi(name) == [k |-> "builtin", v |-> name]

\* Results that are not values
Err(c) == [k |-> "ERR", c |-> c]          \* runtime error of class c
Unspec == [k |-> "UNSPEC"]                 \* the property does not settle this case
IsErr(x) == x.k = "ERR"
IsUnspec(x) == x.k = "UNSPEC"
IsVal(x) == x.k \notin {"ERR", "UNSPEC"}

\* ------------------------------- floats ----------------------------------
MMAX == 1048576     \* 2^20
EMAX == 8
AbsI(n) == IF n < 0 THEN -n ELSE n
RECURSIVE NormDy(_, _)
NormDy(m, e) == IF e > 0 /\ m % 2 = 0 THEN NormDy(m \div 2, e - 1) ELSE <<m, e>>
\* the float with value m / 2^e (e >= 0), or OOM when outside the model
Dy(m, e) == LET n == NormDy(m, e)
            IN IF AbsI(n[1]) > MMAX \/ n[2] > EMAX THEN OOM ELSE F("dy", n[1], n[2])
P2(n) == CASE n = 0 -> 1 [] n = 1 -> 2 [] n = 2 -> 4 [] n = 3 -> 8 [] n = 4 -> 16 [] n = 5 -> 32
           [] n = 6 -> 64 [] n = 7 -> 128 [] n = 8 -> 256 [] OTHER -> 512
IsNaN(x) == x.c = "nan"
IsOOM(x) == x.c = "oom"
IsFZero(x) == x.c = "nzero" \/ (x.c = "dy" /\ x.m = 0)
IsInf(x) == x.c \in {"pinf", "ninf"}
FNegSign(x) == x.c \in {"ninf", "nzero"} \/ (x.c = "dy" /\ x.m < 0)   \* sign bit (not NaN/oom)
SignedZero(neg) == IF neg THEN NZero ELSE PZero
SignedInf(neg) == IF neg THEN NInf ELSE PInf

FNeg(x) == CASE x.c = "nan" -> NaN [] x.c = "oom" -> OOM
             [] x.c = "pinf" -> NInf [] x.c = "ninf" -> PInf
             [] x.c = "nzero" -> PZero
             [] x.c = "dy" -> IF x.m = 0 THEN NZero ELSE F("dy", -x.m, x.e)

\* finite non-zero-or-zero dyadics brought to a common exponent
Align(x, y) == LET e == IF x.e > y.e THEN x.e ELSE y.e
               IN [e |-> e, a |-> x.m * P2(e - x.e), b |-> y.m * P2(e - y.e)]
AsDy(x) == IF x.c = "nzero" THEN PZero ELSE x     \* for magnitude arithmetic

FAdd(x, y) ==
  CASE IsNaN(x) \/ IsNaN(y) -> NaN
    [] IsOOM(x) \/ IsOOM(y) -> OOM
    [] IsInf(x) /\ IsInf(y) -> IF x.c = y.c THEN x ELSE NaN
    [] IsInf(x) -> x
    [] IsInf(y) -> y
    [] IsFZero(x) /\ IsFZero(y) -> IF x.c = "nzero" /\ y.c = "nzero" THEN NZero ELSE PZero
    [] IsFZero(x) -> y
    [] IsFZero(y) -> x
    [] OTHER -> LET al == Align(x, y) IN Dy(al.a + al.b, al.e)
FSub(x, y) == FAdd(x, FNeg(y))

FMul(x, y) ==
  CASE IsNaN(x) \/ IsNaN(y) -> NaN
    [] IsOOM(x) \/ IsOOM(y) -> OOM
    [] (IsInf(x) /\ IsFZero(y)) \/ (IsFZero(x) /\ IsInf(y)) -> NaN
    [] IsInf(x) \/ IsInf(y) -> SignedInf(FNegSign(x) # FNegSign(y))
    [] IsFZero(x) \/ IsFZero(y) -> SignedZero(FNegSign(x) # FNegSign(y))
    [] AbsI(x.m) >= 32768 \/ AbsI(y.m) >= 32768 -> OOM
    [] OTHER -> IF x.e + y.e > 16 THEN OOM ELSE
                LET n == NormDy(x.m * y.m, x.e + y.e)
                IN IF AbsI(n[1]) > MMAX \/ n[2] > EMAX THEN OOM ELSE F("dy", n[1], n[2])

\* odd part and power of two of a non-zero integer: m = o * 2^k
RECURSIVE OddPart(_, _)
OddPart(m, k) == IF m % 2 = 0 THEN OddPart(m \div 2, k + 1) ELSE <<m, k>>

\* IEEE division; the language turns a zero divisor into an error before this is used
FDiv(x, y) ==
  CASE IsNaN(x) \/ IsNaN(y) -> NaN
    [] IsOOM(x) \/ IsOOM(y) -> OOM
    [] IsInf(x) /\ IsInf(y) -> NaN
    [] IsInf(x) -> SignedInf(FNegSign(x) # FNegSign(y))
    [] IsInf(y) -> SignedZero(FNegSign(x) # FNegSign(y))
    [] IsFZero(y) -> IF IsFZero(x) THEN NaN ELSE SignedInf(FNegSign(x) # FNegSign(y))
    [] IsFZero(x) -> SignedZero(FNegSign(x) # FNegSign(y))
    [] OTHER ->
        LET op == OddPart(AbsI(y.m), 0)
            o == op[1]   kk == op[2]
            sgn == IF y.m < 0 THEN -1 ELSE 1
        IN IF AbsI(x.m) % o # 0 THEN OOM
           ELSE LET q == sgn * (IF x.m < 0 THEN -(AbsI(x.m) \div o) ELSE x.m \div o)
                    ee == x.e - y.e + kk
                IN IF ee >= 0 THEN (IF ee > 16 THEN OOM ELSE Dy(q, ee))
                   ELSE IF -ee > 8 \/ AbsI(q) > 4096 THEN OOM ELSE Dy(q * P2(-ee), 0)

\* IEEE remainder with the sign of the dividend (fmod); zero divisor handled by the caller
FRem(x, y) ==
  CASE IsNaN(x) \/ IsNaN(y) -> NaN
    [] IsOOM(x) \/ IsOOM(y) -> OOM
    [] IsInf(x) -> NaN
    [] IsInf(y) -> x
    [] IsFZero(y) -> NaN
    [] IsFZero(x) -> x
    [] OTHER -> LET al == Align(x, y)
                    r == AbsI(al.a) % AbsI(al.b)
                IN IF r = 0 THEN SignedZero(x.m < 0)
                   ELSE Dy(IF x.m < 0 THEN -r ELSE r, al.e)

\* comparison of two floats: "lt" "eq" "gt" "un" (unordered) "oom"
FCmp(x, y) ==
  CASE IsNaN(x) \/ IsNaN(y) -> "un"
    [] IsOOM(x) \/ IsOOM(y) -> "oom"
    [] x.c = "pinf" -> IF y.c = "pinf" THEN "eq" ELSE "gt"
    [] x.c = "ninf" -> IF y.c = "ninf" THEN "eq" ELSE "lt"
    [] y.c = "pinf" -> "lt"
    [] y.c = "ninf" -> "gt"
    [] OTHER -> LET al == Align(AsDy(x), AsDy(y))
                IN IF al.a < al.b THEN "lt" ELSE IF al.a > al.b THEN "gt" ELSE "eq"

\* conversion of an integer word / a byte to a float
IntToF(w) == IF IsSmall(w) /\ AbsI(ToInt(w)) <= MMAX THEN F("dy", ToInt(w), 0) ELSE OOM
ByteToF(n) == F("dy", n, 0)

\* ------------------------------ kinds ------------------------------------
IsNum(a) == a.k \in {"int", "float", "byte"}
ToF(a) == CASE a.k = "int" -> IntToF(a.v) [] a.k = "byte" -> ByteToF(a.v) [] a.k = "float" -> a
ToW(a) == CASE a.k = "int" -> a.v [] a.k = "byte" -> FromNat(a.v)

IsZeroNum(a) == CASE a.k = "int" -> a.v = Zero [] a.k = "byte" -> a.v = 0
                  [] a.k = "float" -> IsFZero(a) [] OTHER -> FALSE

\* ---------------------------- sequences ----------------------------------
\* lexicographic comparison of two sequences of naturals: -1, 0, 1
SeqCmp(s, t) ==
  LET n == IF Len(s) < Len(t) THEN Len(s) ELSE Len(t)
      f(acc, i) == IF acc # 0 THEN acc ELSE IF s[i] < t[i] THEN -1 ELSE IF s[i] > t[i] THEN 1 ELSE 0
      c == FoldLeft(f, 0, [i \in 1..n |-> i])
  IN IF c # 0 THEN c ELSE IF Len(s) < Len(t) THEN -1 ELSE IF Len(s) > Len(t) THEN 1 ELSE 0

RECURSIVE Repeat(_, _)
Repeat(s, n) == IF n <= 0 THEN <<>> ELSE s \o Repeat(s, n - 1)

\* ---------------------------- equality -----------------------------------
(* ValEq yields "t", "f" or "u" (unspecified: function values; a byte against *)
(* an integer or float; a double outside the float model).                    *)
And3(x, y) == IF x = "f" \/ y = "f" THEN "f" ELSE IF x = "u" \/ y = "u" THEN "u" ELSE "t"
T3(b) == IF b THEN "t" ELSE "f"

RECURSIVE ValEq(_, _, _)
SeqEq(h, s, t) ==
  IF Len(s) # Len(t) THEN "f"
  ELSE LET f(acc, i) == IF acc = "f" THEN "f" ELSE And3(acc, ValEq(h, s[i], t[i]))
       IN FoldLeft(f, "t", [i \in 1..Len(s) |-> i])
\* value stored under a key equal to key in an association list, or the marker NotFound
NotFound == [k |-> "NOTFOUND"]
AssocFind(h, prs, key) ==
  LET f(acc, i) == IF ValEq(h, prs[i][1], key) = "t" THEN prs[i][2] ELSE acc
  IN FoldLeft(f, NotFound, [i \in 1..Len(prs) |-> i])
MapEq(h, p, q) ==
  IF Len(p) # Len(q) THEN "f"
  ELSE LET f(acc, i) == IF acc = "f" THEN "f"
                        ELSE LET o == AssocFind(h, q, p[i][1])
                             IN IF o.k = "NOTFOUND" THEN "f" ELSE And3(acc, ValEq(h, p[i][2], o))
       IN FoldLeft(f, "t", [i \in 1..Len(p) |-> i])
ValEq(h, a, b) ==
  CASE a.k \in {"any", "anystr"} \/ b.k \in {"any", "anystr"} -> "u"
    [] a.k = "float" /\ b.k = "float" ->
         LET c == FCmp(a, b) IN IF c = "oom" THEN "u" ELSE T3(c = "eq")
    [] a.k = "int" /\ b.k = "float" ->
         LET c == FCmp(IntToF(a.v), b) IN IF c = "oom" THEN "u" ELSE T3(c = "eq")
    [] a.k = "float" /\ b.k = "int" ->
         LET c == FCmp(a, IntToF(b.v)) IN IF c = "oom" THEN "u" ELSE T3(c = "eq")
    [] a.k = "byte" /\ b.k \in {"int", "float"} -> "u"
    [] b.k = "byte" /\ a.k \in {"int", "float"} -> "u"
    [] a.k # b.k -> "f"
    [] a.k = "null" -> "t"
    [] a.k \in {"bool", "int", "byte", "char", "str", "builtin"} -> T3(a.v = b.v)
    [] a.k = "arr" -> IF a.id = b.id THEN "t" ELSE SeqEq(h, h[a.id].v, h[b.id].v)
    [] a.k = "map" -> IF a.id = b.id THEN "t" ELSE MapEq(h, h[a.id].v, h[b.id].v)
    [] a.k = "clos" -> "u"
    [] OTHER -> "u"

\* --------------------------- truthiness (C06) ------------------------------
\* The documented table, row by row (docs/language/operators.md, "Truthiness").
IsFalsey(h, a) ==
  CASE a.k = "bool"  -> a.v = FALSE          \* false
    [] a.k = "int"   -> a.v = Zero            \* 0
    [] a.k = "null"  -> TRUE                  \* null
    [] a.k = "float" -> IsFZero(a)            \* 0.0
    [] a.k = "char"  -> a.v = 0               \* '\0'
    [] a.k = "byte"  -> a.v = 0               \* b'\0'
    [] a.k = "str"   -> a.v = <<>>            \* ""
    [] a.k = "arr"   -> h[a.id].v = <<>>      \* []
    [] a.k = "map"   -> h[a.id].v = <<>>      \* map {}
    [] OTHER -> FALSE                         \* everything else is truthy

\* map keys (docs/language/data-model.md); null is accepted by the implementation
\* and not listed by the document: it is left unspecified by the callers.
IsValidKey(a) == a.k \in {"int", "float", "char", "byte", "str", "bool", "builtin", "arr"}

\* --------------------------- operators (C09) -------------------------------
Arith == {"+", "-", "*", "/", "%"}
Rel == {"<", ">", "<=", ">="}
Bitw == {"&", "|", "^", "<<", ">>"}

CmpHolds(op, c) ==   \* c in -1,0,1
  CASE op = "<" -> c < 0 [] op = ">" -> c > 0 [] op = "<=" -> c <= 0 [] op = ">=" -> c >= 0
FCmpHolds(op, c) ==  \* c in lt eq gt un
  CASE c = "un" -> FALSE
    [] op = "<" -> c = "lt" [] op = ">" -> c = "gt"
    [] op = "<=" -> c \in {"lt", "eq"} [] op = ">=" -> c \in {"gt", "eq"}

IntArith(op, a, b) ==
  CASE op = "+" -> I(Add(a, b)) [] op = "-" -> I(Sub(a, b)) [] op = "*" -> I(Mul(a, b))
    [] op = "/" -> IF b = Zero THEN Err("div0") ELSE I(SDiv(a, b))
    [] op = "%" -> IF b = Zero THEN Err("div0") ELSE I(SRem(a, b))
ByteArith(op, a, b) ==
  CASE op = "+" -> By((a + b) % 256) [] op = "-" -> By((a + 256 - b) % 256)
    [] op = "*" -> By((a * b) % 256)
    [] op = "/" -> IF b = 0 THEN Err("div0") ELSE By(a \div b)
    [] op = "%" -> IF b = 0 THEN Err("div0") ELSE By(a % b)
FloatArith(op, x, y) ==
  CASE op = "+" -> FAdd(x, y) [] op = "-" -> FSub(x, y) [] op = "*" -> FMul(x, y)
    [] op = "/" -> IF IsFZero(y) THEN Err("div0") ELSE FDiv(x, y)
    [] op = "%" -> IF IsFZero(y) THEN Err("div0") ELSE FRem(x, y)
IntBitw(op, a, b) ==
  CASE op = "&" -> I(BAnd(a, b)) [] op = "|" -> I(BOr(a, b)) [] op = "^" -> I(BXor(a, b))
    [] op = "<<" -> I(Shl(a, b)) [] op = ">>" -> I(Shr(a, b))

\* result of a binary operator other than && || == != ; "CONCAT" asks the caller to
\* allocate the concatenation of two arrays
Concat == [k |-> "CONCAT"]
Vague(a) == a.k \in {"any", "anystr"}     \* a value the documentation does not pin down
BinOp(op, a, b) ==
  CASE Vague(a) \/ Vague(b) -> Unspec
    [] op \in Arith /\ a.k = "int" /\ b.k = "int" -> IntArith(op, a.v, b.v)
    [] op \in Arith /\ a.k = "byte" /\ b.k = "byte" -> ByteArith(op, a.v, b.v)
    [] op \in Arith /\ {a.k, b.k} = {"int", "byte"} -> IntArith(op, ToW(a), ToW(b))
    [] op \in Arith /\ IsNum(a) /\ IsNum(b) (* some float *) ->
         IF op \in {"/", "%"} /\ IsZeroNum(b) THEN Err("div0")
         ELSE IF IsOOM(ToF(a)) \/ IsOOM(ToF(b)) THEN OOM
         ELSE FloatArith(op, ToF(a), ToF(b))
    [] op \in Rel /\ a.k = "int" /\ b.k = "int" -> B(CmpHolds(op, SCmp(a.v, b.v)))
    [] op \in Rel /\ a.k = "byte" /\ b.k = "byte" ->
         B(CmpHolds(op, IF a.v < b.v THEN -1 ELSE IF a.v > b.v THEN 1 ELSE 0))
    [] op \in Rel /\ IsNum(a) /\ IsNum(b) /\ "byte" \in {a.k, b.k} -> Unspec
    [] op \in Rel /\ IsNum(a) /\ IsNum(b) (* int/float, float/float *) ->
         LET c == FCmp(ToF(a), ToF(b)) IN IF c = "oom" THEN Unspec ELSE B(FCmpHolds(op, c))
    [] op \in Rel /\ a.k = "str" /\ b.k = "str" -> B(CmpHolds(op, SeqCmp(a.v, b.v)))
    [] op \in Rel /\ a.k = "char" /\ b.k = "char" ->
         B(CmpHolds(op, IF a.v < b.v THEN -1 ELSE IF a.v > b.v THEN 1 ELSE 0))
    [] op \in Bitw /\ a.k = "int" /\ b.k = "int" -> IntBitw(op, a.v, b.v)
    [] op \in Bitw /\ a.k = "byte" /\ b.k = "byte" -> Unspec
    [] op = "+" /\ a.k = "str" /\ b.k = "str" -> S(a.v \o b.v)
    [] op = "+" /\ a.k = "char" /\ b.k = "char" -> S(<<a.v, b.v>>)
    [] op = "+" /\ a.k = "arr" /\ b.k = "arr" -> Concat
    [] op = "*" /\ a.k = "str" /\ b.k = "int" ->
         IF IsNeg(b.v) THEN Err("kinds") ELSE IF ~IsSmall(b.v) THEN Unspec ELSE S(Repeat(a.v, ToInt(b.v)))
    [] op = "*" /\ a.k = "int" /\ b.k = "str" ->
         IF IsNeg(a.v) THEN Err("kinds") ELSE IF ~IsSmall(a.v) THEN Unspec ELSE S(Repeat(b.v, ToInt(a.v)))
    [] OTHER -> Err("kinds")

UnOp(h, op, a) ==
  CASE a.k \in {"any", "anystr"} -> Unspec
    [] op = "!" -> B(IsFalsey(h, a))
    [] op = "-" /\ a.k = "int" -> I(Neg(a.v))
    [] op = "-" /\ a.k = "float" -> FNeg(a)
    [] op = "-" /\ a.k = "byte" -> Unspec
    [] op = "~" /\ a.k = "int" -> I(BNot(a.v))
    [] op = "~" /\ a.k = "byte" -> Unspec
    [] OTHER -> Err("kinds")
=============================================================================
