----------------------------- MODULE MapEqTrace -----------------------------
(***************************************************************************)
(* C10, the relation itself: whatever == says about two valid keys, the    *)
(* map must say the same.  A record is one run of the real interpreter on  *)
(*   m[k1] = 1;  e = (k1 == k2);  c = contains(m, k2);                     *)
(*   o = insert(m, k2, 2);  n = len(m);  g = get(m, k1);  x = m[k2]        *)
(* with what it observed.  The record is accepted iff the observations are *)
(* those of "same entry" when e is true and of "two entries" when e is     *)
(* false - for every pair of keys, including pairs whose equality the      *)
(* documentation does not settle (a byte against a number, ...).           *)
(***************************************************************************)
EXTENDS Integers, Sequences, TLC, Json, IOUtils

ASSUME TLCSet(7, ndJsonDeserialize(IOEnv.TRACE))
Recs == TLCGet(7)

\* rec.obs = <<e, c, o, n, g, x>> as small values: TRUE / FALSE, integers, "null"
Verdict(rec) ==
  LET ob == rec.obs
      same == ob[1]
      good == /\ Len(ob) = 6
              /\ ob[1] \in BOOLEAN
              /\ ob[2] = same                                   \* contains(m, k2)
              /\ ob[3] = (IF same THEN 1 ELSE "null")           \* insert returns the value it replaced
              /\ ob[4] = (IF same THEN 1 ELSE 2)                \* number of entries
              /\ ob[5] = (IF same THEN 2 ELSE 1)                \* looking up k1 sees the latest write under an equal key
              /\ ob[6] = 2
  IN [id |-> rec.id, v |-> IF rec.how = "ok" /\ good THEN "ok" ELSE "bad"]

VARIABLE pc
Init == pc = "run"
Next == /\ pc = "run"
        /\ ndJsonSerialize(IOEnv.OUTDIR \o "/v0.ndjson", [i \in 1..Len(Recs) |-> Verdict(Recs[i])])
        /\ pc' = "done"
Spec == Init /\ [][Next]_pc
=============================================================================
