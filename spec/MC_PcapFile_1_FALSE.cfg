SPECIFICATION Spec
CONSTANTS
 NRecs = 1
 Complete <- MCComplete
 Damaged = FALSE
 MaxCalls = 6
 MaxN = 3
INVARIANTS TypeOK PrefixInOrder ExactlyOnce NothingLost
CHECK_DEADLOCK FALSE
