---------------------------------- MODULE Cli ----------------------------------
(***************************************************************************)
(* Invocation modes (C24).  The same program text can be run from a script *)
(* file, with -c, or from a script file whose first line is a shebang.     *)
(*   Argv(mode, path, args)   what the program sees as argv                *)
(*   Echo(run)                what -c prints in addition: the value of the *)
(*                            final expression statement when it is not    *)
(*                            null (decided with the reference semantics)  *)
(* A trace record holds the program (abstract syntax), the argument vector *)
(* and what the three real runs printed; it is accepted iff                *)
(*   stdout(-c) = stdout(file) \o Echo,   stderr(-c) = stderr(file),        *)
(*   stdout(shebang) = stdout(file), stderr(shebang) = stderr(file) with   *)
(*   every reported line number one higher,                                *)
(*   argv shown = Argv(mode, ...) in each mode.                            *)
(***************************************************************************)
EXTENDS RefSem, Json, IOUtils

CONSTANT NChunks
Argv(mode, path, args) == IF mode = "cmd" THEN args ELSE <<path>> \o args

\* what -c adds to stdout: [k |-> "none"] | [k |-> "text", v |-> code points of the line] | [k |-> "line"] (some one line)
Echo(prog) ==
  LET r == Run(prog)
  IN IF r.how = "compile" THEN [k |-> "none"]
     ELSE IF r.how = "rterror" THEN [k |-> "none"]       \* the final expression statement has no value: nothing is added
     ELSE IF r.how # "ok" THEN [k |-> "unspec"]
     ELSE IF Len(prog) = 0 \/ prog[Len(prog)].t # "expr" THEN [k |-> "unspec-or-none"]
     ELSE CASE r.final.k = "null" -> [k |-> "none"]
            [] r.final.k = "int" -> [k |-> "text", v |-> ToDecimal(r.final.v) \o <<10>>]
            [] r.final.k = "bool" -> [k |-> "text", v |-> (IF r.final.v THEN <<116, 114, 117, 101>> ELSE <<102, 97, 108, 115, 101>>) \o <<10>>]
            [] OTHER -> [k |-> "line"]

IsOneLine(s) == Len(s) >= 1 /\ s[Len(s)] = 10 /\ \A i \in 1..(Len(s) - 1) : s[i] # 10
EchoOK(e, extra) ==
  CASE e.k = "none" -> extra = <<>>
    [] e.k = "text" -> extra = e.v
    [] e.k = "line" -> IsOneLine(extra)
    [] e.k = "unspec-or-none" -> extra = <<>> \/ IsOneLine(extra)
    [] OTHER -> TRUE

\* parsed once at start-up into a TLC register (TLC re-evaluates a definition that reads a file on every reference)
ASSUME TLCSet(7, ndJsonDeserialize(IOEnv.TRACE))
Recs == TLCGet(7)
IsPrefixOf(a, b) == Len(a) <= Len(b) /\ SubSeq(b, 1, Len(a)) = a
Verdict(rec) ==
  LET e == Echo(rec.prog)
      pre == IsPrefixOf(rec.file.out, rec.cmd.out)
      extra == IF pre THEN SubSeq(rec.cmd.out, Len(rec.file.out) + 1, Len(rec.cmd.out)) ELSE <<>>
      why == IF ~pre \/ ~EchoOK(e, extra) THEN "echo-or-stdout"
             ELSE IF rec.cmd.err # rec.file.err THEN "stderr"
             ELSE IF rec.sheb.out # rec.file.out THEN "shebang-stdout"
             ELSE IF rec.sheb.err_shifted # rec.file.err THEN "shebang-stderr"
             ELSE IF rec.file.argv # Argv("file", rec.path, rec.args) THEN "argv-file"
             ELSE IF rec.cmd.argv # Argv("cmd", rec.path, rec.args) THEN "argv-cmd"
             ELSE IF rec.sheb.argv # Argv("file", rec.shebpath, rec.args) THEN "argv-shebang"
             ELSE ""
  IN [id |-> rec.id, v |-> IF why = "" THEN "ok" ELSE "bad", why |-> why, echo |-> e.k]

VARIABLE pc
Init == pc = <<"root", 0>>
Next == \/ /\ pc[1] = "root" /\ \E c \in 0..(NChunks - 1) : pc' = <<"chunk", c>>
        \/ /\ pc[1] = "chunk"
           /\ LET idxs == SetToSortSeq({i \in 1..Len(Recs) : i % NChunks = pc[2]}, <)
                  vs == [n \in 1..Len(idxs) |-> Verdict(Recs[idxs[n]])]
              IN ndJsonSerialize(IOEnv.OUTDIR \o "/v" \o ToString(pc[2]) \o ".ndjson", vs)
           /\ pc' = <<"done", pc[2]>>
Spec == Init /\ [][Next]_pc
=============================================================================
