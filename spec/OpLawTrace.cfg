SPECIFICATION Spec
CHECK_DEADLOCK FALSE
