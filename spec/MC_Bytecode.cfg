SPECIFICATION Spec
INVARIANTS RoundTrip NoTruncation
CHECK_DEADLOCK FALSE
