------------------------------ MODULE GenMatch ------------------------------
(***************************************************************************)
(* Scrutinee x pattern tables for match (C05).  For each kind with an      *)
(* ordered five-element domain: one or two arms whose patterns are a       *)
(* literal, an alternation, an exclusive or an inclusive range with every  *)
(* boundary placement (including empty and reversed ranges), optionally    *)
(* followed by a default arm; every scrutinee of the domain and one        *)
(* outside it.  The scrutinee is a probe call, so a second evaluation      *)
(* would be observed.  Mixed-type arms must be rejected.                   *)
(***************************************************************************)
EXTENDS AstB

CONSTANTS NChunks, Stride

Doms == << <<IntV(0), IntV(1), IntV(2), IntV(3), IntV(4), IntV(9)>>,
           <<Ch(97), Ch(98), Ch(99), Ch(100), Ch(101), Ch(122)>>,
           <<By(97), By(98), By(99), By(100), By(101), By(122)>>,
           <<S(<<97>>), S(<<97, 97>>), S(<<98>>), S(<<98, 97>>), S(<<99>>), S(<<122>>)>> >>
KindNames == <<"int", "char", "byte", "str">>
NKinds == 4

\* patterns over a domain d (first five elements): index p in 0..NPat-1
\*   0..4      literal d[p+1]
\*   5..29     exclusive range d[i]..d[j]   (all ordered pairs i, j in 1..5)
\*   30..54    inclusive range
\*   55..64    alternation d[i] | d[j], i < j
\*   65..74    alternations that mix ranges and literals (a range that is not the last alternative, scrutinees
\*             below / above it that a later alternative matches, two ranges, reversed range then literal)
NPat == 75
MixedAlt(d, m) ==
  CASE m = 0 -> <<PRange(d[2], d[4], FALSE), PLit(d[1])>>
    [] m = 1 -> <<PRange(d[2], d[4], TRUE), PLit(d[1])>>
    [] m = 2 -> <<PRange(d[3], d[5], FALSE), PLit(d[1]), PLit(d[2])>>
    [] m = 3 -> <<PLit(d[5]), PRange(d[1], d[3], FALSE)>>
    [] m = 4 -> <<PRange(d[1], d[2], TRUE), PRange(d[4], d[5], TRUE)>>
    [] m = 5 -> <<PRange(d[4], d[5], TRUE), PRange(d[1], d[2], TRUE)>>
    [] m = 6 -> <<PLit(d[1]), PRange(d[3], d[4], TRUE), PLit(d[5])>>
    [] m = 7 -> <<PRange(d[2], d[3], FALSE), PLit(d[5]), PLit(d[1])>>
    [] m = 8 -> <<PRange(d[3], d[4], TRUE), PLit(d[5])>>
    [] m = 9 -> <<PRange(d[4], d[2], FALSE), PLit(d[3])>>
AltPairs == << <<1,2>>, <<1,3>>, <<1,4>>, <<1,5>>, <<2,3>>, <<2,4>>, <<2,5>>, <<3,4>>, <<3,5>>, <<4,5>> >>
Pat(d, p) ==
  IF p < 5 THEN <<PLit(d[p + 1])>>
  ELSE IF p < 30 THEN <<PRange(d[((p - 5) \div 5) + 1], d[((p - 5) % 5) + 1], FALSE)>>
  ELSE IF p < 55 THEN <<PRange(d[((p - 30) \div 5) + 1], d[((p - 30) % 5) + 1], TRUE)>>
  ELSE IF p < 65 THEN <<PLit(d[AltPairs[p - 54][1]]), PLit(d[AltPairs[p - 54][2]])>>
  ELSE MixedAlt(d, p - 65)
\* second arms: none, literal d[2], d[2]..d[4], d[1]..=d[3], alternation d[3]|d[5], literal d[5]
NSecond == 6
Second(d, q) ==
  CASE q = 1 -> <<PLit(d[2])>> [] q = 2 -> <<PRange(d[2], d[4], FALSE)>> [] q = 3 -> <<PRange(d[1], d[3], TRUE)>>
    [] q = 4 -> <<PLit(d[3]), PLit(d[5])>> [] q = 5 -> <<PLit(d[5])>>

Probe == FnDef("probe", <<"x">>, <<Obs(L(S(<<83>>))), ExprS(Id("x"))>>)

\* n = (((kind * NPat + p) * NSecond + q) * 2 + withDefault) * 6 + scrutinee
PerKind == NPat * NSecond * 2 * 6
NTable == NKinds * PerKind
NMixed == 6
NAll == NTable + NMixed
NCases == (NAll + Stride - 1) \div Stride

Mixed(m) ==
  LET a == CASE m = 0 -> <<PLit(IntV(1))>> [] m = 1 -> <<PLit(Ch(97))>> [] m = 2 -> <<PRange(IntV(1), IntV(3), FALSE)>>
             [] m = 3 -> <<PLit(S(<<97>>))>> [] m = 4 -> <<PLit(By(97)), PLit(Ch(97))>> [] m = 5 -> <<PLit(B(TRUE))>>
      b == CASE m = 0 -> <<PLit(Ch(97))>> [] m = 1 -> <<PLit(S(<<97>>))>> [] m = 2 -> <<PRange(Ch(97), Ch(99), FALSE)>>
             [] m = 3 -> <<PLit(IntV(1))>> [] m = 4 -> <<PDef>> [] m = 5 -> <<PLit(IntV(1))>>
  IN [id |-> NTable + m, kind |-> "mixed", p |-> m, q |-> 0, dflt |-> FALSE, s |-> 0,
      prog |-> <<ObsDecl, Probe,
                 Obs(MatchE(Call("probe", <<N(1)>>), <<Arm(a, <<ExprS(N(10))>>), Arm(b, <<ExprS(N(20))>>)>>))>>]

Case(c) ==
  LET n == c * Stride IN
  IF n >= NTable THEN Mixed(n - NTable) ELSE
  LET k == n \div PerKind   r == n % PerKind
      p == r \div (NSecond * 12)   q == (r \div 12) % NSecond   wd == ((r \div 6) % 2) = 1   s == r % 6
      d == Doms[k + 1]
      arms == <<Arm(Pat(d, p), <<ExprS(N(10))>>)>>
              \o (IF q = 0 THEN <<>> ELSE <<Arm(Second(d, q), <<ExprS(N(20))>>)>>)
              \o (IF wd THEN <<Arm(<<PDef>>, <<ExprS(N(99))>>)>> ELSE <<>>)
  IN [id |-> n, kind |-> KindNames[k + 1], p |-> p, q |-> q, dflt |-> wd, s |-> s,
      prog |-> <<ObsDecl, Probe, Obs(MatchE(Call("probe", <<L(d[s + 1])>>), arms))>>]

VARIABLE pc
Init == pc = <<"root", 0>>
Next == \/ /\ pc[1] = "root" /\ \E c \in 0..(NChunks - 1) : pc' = <<"chunk", c>>
        \/ /\ pc[1] = "chunk" /\ WriteChunk(pc[2], NChunks, NCases, Case) /\ pc' = <<"done", pc[2]>>
Spec == Init /\ [][Next]_pc
=============================================================================
