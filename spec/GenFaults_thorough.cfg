SPECIFICATION Spec
CONSTANTS
 NChunks = 8
 Stride = 29
CHECK_DEADLOCK FALSE
