SPECIFICATION Spec
INVARIANTS Inv RunAgrees
PROPERTY Terminates
CHECK_DEADLOCK FALSE
