SPECIFICATION Spec
CONSTANTS
 NChunks = 16
 MaxDepth = 40
 MaxIter = 100
CHECK_DEADLOCK FALSE
