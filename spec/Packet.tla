------------------------------- MODULE Packet -------------------------------
(***************************************************************************)
(* A captured packet as its bytes (C15, C16, C17).                          *)
(*                                                                         *)
(* State of a packet: hdr (the 16 bytes of the pcap record header) and raw *)
(* (the captured frame).  Everything the language can read from a packet   *)
(* is a function of these bytes and the layouts below (pcap record header; *)
(* Ethernet II; IEEE 802.1Q; RFC 791; RFC 8200; RFC 9293; RFC 768); an     *)
(* assignment patches exactly the bits of one field; writing the packet    *)
(* out yields hdr \o raw.  Reads never change the state (C15).             *)
(*                                                                         *)
(* Layers: "pkt" (the record), "eth", "vlan", "ipv4", "ipv6", "tcp", "udp".*)
(* A layer is identified by its kind and the offset of its header in raw.  *)
(***************************************************************************)
EXTENDS Addr, Int64

\* ------------------------------ layouts ------------------------------------
(* A field: n name, o byte offset in the header, b bit offset in that byte  *)
(* (0 = most significant), w width in bits, t type: "int" | "bool" | "mac" |*)
(* "ip4" | "ip6", ro read-only.  Multi-byte fields are big-endian (network  *)
(* order) except those of the pcap record header, which are little-endian   *)
(* (t = "le32").                                                            *)
Fld(n, o, b, w, t) == [n |-> n, o |-> o, b |-> b, w |-> w, t |-> t, ro |-> FALSE]
RO(f) == [f EXCEPT !.ro = TRUE]
Fields(kind) ==
  CASE kind = "pkt" -> <<Fld("sec", 0, 0, 32, "le32"), Fld("usec", 4, 0, 32, "le32"), Fld("caplen", 8, 0, 32, "le32"),
                         Fld("wirelen", 12, 0, 32, "le32")>>
    [] kind = "eth" -> <<Fld("dst", 0, 0, 48, "mac"), Fld("src", 6, 0, 48, "mac"), Fld("type", 12, 0, 16, "int")>>
    [] kind = "vlan" -> <<Fld("priority", 0, 0, 3, "int"), Fld("dei", 0, 3, 1, "bool"), Fld("id", 0, 4, 12, "int"),
                          Fld("type", 2, 0, 16, "int")>>
    [] kind = "ipv4" -> <<RO(Fld("version", 0, 0, 4, "int")), Fld("ihl", 0, 4, 4, "int"), Fld("dscp", 1, 0, 6, "int"),
                          Fld("ecn", 1, 6, 2, "int"), Fld("totlen", 2, 0, 16, "int"), Fld("id", 4, 0, 16, "int"),
                          Fld("flags", 6, 0, 3, "int"), Fld("fragoff", 6, 3, 13, "int"), Fld("ttl", 8, 0, 8, "int"),
                          Fld("proto", 9, 0, 8, "int"), Fld("checksum", 10, 0, 16, "int"), Fld("src", 12, 0, 32, "ip4"),
                          Fld("dst", 16, 0, 32, "ip4")>>
    [] kind = "ipv6" -> <<RO(Fld("version", 0, 0, 4, "int")), Fld("trafficclass", 0, 4, 8, "int"),
                          Fld("flowlabel", 1, 4, 20, "int"), Fld("len", 4, 0, 16, "int"), Fld("nextheader", 6, 0, 8, "int"),
                          Fld("hoplimit", 7, 0, 8, "int"), Fld("src", 8, 0, 128, "ip6"), Fld("dst", 24, 0, 128, "ip6")>>
    [] kind = "tcp" -> <<Fld("srcport", 0, 0, 16, "int"), Fld("dstport", 2, 0, 16, "int"), Fld("seq", 4, 0, 32, "int"),
                         Fld("ack", 8, 0, 32, "int"), Fld("dataoff", 12, 0, 4, "int"), Fld("len", 12, 0, 4, "int"),
                         Fld("flags", 13, 0, 8, "int"), Fld("winsize", 14, 0, 16, "int"), Fld("checksum", 16, 0, 16, "int"),
                         Fld("urgent", 18, 0, 16, "int")>>
    [] kind = "udp" -> <<Fld("srcport", 0, 0, 16, "int"), Fld("dstport", 2, 0, 16, "int"), Fld("len", 4, 0, 16, "int"),
                         Fld("checksum", 6, 0, 16, "int")>>
\* the documented alias of usec (docs/language/property.md lists msec and nsec; the parser knows usec and nsec)
Alias(kind, name) == IF kind = "pkt" /\ name \in {"nsec", "msec"} THEN "usec" ELSE name
HasField(kind, name) == \E i \in 1..Len(Fields(kind)) : Fields(kind)[i].n = Alias(kind, name)
Field(kind, name) == LET fs == Fields(kind) IN fs[CHOOSE i \in 1..Len(fs) : fs[i].n = Alias(kind, name)]
LayerNames == {"eth", "vlan", "ipv4", "ipv6", "tcp", "udp"}
\* named layer properties a kind offers
Offers(kind) == CASE kind = "pkt" -> {"eth"} [] kind \in {"eth", "vlan"} -> {"vlan", "ipv4", "ipv6"}
                  [] kind = "ipv4" -> {"tcp", "udp", "ipv6"} [] kind = "ipv6" -> {"tcp", "udp"} [] OTHER -> {}
MinLen(kind) == CASE kind = "eth" -> 14 [] kind = "vlan" -> 4 [] kind = "ipv4" -> 20 [] kind = "ipv6" -> 40
                  [] kind = "tcp" -> 20 [] kind = "udp" -> 8

\* ------------------------------ bytes ---------------------------------------
Byte(raw, off, i) == raw[off + i + 1]                    \* i-th byte (0-based) of the header at offset off
RECURSIVE P2n(_)
P2n(n) == IF n = 0 THEN 1 ELSE 2 * P2n(n - 1)
\* number of bytes a bit field touches, and the window value (at most 24 bits)
NBytes(f) == (f.b + f.w + 7) \div 8
Window(raw, off, f) == FoldLeft(LAMBDA a, i : a * 256 + Byte(raw, off, f.o + i), 0, [i \in 1..NBytes(f) |-> i - 1])
Shift(f) == NBytes(f) * 8 - f.b - f.w
BitsVal(raw, off, f) == (Window(raw, off, f) \div P2n(Shift(f))) % P2n(f.w)
IsBits(f) == f.w <= 20
FieldBytes(raw, off, f) == SubSeq(raw, off + f.o + 1, off + f.o + f.w \div 8)

\* the value of a field as the language shows it: an integer word, a boolean or address bytes
FieldWord(raw, off, f) ==
  IF f.t = "le32" THEN LET bs == FieldBytes(raw, off, f) IN <<bs[1], bs[2], bs[3], bs[4], 0, 0, 0, 0>>
  ELSE IF IsBits(f) THEN FromNat(BitsVal(raw, off, f))
  ELSE LET bs == FieldBytes(raw, off, f) IN <<bs[4], bs[3], bs[2], bs[1], 0, 0, 0, 0>>       \* 32-bit big-endian

\* ------------------------------ structure -----------------------------------
EtherKind(t) == CASE t = 2048 -> "ipv4" [] t = 34525 -> "ipv6" [] t = 33024 -> "vlan" [] OTHER -> "none"
ProtoKind(p) == CASE p = 6 -> "tcp" [] p = 17 -> "udp" [] OTHER -> "none"
\* the layer the selector field of (kind, off) designates; "none" = unsupported
NextKind(raw, kind, off) ==
  CASE kind = "pkt" -> "eth"
    [] kind \in {"eth", "vlan"} -> EtherKind(BitsVal(raw, off, Field(kind, "type")))
    [] kind = "ipv4" -> LET p == BitsVal(raw, off, Field("ipv4", "proto")) IN IF p = 41 THEN "ipv6" ELSE ProtoKind(p)
    [] kind = "ipv6" -> ProtoKind(BitsVal(raw, off, Field("ipv6", "nextheader")))
    [] OTHER -> "none"
\* header length the length field gives (-1: the field holds an impossible value: not settled)
HdrLen(raw, kind, off) ==
  CASE kind = "pkt" -> 0 [] kind = "eth" -> 14 [] kind = "vlan" -> 4 [] kind = "ipv6" -> 40 [] kind = "udp" -> 8
    [] kind = "ipv4" -> LET n == BitsVal(raw, off, Field("ipv4", "ihl")) IN IF n < 5 THEN -1 ELSE 4 * n
    [] kind = "tcp" -> LET n == BitsVal(raw, off, Field("tcp", "dataoff")) IN IF n < 5 THEN -1 ELSE 4 * n
\* is the header of a layer of this kind at off inside the captured bytes ?
Present(raw, kind, off) == off + MinLen(kind) <= Len(raw)

\* one step down: [s |-> "ok", kind, off] | "null" | "err" | "unspec"
L(kind, off) == [s |-> "ok", kind |-> kind, off |-> off]
Down(raw, lay, want) ==       \* want = a layer name, or "any" for $n
  LET nk == NextKind(raw, lay.kind, lay.off)
      hl == HdrLen(raw, lay.kind, lay.off)
  IN IF want # "any" /\ want \notin Offers(lay.kind) THEN [s |-> "badprop"]
     ELSE IF nk = "none" \/ (want # "any" /\ want # nk) THEN [s |-> "null"]
     ELSE IF hl = -1 THEN [s |-> "unspec"]
     ELSE IF ~Present(raw, nk, lay.off + hl) THEN [s |-> "err"]
     ELSE IF nk \in {"ipv4", "tcp"} /\ HdrLen(raw, nk, lay.off + hl) > MinLen(nk)
             /\ lay.off + hl + HdrLen(raw, nk, lay.off + hl) > Len(raw) THEN [s |-> "err"]        \* options cut off
     ELSE L(nk, lay.off + hl)

\* a path is a sequence of steps: layer names, or <<"$", n>> written as the string "$n"
Pkt == L("pkt", 0)
RECURSIVE DownN(_, _, _)
DownN(raw, lay, n) == IF n = 0 \/ lay.s # "ok" THEN lay ELSE DownN(raw, Down(raw, lay, "any"), n - 1)

\* payload of a layer: the bytes after its header; where it ends is either the end of the
\* captured bytes or the end the layer's length field gives (both readings are accepted)
PayloadStart(raw, lay) == lay.off + HdrLen(raw, lay.kind, lay.off)
PayloadEnds(raw, lay) ==
  {Len(raw)} \cup
  (CASE lay.kind = "ipv4" -> {lay.off + BitsVal(raw, lay.off, Field("ipv4", "totlen"))}
     [] lay.kind = "ipv6" -> {lay.off + 40 + BitsVal(raw, lay.off, Field("ipv6", "len"))}
     [] lay.kind = "udp" -> {lay.off + BitsVal(raw, lay.off, Field("udp", "len"))}
     [] OTHER -> {})

\* ------------------------------ assignment ----------------------------------
SetByte(raw, pos, v) == [raw EXCEPT ![pos] = v]
\* write an n-byte big-endian number into raw at 0-based position p
WriteBE(raw, p, n, v) == [i \in 1..Len(raw) |-> IF i > p /\ i <= p + n THEN (v \div P2n(8 * (p + n - i))) % 256 ELSE raw[i]]
PatchBits(raw, off, f, v) ==
  LET w == Window(raw, off, f)
      sh == P2n(Shift(f))
      cleared == w - ((w \div sh) % P2n(f.w)) * sh
  IN WriteBE(raw, off + f.o, NBytes(f), cleared + v * sh)
PatchBytes(raw, off, f, bs) == [i \in 1..Len(raw) |-> IF i > off + f.o /\ i <= off + f.o + Len(bs) THEN bs[i - off - f.o] ELSE raw[i]]
=============================================================================
