------------------------------ MODULE MC_Addr ------------------------------
(* Laws of the reference address parsers, checked by TLC over generated texts *)
EXTENDS Addr
Str(s) == s   \* texts are written as code-point tuples below
T(cs) == cs
VARIABLES phase
Init == phase = 0
Next == phase = 0 /\ phase' = 1
Spec == Init /\ [][Next]_phase
C(s) == s
\* a few fixed expectations (code points spelled out)
V6(cs) == ParseV6(cs)
Laws == phase = 1 =>
  /\ ParseV6(<<58, 58>>) = Ok(Zeros(16))                                             \* ::
  /\ ParseV6(<<58, 58, 49>>) = Ok(Zeros(15) \o <<1>>)                                \* ::1
  /\ ParseV6(<<49, 58, 58>>) = Ok(<<0, 1>> \o Zeros(14))                             \* 1::
  /\ ParseV6(<<49, 58, 58, 50>>) = Ok(<<0, 1>> \o Zeros(12) \o <<0, 2>>)             \* 1::2
  /\ ParseV6(<<58, 58, 58>>).s = "reject"                                            \* :::
  /\ ParseV6(<<58, 49>>).s = "reject"                                                \* :1
  /\ ParseV6(<<49, 58>>).s = "reject"                                                \* 1:
  /\ ParseV6(<<49, 58, 58, 50, 58, 58, 51>>).s = "reject"                            \* 1::2::3
  /\ ParseV6(<<49, 58, 50, 58, 51, 58, 52, 58, 53, 58, 54, 58, 55, 58, 56>>) = Ok(<<0,1,0,2,0,3,0,4,0,5,0,6,0,7,0,8>>)
  /\ ParseV6(<<49, 58, 50, 58, 51, 58, 52, 58, 53, 58, 54, 58, 55, 58, 58>>) = Ok(<<0,1,0,2,0,3,0,4,0,5,0,6,0,7,0,0>>)   \* 1:2:3:4:5:6:7::
  /\ ParseV6(<<49, 58, 50, 58, 51, 58, 52, 58, 53, 58, 54, 58, 55, 58, 56, 58, 58>>).s = "reject"                      \* 8 groups and ::
  /\ ParseV6(<<70, 102, 48, 49, 58, 58>>) = Ok(<<255, 1>> \o Zeros(14))              \* Ff01::
  /\ ParseV6(<<49, 50, 51, 52, 53, 58, 58>>).s = "reject"                            \* 12345::
  /\ ParseMac(<<48, 58, 49, 58, 97, 58, 70, 70, 58, 49, 48, 58, 57>>) = Ok(<<0, 1, 10, 255, 16, 9>>)
  /\ ParseMac(<<48, 58, 49, 58, 97, 58, 70, 70, 58, 49, 48>>).s = "reject"
  /\ ParseV4(<<49, 46, 50, 46, 51, 46, 50, 53, 53>>) = Ok(<<1, 2, 3, 255>>)
  /\ ParseV4(<<49, 46, 50, 46, 51, 46, 50, 53, 54>>).s = "reject"
  /\ ParseV4(<<49, 46, 50, 46, 51>>).s = "reject"
  /\ ParseV4(<<49, 46, 50, 46, 51, 46, 48, 52>>).s = "unspec"
=============================================================================
