SPECIFICATION Spec
CONSTANTS
 NRecs = 4
 Complete <- MCComplete
 Damaged = TRUE
 MaxCalls = 6
 MaxN = 3
INVARIANTS TypeOK PrefixInOrder ExactlyOnce NothingLost
CHECK_DEADLOCK FALSE
