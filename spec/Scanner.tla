------------------------------- MODULE Scanner -------------------------------
(***************************************************************************)
(* The scanner of p2sh over character CLASSES (C01): the classes are the   *)
(* predicates the scanner applies to a character, so a string of classes   *)
(* stands for every source text with that shape.                           *)
(*                                                                         *)
(*   input  : sequence of classes (0-based positions below)                *)
(*   At(i)  : the checked read (beyond the end it yields NUL, which ends    *)
(*            the token stream - a NUL character in the text does too)     *)
(*   Raw(i) : an unchecked read; it is only legal for i < Len(input).      *)
(*            Token functions return the set of positions they read        *)
(*            unchecked so that IndexInBounds can be stated.               *)
(*                                                                         *)
(* NextTok(i) scans one token starting at position i (after blanks and     *)
(* comments): [k: kind, nx: position after it, raw: unchecked reads,       *)
(* nl: line breaks consumed].  The state machine emits token after token.  *)
(* Properties: IndexInBounds (no unchecked read outside the text),         *)
(* Progress (every token but Eof consumes at least one character), and    *)
(* therefore termination after at most Len(input) + 1 tokens.              *)
(***************************************************************************)
EXTENDS Integers, Sequences, FiniteSets, TLC

CONSTANT MaxLen
VARIABLES input, pos, toks, line, bad
vars == <<input, pos, toks, line, bad>>

Singles == {"SEMI", "PUNCT", "PLUS", "MINUS", "SLASH"}     \* ; , : ( ) { } [ ] * % ^ ~ $ @ and + - /
Twins == {"BANG", "AMP", "BAR", "EQ", "LT", "GT"}
Letters == {"LB", "LX", "LO", "LBU", "LE", "HEXL", "ALPHA", "UALPHA"}
Classes == Singles \cup Twins \cup Letters \cup
           {"NUL", "WS", "NL", "HASH", "DQ", "SQ", "DOT", "ZERO", "DIG", "US", "UNUM", "OTHER"}

IdFirst(c) == c \in Letters \/ c = "US"                      \* is_alphabetic or '_'
IdRest(c) == IdFirst(c) \/ c \in {"ZERO", "DIG", "UNUM"}     \* is_alphanumeric or '_'
Digit(c) == c \in {"ZERO", "DIG"}                            \* is_ascii_digit
HexDigit(c) == Digit(c) \/ c \in {"LB", "LBU", "LE", "HEXL"} \* is_ascii_hexdigit

At(s, i) == IF i < Len(s) THEN s[i + 1] ELSE "NUL"

RECURSIVE SkipWs(_, _, _), SkipLine(_, _), SkipBlank(_, _, _), While(_, _, _)
\* blanks: [i, nl]
SkipWs(s, i, nl) == IF At(s, i) = "WS" THEN SkipWs(s, i + 1, nl)
                    ELSE IF At(s, i) = "NL" THEN SkipWs(s, i + 1, nl + 1) ELSE [i |-> i, nl |-> nl]
\* to the end of a comment line (the line break itself is left to SkipWs)
SkipLine(s, i) == IF At(s, i) \in {"NL", "NUL"} THEN i ELSE SkipLine(s, i + 1)
\* blanks, then any number of comments each followed by blanks
SkipBlank(s, i, nl) ==
  LET w == SkipWs(s, i, nl) IN
  IF At(s, w.i) = "HASH" \/ (At(s, w.i) = "SLASH" /\ At(s, w.i + 1) = "SLASH")
  THEN SkipBlank(s, SkipLine(s, w.i + 1), w.nl) ELSE w
\* advance while the class at i is in the set S
While(s, i, S) == IF At(s, i) \in S THEN While(s, i + 1, S) ELSE i
DigitS == {"ZERO", "DIG"}
HexS == DigitS \cup {"LB", "LBU", "LE", "HEXL"}
IdFirstS == Letters \cup {"US"}
IdRestS == IdFirstS \cup {"ZERO", "DIG", "UNUM"}

Tok(k, nx, raw, nl) == [k |-> k, nx |-> nx, raw |-> raw, nl |-> nl]

\* to the closing quote or the end: [i, nl]
RECURSIVE ToQuote(_, _, _, _)
ToQuote(s, i, q, nl) == IF At(s, i) \in {q, "NUL"} THEN [i |-> i, nl |-> nl]
                        ELSE ToQuote(s, i + 1, q, IF At(s, i) = "NL" THEN nl + 1 ELSE nl)

\* 'c'  or  b'c'  starting at the opening quote (position q): the character after the quote is read unchecked,
\* guarded by an explicit end-of-input test.  A malformed literal runs on to the next quote; after a malformed
\* character literal the scanner also drops the character that follows it (extra = 1), as the implementation does.
NonAscii(c) == c \in {"UALPHA", "UNUM", "OTHER"}
QuoteTok(s, q, kind) ==
  LET extra == IF kind = "Char" THEN 1 ELSE 0
      nl1 == IF At(s, q + 1) = "NL" THEN 1 ELSE 0            \* a line break between the quotes counts as one
  IN
  IF q + 1 >= Len(s) THEN Tok("Illegal", q + 1 + extra, {}, 0)                \* the text ends right after the quote
  ELSE IF At(s, q + 2) = "SQ" /\ ~(kind = "Byte" /\ NonAscii(At(s, q + 1))) THEN Tok(kind, q + 3, {q + 1}, nl1)
  ELSE LET from == IF At(s, q + 2) = "SQ" THEN q + 3 ELSE q + 2          \* (a non-ASCII byte: on to the next quote)
           e == ToQuote(s, from, "SQ", 0)
       IN Tok("Illegal", (IF At(s, e.i) = "SQ" THEN e.i + 1 ELSE e.i) + extra, {q + 1}, nl1 + e.nl)

Number(s, i) ==
  LET z == At(s, i) = "ZERO"
      r == IF z THEN At(s, i + 1) ELSE "none"
      hex == z /\ r = "LX"
      radix == z /\ r \in {"LX", "LO", "LB", "LBU"}
      i1 == IF radix THEN i + 2 ELSE IF z THEN i + 1 ELSE i
      i2 == While(s, i1, IF hex THEN HexS ELSE DigitS)
      frac == At(s, i2) = "DOT" /\ At(s, i2 + 1) # "DOT"
      i3 == IF frac THEN While(s, i2 + 1, DigitS) ELSE i2
      ex == At(s, i3) = "LE"
      sgn == At(s, i3 + 1) \in {"PLUS", "MINUS"}
      i4 == IF ~ex THEN i3 ELSE While(s, IF sgn THEN i3 + 2 ELSE i3 + 1, DigitS)
      i5 == While(s, i4, IdFirstS)
  IN IF ex /\ ~sgn /\ ~Digit(At(s, i3 + 1)) THEN Tok("Illegal", i3 + 1, {}, 0)     \* an exponent without digits
     ELSE Tok(IF frac \/ ex THEN "Float" ELSE IF hex THEN "Hex" ELSE IF z /\ r = "LO" THEN "Octal"
              ELSE IF z /\ r \in {"LB", "LBU"} THEN "Binary" ELSE "Decimal", i5, {}, 0)

\* one token at position i (blanks and comments already skipped)
NextTok(s, i) ==
  LET c == At(s, i)  n == At(s, i + 1) IN
  CASE c = "NUL" -> Tok("Eof", i, {}, 0)
    [] c \in Singles \/ c = "HASH" -> Tok(c, i + 1, {}, 0)      \* (HASH cannot occur here: it starts a comment)
    [] c = "BANG" -> IF n = "EQ" THEN Tok("BangEq", i + 2, {}, 0) ELSE Tok("Bang", i + 1, {}, 0)
    [] c = "AMP" -> IF n = "AMP" THEN Tok("AndAnd", i + 2, {}, 0) ELSE Tok("And", i + 1, {}, 0)
    [] c = "BAR" -> IF n = "BAR" THEN Tok("OrOr", i + 2, {}, 0) ELSE Tok("Or", i + 1, {}, 0)
    [] c = "EQ" -> IF n = "EQ" THEN Tok("EqEq", i + 2, {}, 0) ELSE IF n = "GT" THEN Tok("Arm", i + 2, {}, 0) ELSE Tok("Assign", i + 1, {}, 0)
    [] c = "LT" -> IF n = "EQ" THEN Tok("Le", i + 2, {}, 0) ELSE IF n = "LT" THEN Tok("Shl", i + 2, {}, 0) ELSE Tok("Lt", i + 1, {}, 0)
    [] c = "GT" -> IF n = "EQ" THEN Tok("Ge", i + 2, {}, 0) ELSE IF n = "GT" THEN Tok("Shr", i + 2, {}, 0) ELSE Tok("Gt", i + 1, {}, 0)
    [] c = "DQ" -> LET e == ToQuote(s, i + 1, "DQ", 0)
                   IN IF At(s, e.i) = "DQ" THEN Tok("Str", e.i + 1, {}, e.nl) ELSE Tok("Illegal", e.i + 1, {}, e.nl)
    [] c = "SQ" -> QuoteTok(s, i, "Char")
    [] IdFirst(c) -> LET e == While(s, i, IdRestS)
                     IN IF c = "LB" /\ e = i + 1 /\ At(s, e) = "SQ" THEN QuoteTok(s, e, "Byte")   \* b'c'
                        ELSE Tok("Word", e, {}, 0)                                              \* identifier or keyword
    [] c = "DOT" -> IF Digit(n) THEN Number(s, i)
                    ELSE IF n = "DOT" THEN (IF At(s, i + 2) = "EQ" THEN Tok("RangeInc", i + 3, {}, 0) ELSE Tok("RangeEx", i + 2, {}, 0))
                    ELSE IF IdFirst(n) THEN Tok("Dot", i + 1, {}, 0)
                    ELSE Tok("Illegal", i + 1, {}, 0)
    [] Digit(c) -> Number(s, i)
    [] OTHER -> Tok("Illegal", i + 1, {}, 0)                    \* WS NL cannot occur here; UNUM OTHER are illegal

\* ------------------------------ the state machine --------------------------
Strings(n) == UNION {[1..k -> Classes] : k \in 0..n}
Init == input \in Strings(MaxLen) /\ pos = 0 /\ toks = <<>> /\ line = 1 /\ bad = FALSE
LastTok == IF toks = <<>> THEN "none" ELSE toks[Len(toks)]
Scan ==
  /\ LastTok # "Eof"
  /\ LET w == SkipBlank(input, pos, 0)
         t == NextTok(input, w.i)
     IN /\ toks' = Append(toks, t.k)
        /\ pos' = t.nx
        /\ line' = line + w.nl + t.nl
        /\ bad' = (bad \/ \E r \in t.raw : r >= Len(input) \/ (t.k # "Eof" /\ t.nx <= w.i))
  /\ UNCHANGED input
Next == Scan
Spec == Init /\ [][Next]_vars /\ WF_vars(Next)

\* C01: no unchecked read outside the text, every token consumes something
IndexInBoundsAndProgress == ~bad
\* so the token stream ends: at most one token per character, plus Eof
Bounded == Len(toks) <= Len(input) + 1
\* line numbers count the line breaks consumed so far
\* (a malformed character literal that spans lines is not counted: diagnostics follow it anyway)
LineOK == (\A k \in 1..Len(toks) : toks[k] # "Illegal") =>
            line = 1 + Cardinality({i \in 1..Len(input) : i <= pos /\ input[i] = "NL"})
Terminates == <>(LastTok = "Eof")
=============================================================================
