------------------------------- MODULE IOFaultOps ------------------------------
(***************************************************************************)
(* Operating-system I/O failures become error objects (C22).               *)
(*                                                                         *)
(* A program is a sequence of I/O operations; the environment decides, by  *)
(* the target each operation is pointed at, whether the operating system   *)
(* fails it (Ops below: the operation, its target class, and whether that  *)
(* combination is an OS failure).  Requirement, per operation:             *)
(*    failure      => the builtin returns an error object (is_error true)  *)
(*    no failure   => it returns something that is not an error object     *)
(* and in both cases the program goes on to its next statement; the        *)
(* interpreter never aborts and never turns the failure into a runtime     *)
(* error.                                                                  *)
(* Targets: ok (existing regular file), missing (ENOENT), dir (EISDIR),    *)
(* child-of-file (ENOTDIR), existing under mode x (EEXIST), /dev/full      *)
(* (ENOSPC; also the standard output of the run), garbage / short / empty pcap content.  $D stands for the      *)
(* private directory of the run, prepared by the driver.                   *)
(***************************************************************************)
EXTENDS Integers, Sequences, SequencesExt, FiniteSets, TLC, Json, IOUtils

Op(name, fault, src) == [name |-> name, fault |-> fault, src |-> src]
Ops == <<
  Op("open r ok", FALSE, "open(\"$D/ok.txt\")"),
  Op("open r missing", TRUE, "open(\"$D/missing.txt\")"),
  Op("open r dir", FALSE, "open(\"$D/dir\")"),
  Op("open r notdir", TRUE, "open(\"$D/ok.txt/child\")"),
  Op("open w ok", FALSE, "open(\"$D/w_$N.txt\", \"w\")"),
  Op("open w dir", TRUE, "open(\"$D/dir\", \"w\")"),
  Op("open w notdir", TRUE, "open(\"$D/ok.txt/child\", \"w\")"),
  Op("open w missing-parent", TRUE, "open(\"$D/nodir/f.txt\", \"w\")"),
  Op("open a missing", FALSE, "open(\"$D/a_$N.txt\", \"a\")"),
  Op("open a dir", TRUE, "open(\"$D/dir\", \"a\")"),
  Op("open x new", FALSE, "open(\"$D/x_$N.txt\", \"x\")"),
  Op("open x existing", TRUE, "open(\"$D/ok.txt\", \"x\")"),
  Op("open x dir", TRUE, "open(\"$D/dir\", \"x\")"),
  Op("read ok", FALSE, "read(open(\"$D/ok.txt\"))"),
  Op("read n ok", FALSE, "read(open(\"$D/ok.txt\"), 3)"),
  Op("read dir", TRUE, "read(open(\"$D/dir\"))"),
  Op("read n dir", TRUE, "read(open(\"$D/dir\"), 10)"),
  Op("read_line ok", FALSE, "read_line(open(\"$D/ok.txt\"))"),
  Op("read_line dir", TRUE, "read_line(open(\"$D/dir\"))"),
  Op("read_to_string ok", FALSE, "read_to_string(open(\"$D/ok.txt\"))"),
  Op("read_to_string dir", TRUE, "read_to_string(open(\"$D/dir\"))"),
  Op("write ok", FALSE, "write(open(\"$D/ww_$N.txt\", \"w\"), BIG)"),
  Op("write small full-device", FALSE, "write(open(\"/dev/full\", \"w\"), \"x\")"),
  Op("write big full-device", TRUE, "write(open(\"/dev/full\", \"w\"), BIG)"),
  Op("flush ok", FALSE, "flush(WOK)"),
  Op("flush full-device", TRUE, "flush(WFULL)"),
  \* standard output of every run is a full device (the driver points it at /dev/full): text without a line break
  \* stays in the stream's buffer, a big write or a flush with text pending meets ENOSPC
  Op("write stdout small full-device", FALSE, "write(stdout, \"abc\")"),
  Op("write stdout big full-device", TRUE, "write(stdout, BIG)"),
  Op("flush stdout pending full-device", TRUE, "FLUSHOUT()"),
  Op("flush stderr", FALSE, "flush(stderr)"),
  Op("pcap_open ok", FALSE, "pcap_open(\"$D/ok.pcap\")"),
  Op("pcap_open missing", TRUE, "pcap_open(\"$D/missing.pcap\")"),
  Op("pcap_open dir", TRUE, "pcap_open(\"$D/dir\")"),
  Op("pcap_open garbage", TRUE, "pcap_open(\"$D/garbage.pcap\")"),
  Op("pcap_open short", TRUE, "pcap_open(\"$D/short.pcap\")"),
  Op("pcap_open empty", TRUE, "pcap_open(\"$D/empty.pcap\")"),
  Op("pcap_open notdir", TRUE, "pcap_open(\"$D/ok.txt/child.pcap\")"),
  Op("pcap_open w new", FALSE, "pcap_open(\"$D/pw_$N.pcap\", \"w\")"),
  Op("pcap_open w dir", TRUE, "pcap_open(\"$D/dir\", \"w\")"),
  Op("pcap_open x existing", TRUE, "pcap_open(\"$D/ok.pcap\", \"x\")"),
  Op("pcap_open x new", FALSE, "pcap_open(\"$D/px_$N.pcap\", \"x\")"),
  Op("pcap_stream stdin", FALSE, "pcap_stream(stdin)"),
  Op("pcap_stream stdin garbage", TRUE, "pcap_stream(stdin)"),
  Op("pcap_read_next ok", FALSE, "pcap_read_next(pcap_open(\"$D/ok.pcap\"))"),
  Op("pcap_read_all ok", FALSE, "pcap_read_all(pcap_open(\"$D/ok.pcap\"))"),
  Op("pcap_read_next after-end", FALSE, "pcap_read_next(PEND)"),
  Op("pcap_write ok", FALSE, "pcap_write(pcap_open(\"$D/po_$N.pcap\", \"w\"), BIGPKT)"),
  Op("pcap_write big full-device", TRUE, "pcap_write(pcap_open(\"/dev/full\", \"w\"), BIGPKT)"),
  \* content that stops being pcap after a valid global header: a record header announcing more than the snap length
  \* (badrec.pcap: the first record; damaged.pcap: the second one - PDMG is a handle on it whose good record has
  \* been read).  The records in front of the damage are still delivered (PcapFile.tla); at the damage and after it
  \* every read fails.
  Op("pcap_read_next damaged-first-record", TRUE, "pcap_read_next(pcap_open(\"$D/badrec.pcap\"))"),
  Op("pcap_read_all damaged-first-record", TRUE, "pcap_read_all(pcap_open(\"$D/badrec.pcap\"))"),
  Op("pcap_read_next at-damage", TRUE, "pcap_read_next(PDMG)"),
  Op("pcap_read_all at-damage", TRUE, "pcap_read_all(PDMG)"),
  Op("pcap_read_all good-then-damage", FALSE, "pcap_read_all(pcap_open(\"$D/damaged.pcap\"))"),
  Op("pcap_read_all n good-then-damage", FALSE, "pcap_read_all(pcap_open(\"$D/damaged.pcap\"), 1)"),
  \* a global header whose magic number is wrong in its low half only (a1b2cd34; a1b2 followed by zeros)
  Op("pcap_open near-magic", TRUE, "pcap_open(\"$D/nearmagic.pcap\")"),
  Op("pcap_open half-magic", TRUE, "pcap_open(\"$D/halfmagic.pcap\")"),
  \* a pcap stream on the standard output (a full device): a record bigger than the stream's buffer meets ENOSPC
  \* (PWOUT opens the stream and writes the record; a stream that cannot be opened any more is the failure then)
  Op("pcap_write stdout-stream full-device", TRUE, "PWOUT(MIDPKT)"),
  Op("pcap_write big stdout-stream full-device", TRUE, "PWOUT(BIGPKT)")
>>
NOps == Len(Ops)

=============================================================================
