-------------------------------- MODULE AstB --------------------------------
(* Constructors for abstract syntax (the encoding RefSem evaluates) and the  *)
(* chunked ndjson writer shared by the case-generator modules.               *)
EXTENDS Values, Json, IOUtils

L(v) == [t |-> "lit", v |-> v]
N(n) == L(IntV(n))
Id(n) == [t |-> "id", n |-> n]
Bin(op, l, r) == [t |-> "bin", op |-> op, l |-> l, r |-> r]
Un(op, e) == [t |-> "un", op |-> op, e |-> e]
Asg(tg, e) == [t |-> "asg", tg |-> tg, e |-> e]
Idx(a, i) == [t |-> "idx", a |-> a, i |-> i]
Call(f, as) == [t |-> "call", f |-> Id(f), as |-> as]
CallE(f, as) == [t |-> "call", f |-> f, as |-> as]
ArrE(es) == [t |-> "arr", es |-> es]
MapE(kvs) == [t |-> "map", kvs |-> kvs]
FnE(ps, body) == [t |-> "fn", n |-> "", ps |-> ps, body |-> body]
NoElse == [t |-> "none"]
Blk(b) == [t |-> "blk", b |-> b]
IfE(c, th, el) == [t |-> "if", c |-> c, th |-> th, el |-> el]
MatchE(e, arms) == [t |-> "match", e |-> e, arms |-> arms]
Arm(pats, body) == [pats |-> pats, body |-> body]
PLit(v) == [t |-> "plit", v |-> v]
PRange(lo, hi, incl) == [t |-> "prange", lo |-> lo, hi |-> hi, incl |-> incl]
PDef == [t |-> "pdef"]

LetS(n, e) == [t |-> "let", n |-> n, e |-> e]
ExprS(e) == [t |-> "expr", e |-> e]
BlockS(b) == [t |-> "block", b |-> b]
WhileS(lb, c, b) == [t |-> "while", lb |-> lb, c |-> c, b |-> b]
LoopS(lb, b) == [t |-> "loop", lb |-> lb, b |-> b]
BreakS(lb) == [t |-> "break", lb |-> lb]
ContinueS(lb) == [t |-> "continue", lb |-> lb]
RetS(e) == [t |-> "ret", e |-> e]
RetNone == [t |-> "ret", e |-> [t |-> "none"]]
FnDef(n, ps, body) == [t |-> "fndef", n |-> n, ps |-> ps, body |-> body]
ObsDecl == LetS("OBS", ArrE(<<>>))
Obs(e) == ExprS(Call("push", <<Id("OBS"), e>>))

\* the worker expanding chunk c writes the cases n (0 <= n < NCases) with n % nchunks = c
WriteChunk(c, nchunks, ncases, Case(_)) ==
  LET ns == SetToSortSeq({n \in 0..(ncases - 1) : n % nchunks = c}, <)
      cs == [x \in 1..Len(ns) |-> Case(ns[x])]
  IN ndJsonSerialize(IOEnv.OUTDIR \o "/g" \o ToString(c) \o ".ndjson", cs)
=============================================================================
