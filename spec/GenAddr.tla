------------------------------- MODULE GenAddr -------------------------------
(***************************************************************************)
(* Address texts for C18, enumerated by TLC.                               *)
(* IPv6: every placement (start, length) of "::" and no compression, over  *)
(* group patterns that make every position distinguishable, in lower and   *)
(* upper case and with leading-zero spellings; malformed mutations of each *)
(* (a second "::", nine groups, seven groups without "::", a five-digit    *)
(* group, a non-hex digit, stray colons, the empty text).  MAC and IPv4:   *)
(* octet boundary spellings at every position, missing / extra groups,     *)
(* wrong separators, out-of-range octets, signs and blanks.                *)
(***************************************************************************)
EXTENDS Addr, Json, IOUtils

HexDigit(d, upper) == IF d < 10 THEN 48 + d ELSE IF upper THEN 55 + d ELSE 87 + d
\* hexadecimal text of v (0..65535) with at least mind digits
RECURSIVE HexText(_, _, _)
HexText(v, mind, upper) ==
  IF v < 16 /\ mind <= 1 THEN <<HexDigit(v, upper)>>
  ELSE HexText(v \div 16, IF mind > 1 THEN mind - 1 ELSE 1, upper) \o <<HexDigit(v % 16, upper)>>
RECURSIVE DecText(_)
DecText(v) == IF v < 10 THEN <<48 + v>> ELSE DecText(v \div 10) \o <<48 + (v % 10)>>
Join(parts, sep) == IF Len(parts) = 0 THEN <<>> ELSE FoldLeft(LAMBDA acc, p : acc \o <<sep>> \o p, parts[1], Tail(parts))

\* ------------------------------ IPv6 -----------------------------------------
Pats == << <<161, 178, 195, 212, 229, 246, 23, 40>>,              \* a1 b2 c3 d4 e5 f6 17 28
           <<65535, 1, 4096, 255, 43981, 10, 256, 61440>>,        \* ffff 1 1000 ff abcd a 100 f000
           <<1, 2, 3, 4, 5, 6, 7, 8>> >>
\* spelling styles: <<upper, minimum digits>>
Styles == << <<FALSE, 1>>, <<TRUE, 1>>, <<FALSE, 4>>, <<TRUE, 3>> >>
GroupTexts(p, st) == [i \in 1..8 |-> HexText(Pats[p][i], Styles[st][2], Styles[st][1])]
\* compression of groups s+1 .. s+len (len = 0: none)
V6Text(p, st, s, len) ==
  LET g == GroupTexts(p, st)
  IN IF len = 0 THEN Join(g, Colon)
     ELSE Join(SubSeq(g, 1, s), Colon) \o <<Colon, Colon>> \o Join(SubSeq(g, s + len + 1, 8), Colon)
Placements == {<<0, 0>>} \cup {<<s, l>> \in (0..7) \X (1..8) : s + l <= 8}
V6Valid == {[fam |-> "ipv6", tag |-> "valid s=" \o ToString(pl[1]) \o " len=" \o ToString(pl[2]),
             text |-> V6Text(p, st, pl[1], pl[2])] : p \in 1..3, st \in 1..4, pl \in Placements}
\* malformed mutations of a valid text t with compression (s, len)
Mut(kind, t) ==
  CASE kind = "second-dcolon" -> t \o <<Colon, Colon, 49>>
    [] kind = "second-dcolon-front" -> <<49, Colon, Colon>> \o t
    [] kind = "extra-group" -> t \o <<Colon, 49>> \o <<Colon, 50>>
    [] kind = "five-digits" -> <<49, 50, 51, 52, 53, Colon>> \o t
    [] kind = "non-hex" -> <<103, Colon>> \o t
    [] kind = "leading-colon" -> <<Colon>> \o t
    [] kind = "trailing-colon" -> t \o <<Colon>>
    [] kind = "blank" -> <<32>> \o t
    [] kind = "sign" -> <<43>> \o t
Kinds == {"second-dcolon", "second-dcolon-front", "five-digits", "non-hex", "leading-colon", "trailing-colon", "blank", "sign"}
\* mutations are applied to texts that already have eight groups or a "::", so that each yields a malformed text
V6Bad == {[fam |-> "ipv6", tag |-> "mutant " \o k, text |-> Mut(k, V6Text(p, 1, pl[1], pl[2]))] :
            k \in Kinds, p \in {1, 3}, pl \in {<<0, 0>>, <<0, 2>>, <<3, 2>>, <<6, 2>>, <<0, 8>>, <<2, 1>>}}
V6Fixed == {[fam |-> "ipv6", tag |-> "fixed", text |-> t] : t \in {
   <<>>, <<Colon>>, <<Colon, Colon, Colon>>, <<49, Colon, 50, Colon, 51, Colon, 52, Colon, 53, Colon, 54, Colon, 55>>,
   <<49, Colon, 50, Colon, 51, Colon, 52, Colon, 53, Colon, 54, Colon, 55, Colon, 56, Colon, 57>>,
   <<49, Colon, 50, Colon, 51, Colon, 52, Colon, 53, Colon, 54, Colon, 55, Colon, 56, Colon, Colon>>,
   <<Colon, Colon, 49, Colon, 50, Colon, 51, Colon, 52, Colon, 53, Colon, 54, Colon, 55, Colon, 56>>,
   <<49, Colon, Colon, 50, Colon, Colon, 51>>, <<49, 50, 51, 52, 53>>, <<Colon, Colon, 103>>,
   <<49, Colon, 50, Colon, 51, Colon, 52, Colon, 53, Colon, 54, Colon, 55, Colon, 56, Colon>> }}

\* ------------------------------ MAC -------------------------------------------
MacOctets == << <<48>>, <<48, 48>>, <<97>>, <<48, 65>>, <<102, 102>>, <<70, 70>>, <<55, 102>>, <<49, 48>>, <<57>> >>
MacBase == << <<48, 50>>, <<49, 49>>, <<50, 50>>, <<51, 51>>, <<52, 52>>, <<53, 53>> >>
MacValid == {[fam |-> "mac", tag |-> "valid", text |-> Join([MacBase EXCEPT ![i] = MacOctets[o]], Colon)] :
               i \in 1..6, o \in 1..Len(MacOctets)}
MacBadOctets == << <<49, 48, 48>>, <<103>>, <<>>, <<43, 49>>, <<32, 49>>, <<49, 32>>, <<45, 49>>, <<48, 120, 49>> >>
MacBad == {[fam |-> "mac", tag |-> "bad-octet", text |-> Join([MacBase EXCEPT ![i] = MacBadOctets[o]], Colon)] :
             i \in {1, 3, 6}, o \in 1..Len(MacBadOctets)}
           \cup {[fam |-> "mac", tag |-> "bad-shape", text |-> t] : t \in {
                   Join(SubSeq(MacBase, 1, 5), Colon), Join(MacBase \o <<<<54, 54>>>>, Colon), Join(MacBase, 45),
                   Join(MacBase, Dot), <<>>, Join(MacBase, Colon) \o <<Colon>>, <<Colon>> \o Join(MacBase, Colon),
                   FoldLeft(LAMBDA a, b : a \o b, <<>>, MacBase) }}

\* ------------------------------ IPv4 ------------------------------------------
V4Octets == <<0, 9, 10, 99, 100, 199, 200, 249, 250, 255>>
V4Base == <<<<49, 48>>, <<50, 48>>, <<51, 48>>, <<52, 48>>>>
V4Valid == {[fam |-> "ipv4", tag |-> "valid", text |-> Join([V4Base EXCEPT ![i] = DecText(V4Octets[o])], Dot)] :
              i \in 1..4, o \in 1..Len(V4Octets)}
V4BadOctets == << <<50, 53, 54>>, <<51, 48, 48>>, <<57, 57, 57>>, <<49, 50, 51, 52>>, <<>>, <<43, 49>>, <<45, 49>>, <<32, 49>>,
                  <<49, 32>>, <<97>>, <<48, 120, 49>>, <<48, 49>>, <<48, 48>> >>
V4Bad == {[fam |-> "ipv4", tag |-> "bad-octet", text |-> Join([V4Base EXCEPT ![i] = V4BadOctets[o]], Dot)] :
            i \in 1..4, o \in 1..Len(V4BadOctets)}
         \cup {[fam |-> "ipv4", tag |-> "bad-shape", text |-> t] : t \in {
                 Join(SubSeq(V4Base, 1, 3), Dot), Join(V4Base \o <<<<53>>>>, Dot), Join(V4Base, Colon), <<>>,
                 Join(V4Base, Dot) \o <<Dot>>, <<Dot>> \o Join(V4Base, Dot), <<49>> }}

All == V6Valid \cup V6Bad \cup V6Fixed \cup MacValid \cup MacBad \cup V4Valid \cup V4Bad

VARIABLE pc
Init == pc = "run"
Next == /\ pc = "run"
        /\ LET cs == SetToSeq(All)
           IN ndJsonSerialize(IOEnv.OUTDIR \o "/g0.ndjson", [i \in 1..Len(cs) |-> [id |-> i] @@ cs[i]])
        /\ pc' = "done"
Spec == Init /\ [][Next]_pc
=============================================================================
