SPECIFICATION Spec
INVARIANTS TypeOK DiagnosedNotExecuted TerminalsAsStated
PROPERTY Terminates
CHECK_DEADLOCK FALSE
