SPECIFICATION Spec
CONSTANTS
 MaxLines = 4
 MaxDepth = 20
 MaxIter = 20
INVARIANTS RejectedLineHasNoEffect LikeOneProgram
CHECK_DEADLOCK FALSE
