SPECIFICATION Spec
CONSTANT NChunks = 32
CHECK_DEADLOCK FALSE
