------------------------------ MODULE GenTruth ------------------------------
(***************************************************************************)
(* Case generator for truthiness and short-circuit logic (C06):            *)
(* every representative value in every truthiness position (!v, if v,      *)
(* while v), and every ordered pair for && and || with a side-effect probe *)
(* as right operand.  Expected outcomes come from RefSem (IsFalsey is the  *)
(* documented table).                                                      *)
(***************************************************************************)
EXTENDS AstB

CONSTANT NChunks
O(tag, e) == [tag |-> tag, e |-> e]
Vals == <<
  O("bool:false", L(B(FALSE))), O("bool:true", L(B(TRUE))),
  O("int:0", N(0)), O("int:1", N(1)), O("int:-1", N(-1)), O("int:MIN", L(I(MinInt))),
  O("float:0", L(PZero)), O("float:-0", L(NZero)), O("float:1.5", L(F("dy", 3, 1))), O("float:nan", L(NaN)),
  O("float:inf", L(PInf)), O("float:-0.5", L(F("dy", -1, 1))),
  O("null", L(Null)),
  O("char:0", L(Ch(0))), O("char:a", L(Ch(97))), O("char:0digit", L(Ch(48))),
  O("byte:0", L(By(0))), O("byte:1", L(By(1))), O("byte:255", L(By(255))),
  O("str:empty", L(S(<<>>))), O("str:a", L(S(<<97>>))), O("str:space", L(S(<<32>>))), O("str:0", L(S(<<48>>))),
  O("str:false", L(S(<<102, 97, 108, 115, 101>>))),
  O("arr:empty", ArrE(<<>>)), O("arr:0", ArrE(<<N(0)>>)), O("arr:nested-empty", ArrE(<<ArrE(<<>>)>>)),
  O("map:empty", MapE(<<>>)), O("map:1", MapE(<< <<N(1), N(0)>> >>)),
  O("fn", FnE(<<>>, <<>>)), O("builtin:len", Id("len"))
>>
NV == Len(Vals)

\* fn probe(x) { push(OBS, "R"); x }
Probe == FnDef("probe", <<"x">>, <<Obs(L(S(<<82>>))), ExprS(Id("x"))>>)

NPos == 3 * NV
NCases == NPos + 2 * NV * NV
Case(n) ==
  IF n < NPos
  THEN LET p == n \div NV   v == Vals[(n % NV) + 1]
       IN CASE p = 0 -> [id |-> n, pos |-> "not", ta |-> v.tag, tb |-> "",
                          prog |-> <<ObsDecl, Obs(Un("!", v.e))>>]
            [] p = 1 -> [id |-> n, pos |-> "if", ta |-> v.tag, tb |-> "",
                          prog |-> <<ObsDecl, Obs(IfE(v.e, <<ExprS(N(1))>>, Blk(<<ExprS(N(0))>>)))>>]
            [] p = 2 -> [id |-> n, pos |-> "while", ta |-> v.tag, tb |-> "",
                          prog |-> <<ObsDecl, LetS("c", N(0)),
                                     WhileS("", v.e, <<ExprS(Asg(Id("c"), Bin("+", Id("c"), N(1)))), BreakS("")>>),
                                     Obs(Id("c"))>>]
  ELSE LET m == n - NPos   o == m \div (NV * NV)   i == (m \div NV) % NV   j == m % NV
           a == Vals[i + 1]   b == Vals[j + 1]   op == IF o = 0 THEN "&&" ELSE "||"
       IN [id |-> n, pos |-> op, ta |-> a.tag, tb |-> b.tag,
           prog |-> <<ObsDecl, Probe, Obs(Bin(op, a.e, Call("probe", <<b.e>>)))>>]

VARIABLE pc
Init == pc = <<"root", 0>>
Next == \/ /\ pc[1] = "root" /\ \E c \in 0..(NChunks - 1) : pc' = <<"chunk", c>>
        \/ /\ pc[1] = "chunk" /\ WriteChunk(pc[2], NChunks, NCases, Case) /\ pc' = <<"done", pc[2]>>
Spec == Init /\ [][Next]_pc
=============================================================================
