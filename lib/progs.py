"""Running programs (ASTs) through the implementation and validating the executions
against the reference semantics (spec/Conform.tla)."""
import glob
import json
import os
import shutil

from . import core, tlcrun
from .past import render, OBS_DECL, obs


def generate(module, cfg=None, timeout=600, env=None):
    """Runs a TLC generator module (root -> chunk -> ndJsonSerialize) and returns its cases
    sorted by id, plus the TLC result."""
    d = core.workdir("gen")
    try:
        e = {"OUTDIR": d}
        if env:
            e.update(env)
        res = tlcrun.run_tlc(module, cfg=cfg, workers=core.TLC_WORKERS, env=e, timeout=timeout)
        tlcrun.require_ok(res, module)
        cases = []
        for f in glob.glob(os.path.join(d, "g*.ndjson")):
            with open(f) as fh:
                for l in fh:
                    if l.strip():
                        cases.append(json.loads(l))
        cases.sort(key=lambda c: c["id"])
        return cases, res
    finally:
        shutil.rmtree(d, ignore_errors=True)


def outcome_delta(exp, out):
    """short description of how the implementation's outcome differs from the expected one"""
    eh = exp.get("how")
    if eh == "rterror":
        eh += ":" + str(exp.get("err", {}).get("c"))
    oh = out.get("how")
    if exp.get("how") == oh:
        return "%s>%s!value" % (eh, oh)
    return "%s>%s" % (eh, oh)


def run_and_validate(rep, items, chk=("final",), case_opts=None, timeout=1500):
    """items: list of dicts with 'id', 'prog' (AST) and anything else (kept).
    Renders and runs each program in-process, validates the executions with Conform.tla.
    Returns list of (item, out, verdict) for the rejected executions; counts go to rep."""
    cases = []
    recs = []
    for it in items:
        src, ap = render(it["prog"], full=it.get("full", False))
        if "src_override" in it:        # text produced by the specification itself (e.g. GenPrec)
            src = it["src_override"]
        it["src"] = src
        c = {"id": it["id"], "src": src}
        if case_opts:
            c.update(case_opts)
        cases.append(c)
        recs.append({"id": it["id"], "prog": ap, "chk": list(it.get("chk", chk))})
    import time
    t0 = time.time()
    results = core.run_cases(cases)
    core.log('  ran %d programs in-process in %.1fs' % (len(cases), time.time() - t0))
    t0 = time.time()
    for r in recs:
        r["out"] = core.norm_out(results[r["id"]])
    verdicts, res = core.tlc_validate("Conform", recs, timeout=timeout)
    core.log('  validated %d executions with TLC in %.1fs' % (len(recs), time.time() - t0))
    rep.add_tlc(res)
    rep.cov["traces_validated_against_impl"] += len(recs)
    rep.cov["evaluations"] += len(recs)
    bad = []
    byid = {it["id"]: it for it in items}
    for r in recs:
        v = verdicts[r["id"]]
        it = byid[r["id"]]
        it["out"] = r["out"]
        it["raw"] = results[r["id"]]
        if v["v"] == "bad":
            bad.append((it, r["out"], v))
        elif v["v"] == "unspec":
            rep.cov["unspecified"] += 1
    return bad, verdicts
