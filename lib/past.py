"""AST construction and rendering (AST -> p2sh source text).

The AST encoding is the one of DESIGN.md appendix A; it is what the TLA+ reference
semantics (spec/RefSem.tla) evaluates.  render() is the only projection from
specification terms to concrete syntax: it lays every statement out on its own line
and records that line in the statement (field ln).
"""
import copy

MASK = (1 << 64) - 1


# ---------------------------------------------------------------- values
def limbs(n):
    n &= MASK
    return [(n >> (8 * i)) & 255 for i in range(8)]


def from_limbs(v):
    n = sum(b << (8 * i) for i, b in enumerate(v))
    return n - (1 << 64) if n >= (1 << 63) else n


def vint(n):
    return {"k": "int", "v": limbs(n)}


def vbool(b):
    return {"k": "bool", "v": bool(b)}


def vnull():
    return {"k": "null"}


def vstr(s):
    return {"k": "str", "v": [ord(c) for c in s]}


def vchar(c):
    return {"k": "char", "v": ord(c) if isinstance(c, str) else c}


def vbyte(n):
    return {"k": "byte", "v": n}


def vfloat(x):
    """float value as the spec's dyadic model; x may be a python float or one of
    'nan','pinf','ninf','nzero'."""
    if isinstance(x, str):
        return {"k": "float", "c": x, "m": 0, "e": 0}
    import math
    if math.isnan(x):
        return vfloat("nan")
    if math.isinf(x):
        return vfloat("pinf" if x > 0 else "ninf")
    if x == 0:
        return vfloat("nzero") if math.copysign(1, x) < 0 else {"k": "float", "c": "dy", "m": 0, "e": 0}
    e = 0
    y = x
    while e <= 8:
        if y == int(y) and abs(y) <= (1 << 20):
            return {"k": "float", "c": "dy", "m": int(y), "e": e}
        y *= 2
        e += 1
    raise ValueError("float outside the model: %r" % x)


# ---------------------------------------------------------------- expressions
def lit(v):
    return {"t": "lit", "v": v}


def I(n):
    return lit(vint(n))


def ident(n):
    return {"t": "id", "n": n}


def un(op, e):
    return {"t": "un", "op": op, "e": e}


def bin_(op, l, r):
    return {"t": "bin", "op": op, "l": l, "r": r}


def asg(tg, e):
    return {"t": "asg", "tg": tg, "e": e}


def idx(a, i):
    return {"t": "idx", "a": a, "i": i}


def call(f, *args):
    if isinstance(f, str):
        f = ident(f)
    return {"t": "call", "f": f, "as": list(args)}


def dollar(n):
    return {"t": "dollar", "n": n}


def arr(*es):
    return {"t": "arr", "es": list(es)}


def map_(*kvs):
    return {"t": "map", "kvs": [list(kv) for kv in kvs]}


def dot(e, p):
    return {"t": "dot", "e": e, "p": p}


def fn(ps, body, name=""):
    return {"t": "fn", "n": name, "ps": list(ps), "body": body}


def if_(c, th, el=None):
    if el is None:
        el = {"t": "none"}
    elif isinstance(el, list):
        el = {"t": "blk", "b": el}
    return {"t": "if", "c": c, "th": th, "el": el}


def match(e, arms):
    return {"t": "match", "e": e, "arms": arms}


def arm(pats, body):
    return {"pats": pats, "body": body}


def plit(v):
    return {"t": "plit", "v": v}


def prange(lo, hi, incl):
    return {"t": "prange", "lo": lo, "hi": hi, "incl": incl}


def pdef():
    return {"t": "pdef"}


# ---------------------------------------------------------------- statements
def let(n, e):
    if e.get("t") == "fn":
        e = dict(e)
        e["n"] = n      # the parser names a function literal after its let
    return {"t": "let", "n": n, "e": e}


def expr(e):
    return {"t": "expr", "e": e}


def block(b):
    return {"t": "block", "b": b}


def while_(c, b, lb=""):
    return {"t": "while", "lb": lb, "c": c, "b": b}


def loop(b, lb=""):
    return {"t": "loop", "lb": lb, "b": b}


def brk(lb=""):
    return {"t": "break", "lb": lb}


def cont(lb=""):
    return {"t": "continue", "lb": lb}


def ret(e=None):
    return {"t": "ret", "e": e if e is not None else {"t": "none"}}


def fndef(n, ps, body):
    return {"t": "fndef", "n": n, "ps": list(ps), "body": body}


def filt(pat, act):
    return {"t": "filter", "pat": pat if pat is not None else {"t": "none"}, "act": act}


def obs(e):
    """push(OBS, e);"""
    return expr(call("push", ident("OBS"), e))


OBS_DECL = let("OBS", arr())

# ---------------------------------------------------------------- rendering
PREC = {"||": 4, "&&": 5, "==": 6, "!=": 6, "<": 6, ">": 6, "<=": 6, ">=": 6, "|": 7, "^": 8, "&": 9,
        "<<": 10, ">>": 10, "+": 11, "-": 11, "*": 12, "/": 12, "%": 12}
P_ASSIGN, P_UNARY, P_CALL, P_PRIMARY = 1, 13, 14, 15


def render_value(v):
    """source text of a literal value; returns (text, is_atomic)"""
    k = v["k"]
    if k == "null":
        return "null", True
    if k == "bool":
        return ("true" if v["v"] else "false"), True
    if k == "int":
        n = from_limbs(v["v"])
        if n == -(1 << 63):
            return "(-9223372036854775807 - 1)", True
        if n < 0:
            return "(-%d)" % (-n), True
        return str(n), True
    if k == "byte":
        n = v["v"]
        if v.get("raw") and n < 128:
            return "b'%s'" % chr(n), True
        if 33 <= n < 127 and chr(n) not in "'\\":
            return "b'%s'" % chr(n), True
        return "byte(%d)" % n, True
    if k == "char":
        cp = v["v"]
        c = chr(cp)
        if v.get("raw"):                # the character itself between the quotes, whatever it is (e.g. a line break)
            return "'%s'" % c, True
        if cp >= 33 and c not in "'\\" and c.isprintable():
            return "'%s'" % c, True
        return "char(%d)" % cp, True
    if k == "str":
        s = "".join(chr(c) for c in v["v"])
        if '"' in s or "\0" in s:
            raise ValueError("string not expressible as a literal")
        return '"%s"' % s, True
    if k == "float":
        c = v["c"]
        if c == "nan":
            return 'float("NaN")', True
        if c == "pinf":
            return 'float("inf")', True
        if c == "ninf":
            return 'float("-inf")', True
        if c == "nzero":
            return "(-0.0)", True
        if c == "oom":          # a finite non-zero double outside the dyadic model, written as given (e.g. 1e-300)
            t = v["txt"]
            return ("(%s)" % t if t.startswith("-") else t), True
        x = v["m"] / (1 << v["e"])
        t = repr(abs(x))
        if "e" in t or "E" in t:
            raise ValueError("float literal needs an exponent: %r" % x)
        if "." not in t:
            t += ".0"
        return ("(-%s)" % t if x < 0 else t), True
    raise ValueError("cannot render value %r" % (v,))


class Renderer:
    """Renders a program; full=True parenthesises every operator application."""

    def __init__(self, full=False, start_line=1):
        self.full = full
        self.lines = []
        self.cur = ""
        self.base = start_line
        # multi-line mode (statements flagged "ml"): expressions are broken over several lines - after a binary
        # operator, after '(' '[' '{' and after each ',' - and every node that can fail is marked in the text right
        # before the token its operation is compiled from; render() turns the marks into "ln" fields
        self.ml = False
        self.marks = []

    def mk(self, node):
        if not self.ml:
            return ""
        self.marks.append(node)
        return "\x01%d\x02" % (len(self.marks) - 1)

    @property
    def br(self):
        return "\n    " if self.ml else " "

    @property
    def br0(self):
        return "\n    " if self.ml else ""

    @property
    def ln(self):
        return self.base + len(self.lines) + self.cur.count("\n")

    def newline(self):
        self.lines.extend(self.cur.split("\n"))     # a string literal may span lines
        self.cur = ""

    def emit(self, s):
        self.cur += s

    # expressions are rendered to strings (always on one line); statements inside an
    # expression-level block are rendered inline
    def e(self, x, prec=0):
        t = x["t"]
        if t == "lit":
            return render_value(x["v"])[0]
        if t == "id":
            return x["n"]
        if t == "raw":          # raw source text (for deliberately odd inputs)
            return x["s"]
        if t == "un":
            inner = self.e(x["e"], P_UNARY)
            if x["op"] == "-" and inner.lstrip("\x01\x020123456789").startswith("-"):
                inner = " " + inner
            s = self.mk(x) + x["op"] + inner
            return "(%s)" % s if (self.full or prec > P_UNARY) else s
        if t == "bin":
            p = PREC[x["op"]]
            l = self.e(x["l"], p)
            r = self.e(x["r"], p + 1)     # left associative: right operand needs a higher level
            s = "%s %s%s%s%s" % (l, self.mk(x), x["op"], self.br, r)
            return "(%s)" % s if (self.full or prec > p) else s
        if t == "asg":
            s = "%s =%s%s" % (self.e(x["tg"], P_CALL), self.br, self.e(x["e"], P_ASSIGN))
            return "(%s)" % s if (self.full or prec > P_ASSIGN) else s
        if t == "idx":
            s = "%s%s[%s%s]" % (self.e(x["a"], P_CALL), self.mk(x), self.br0, self.e(x["i"], 0))
            return "(%s)" % s if self.full else s
        if t == "call":
            s = "%s%s(%s%s)" % (self.e(x["f"], P_CALL), self.mk(x), self.br0 if x["as"] else "",
                                ("," + self.br).join(self.e(a, P_ASSIGN) for a in x["as"]))
            return "(%s)" % s if self.full else s
        if t == "dollar":                 # $n: the n-th layer of the current packet (null when there is none)
            return "$%d" % x["n"]
        if t == "dot":
            return "%s%s.%s" % (self.e(x["e"], P_CALL), self.mk(x), x["p"])
        if t == "arr":
            return "[%s%s]" % (self.br0 if x["es"] else "", ("," + self.br).join(self.e(a, P_ASSIGN) for a in x["es"]))
        if t == "map":
            return "map {%s%s}" % (self.br0 if x["kvs"] else "",
                                   ("," + self.br).join("%s: %s" % (self.e(k, P_ASSIGN), self.e(v, P_ASSIGN)) for k, v in x["kvs"]))
        if t == "fn":
            s = "fn(%s) %s" % (", ".join(x["ps"]), self.inline_block(x["body"]))
            return "(%s)" % s if prec > 0 else s
        if t == "if":
            s = self.if_text(x)
            return "(%s)" % s if prec > 0 else s
        if t == "match":
            arms = []
            for a in x["arms"]:
                pats = " | ".join(self.mk(p) + self.pat(p) for p in a["pats"])
                arms.append("%s => %s" % (pats, self.inline_block(a["body"])))
            s = "match %s {%s%s%s}" % (self.e(x["e"], P_ASSIGN), self.br, ("," + self.br).join(arms), self.br)
            return "(%s)" % s if prec > 0 else s
        raise ValueError("unknown expression node %r" % t)

    def pat(self, p):
        if p["t"] == "pdef":
            return "_"
        if p["t"] == "plit":
            return render_value(p["v"])[0]
        return "%s%s%s" % (render_value(p["lo"])[0], "..=" if p["incl"] else "..", render_value(p["hi"])[0])

    def if_text(self, x):
        s = "if %s %s" % (self.e(x["c"], P_ASSIGN), self.inline_block(x["th"]))
        el = x["el"]
        if el["t"] == "blk":
            s += " else %s" % self.inline_block(el["b"])
        elif el["t"] == "if":
            s += " else %s" % self.if_text(el)
        return s

    def inline_block(self, stmts):
        parts = []
        for s in stmts:
            parts.append(self.stmt_inline(s))
        if self.ml and parts:
            return "{%s%s%s}" % (self.br, self.br.join(parts), self.br)
        return "{ %s }" % " ".join(parts) if parts else "{ }"

    def stmt_inline(self, s):
        """statement rendered on the current line (inside an expression-level block)"""
        s["ln"] = self.ln
        t = s["t"]
        if self.ml:                     # its line is known only when the whole text is there
            return self.mk(s) + self._stmt_inline(s, t)
        return self._stmt_inline(s, t)

    def _stmt_inline(self, s, t):
        if t == "expr":
            return self.e(s["e"], 0) + ";"
        if t == "let":
            return "let %s = %s;" % (s["n"], self.e(s["e"], 0))
        if t == "block":
            return self.inline_block(s["b"])
        if t == "while":
            return "%swhile %s %s" % (s["lb"] + ": " if s["lb"] else "", self.e(s["c"], 0), self.inline_block(s["b"]))
        if t == "loop":
            return "%sloop %s" % (s["lb"] + ": " if s["lb"] else "", self.inline_block(s["b"]))
        if t == "break":
            return "break%s;" % (" " + s["lb"] if s["lb"] else "")
        if t == "continue":
            return "continue%s;" % (" " + s["lb"] if s["lb"] else "")
        if t == "ret":
            return "return%s;" % ("" if s["e"]["t"] == "none" else " " + self.e(s["e"], 0))
        if t == "fndef":
            return "fn %s(%s) %s" % (s["n"], ", ".join(s["ps"]), self.inline_block(s["body"]))
        if t == "filter":
            pat = "" if s["pat"]["t"] == "none" else self.e(s["pat"], P_ASSIGN) + " "
            return "@ %s%s" % (pat, self.inline_block(s["act"]))
        if t == "rawstmt":
            return s["s"]
        raise ValueError("unknown statement node %r" % t)

    # statement-level rendering: one statement per line, blocks over several lines
    def block_lines(self, stmts, indent):
        self.emit("{")
        self.newline()
        for s in stmts:
            self.stmt(s, indent + 1)
        self.emit("  " * indent + "}")

    def stmt(self, s, indent=0):
        pad = "  " * indent
        t = s["t"]
        pre = s.get("pre", 0)       # blank / comment lines before the statement
        for i in range(pre):
            # blank lines and comments of every form (with and without text, '#' and '//', trailing blanks)
            self.emit(pad + ["", "# c", "#", "", "// c", "//", "#  ", "# c"][(3 * i + pre) % 8])
            self.newline()
        self.emit(pad)
        s["ln"] = self.ln
        was = self.ml
        self.ml = was or bool(s.get("ml"))
        self._stmt_body(s, t, indent)
        self.ml = was
        self.newline()

    def _stmt_body(self, s, t, indent):
        if t == "block":
            self.block_lines(s["b"], indent)
        elif t == "while":
            self.emit("%swhile %s " % (s["lb"] + ": " if s["lb"] else "", self.e(s["c"], 0)))
            self.block_lines(s["b"], indent)
        elif t == "loop":
            self.emit("%sloop " % (s["lb"] + ": " if s["lb"] else ""))
            self.block_lines(s["b"], indent)
        elif t == "fndef":
            self.emit("fn %s(%s) " % (s["n"], ", ".join(s["ps"])))
            self.block_lines(s["body"], indent)
        elif t == "expr" and s["e"]["t"] == "if" and s.get("multiline"):
            x = s["e"]
            while True:
                self.emit("if %s " % self.e(x["c"], P_ASSIGN))
                self.block_lines(x["th"], indent)
                el = x["el"]
                if el["t"] == "blk":
                    self.emit(" else ")
                    self.block_lines(el["b"], indent)
                    break
                if el["t"] == "if":
                    self.emit(" else ")
                    x = el
                    continue
                break
            self.emit(";")      # an if expression followed by '(' or '[' on the next line would be a call / index
        else:
            self.emit(self.stmt_inline(s))

    def program(self, prog):
        for s in prog:
            self.stmt(s, 0)
        src = "\n".join(self.lines) + "\n"
        if not self.marks:
            return src
        out = []
        line = self.base
        i = 0
        while i < len(src):
            c = src[i]
            if c == "\x01":
                j = src.index("\x02", i)
                self.marks[int(src[i + 1:j])]["ln"] = line
                i = j + 1
                continue
            if c == "\n":
                line += 1
            out.append(c)
            i += 1
        return "".join(out)


def render(prog, full=False, start_line=1):
    """returns (source text, program annotated with statement lines)"""
    prog = copy.deepcopy(prog)
    r = Renderer(full=full, start_line=start_line)
    src = r.program(prog)
    return src, prog
