"""End-to-end runs through the real (hooked) binary."""
import os
import subprocess
import tempfile
from concurrent.futures import ThreadPoolExecutor

from . import core, pcapfmt
from .past import Renderer


import threading
_RETRY_LOCK = threading.Lock()
_RETRIES = {"tried": 0, "still": 0}


def run_bin(args, stdin=b"", timeout=20, env=None, cwd=None, retry_if=None):
    """returns dict(rc, out, err, how) - how is 'exit', 'signal', 'panic' or 'timeout'.
    A deadline miss is never reported on the strength of one attempt on a busy machine: the run is repeated, one
    at a time, with a deadline four times as long (at least 40 s) - unless retry_if(result) says the first attempt
    already shows the program itself is what runs long."""
    r = _run_bin(args, stdin, timeout, env, cwd)
    if r["how"] == "timeout" and (retry_if is None or retry_if(r)):
        with _RETRY_LOCK:
            # (three repeats out of three missed the long deadline too: it is not the machine, later misses stand)
            if _RETRIES["tried"] >= 3 and _RETRIES["still"] == _RETRIES["tried"]:
                return r
            r2 = _run_bin(args, stdin, max(40, 4 * timeout), env, cwd)
            _RETRIES["tried"] += 1
            _RETRIES["still"] += r2["how"] == "timeout"
        r2["retried"] = True
        return r2
    return r


def run_bin_failing_stdout(args, how, stdin=b"", timeout=30):
    """runs the binary with a standard output that fails: how = 'full' (ENOSPC, /dev/full) or 'closed' (a pipe whose
    reader is gone, EPIPE).  Returns dict(rc, err, how)."""
    if how == "full":
        out = open("/dev/full", "w")
        close_after = [out]
    else:
        r, w = os.pipe()
        os.close(r)
        out = w
        close_after = []
    try:
        p = subprocess.run([core.P2SH] + list(args), input=stdin, stdout=out, stderr=subprocess.PIPE, timeout=timeout)
        res = {"rc": p.returncode, "out": b"", "err": p.stderr, "how": "exit" if p.returncode >= 0 else "signal"}
        if p.returncode == 101 or b"panicked at" in p.stderr:
            res["how"] = "panic"
        return res
    except subprocess.TimeoutExpired as ex:
        return {"rc": None, "out": b"", "err": ex.stderr or b"", "how": "timeout"}
    finally:
        for f in close_after:
            f.close()
        if how != "full":
            os.close(w)


def _run_bin(args, stdin=b"", timeout=20, env=None, cwd=None):
    e = dict(os.environ)
    e.pop("P2SH_VERIF_REPL", None)
    if env:
        e.update(env)
    try:
        p = subprocess.run([core.P2SH] + list(args), input=stdin, stdout=subprocess.PIPE, stderr=subprocess.PIPE,
                           timeout=timeout, env=e, cwd=cwd)
    except subprocess.TimeoutExpired as ex:
        return {"rc": None, "out": ex.stdout or b"", "err": ex.stderr or b"", "how": "timeout"}
    how = "exit" if p.returncode >= 0 else "signal"
    if p.returncode == 101 or b"panicked at" in p.stderr:
        how = "panic"
    return {"rc": p.returncode, "out": p.stdout, "err": p.stderr, "how": how}


def run_many(jobs, workers=None):
    """jobs: list of (args, stdin, kwargs) -> list of results in order"""
    with ThreadPoolExecutor(max_workers=workers or core.NCPU) as ex:
        futs = [ex.submit(run_bin, j[0], j[1], **(j[2] if len(j) > 2 else {})) for j in jobs]
        return [f.result() for f in futs]


def expr_text(e):
    return Renderer().e(e, 1)


def filter_truthiness(rep, if_cases):
    """each value as the pattern of a filter with an action; expected truthiness is what
    the TLC-validated `if` case of the same value prescribes (verdict carries exp)."""
    core.build_binary()
    from . import progs
    items = [{"id": c["id"], "prog": c["prog"], "chk": ["exp"], "ta": c["ta"]} for c in if_cases]
    bad, verdicts = progs.run_and_validate(rep, items, chk=("exp",))
    cap = pcapfmt.pcap_file([pcapfmt.simple_tcp_frame()])
    jobs = []
    for it in items:
        vexpr = it["prog"][1]["e"]["as"][1]["c"]
        # (every other script has an accepting pattern-only filter in front: later filters still see the packet)
        src = ("@ true\n" if len(jobs) % 2 else "") + "@ %s { eprintln(\"HIT\"); }\n" % expr_text(vexpr)
        it["fsrc"] = src
        jobs.append((["-s", "-c", src], cap))
    results = run_many(jobs)
    # output not suppressed: a falsey value never selects the packet - neither as the pattern of a filter without
    # an action (where only `true` selects; what a truthy non-boolean does there is not documented) nor in front
    # of an action
    sel_jobs = []
    for it in items:
        text = expr_text(it["prog"][1]["e"]["as"][1]["c"])
        sel_jobs.append((["-c", "@ %s\n" % text], cap))
        sel_jobs.append((["-c", "@ %s { let t = 1; }\n" % text], cap))
    sel_all = run_many(sel_jobs)
    sel_results = [(sel_all[2 * k], sel_all[2 * k + 1]) for k in range(len(items))]
    n = 0
    for it, r, rs in zip(items, results, sel_results):
        v = verdicts[it["id"]]
        exp = v.get("exp")
        if not exp or exp.get("how") != "ok":
            continue
        truthy = exp["obs"]["v"][0]["v"][0] == 1
        hit = b"HIT" in r["err"]
        n += 1
        rep.cov["evaluations"] += 1
        if r["how"] != "exit" or hit != truthy:
            rep.disagree("truth filter-pattern %s exp=%s got=%s" % (it["ta"], truthy, hit if r["how"] == "exit" else r["how"]),
                         {"src": it["fsrc"], "stderr": r["err"].decode("utf8", "replace")[:500], "how": r["how"]})
        for with_action, r2 in ((False, rs[0]), (True, rs[1])):
            rep.cov["evaluations"] += 1
            try:
                written = len(pcapfmt.parse_pcap(r2["out"])[1]) if r2["out"] else 0
            except Exception:
                written = -1
            allowed = {0} if (not truthy or with_action) else ({1} if it["ta"] == "bool:true" else {0, 1})
            if r2["how"] != "exit" or written not in allowed:
                rep.disagree("truth filter-selects %s %s exp=%s packets-written=%s" % (
                    "with-action" if with_action else "pattern-only", it["ta"], truthy, written if r2["how"] == "exit" else r2["how"]),
                    {"src": sel_jobs[2 * items.index(it) + (1 if with_action else 0)][0][1],
                     "stderr": r2["err"].decode("utf8", "replace")[:300], "how": r2["how"], "stdout_bytes": len(r2["out"])})
    return n
