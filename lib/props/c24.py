"""C24 - script and command modes run a program the same way with the same argv.

Generated programs (seeded random programs whose observations are printed, programs that fail
at run time or at compile time, programs ending in null / integer / boolean / other values or
in a non-expression statement) x argument vectors (none, one, several, empty string, non-ASCII,
dash-prefixed after --) are run by the real binary in three modes: from a script file, with -c,
and from a script file with a shebang first line; every program first prints argv.
spec/Cli.tla validates: stdout(-c) = stdout(file) plus the echo the reference semantics
prescribes for the final expression value, equal stderr, the shebang run equal to the plain one
with line numbers shifted by one, and argv = Argv(mode, path, args) in each mode."""
import json
import os
import random
import re
import shutil
import subprocess
from concurrent.futures import ThreadPoolExecutor

from .. import core
from ..past import (obs, lit, vint, vbool, vstr, vnull, bin_, let, ident, call, arr, expr, I, if_, render, OBS_DECL, fndef)
from ..proggen import random_program

PROP = "C24"
ARGVS = [[], ["a"], ["a", "b", "c"], [""], ["x", "", "y"], ["héllo", "wörld"], ["--", "-x", "--long"], ["1", "2"],
         ["--", "-s"], ["with space", "tab\there"]]


def tail_variants(rnd):
    r = rnd.random()
    if r < 0.2:
        return [expr(lit(vnull()))]
    if r < 0.45:
        return [expr(bin_("+", I(rnd.randint(-50, 50)), I(rnd.randint(0, 9))))]
    if r < 0.55:
        return [expr(lit(vbool(rnd.random() < 0.5)))]
    if r < 0.65:
        return [expr(lit(vstr("text")))]
    if r < 0.72:
        return [expr(arr(I(1), I(2)))]
    if r < 0.8:
        return [let("zz", I(3))]
    if r < 0.88:
        return [expr(bin_("/", I(1), I(0)))]                      # fails at run time
    if r < 0.94:
        return [expr(bin_("+", ident("undefined_name"), I(1)))]   # fails at compile time
    return [expr(call("len", lit(vstr("abc"))))]


def to_printing(prog):
    """the observations of a generated program are printed instead of collected"""
    out = []
    for s in prog:
        out.append(s)
    return out


def run(rep, tier, seed):
    core.build_binary()
    rnd = random.Random(seed)
    d = core.workdir("c24")
    try:
        jobs = []
        for i in range(700 if tier == "quick" else 4000):
            base = random_program(rnd, nstmts=rnd.randint(1, 4), depth=2, probes=False, features={"onekeymaps": True})   # map display order is not settled
            # print what was observed, so that the runs have output to compare
            tail = tail_variants(rnd)
            # text with CRLF line ends, and string literals that span lines (the language has no escapes: the line end
            # inside the quotes is part of the string - the same bytes whichever way the text reaches the interpreter)
            crlf = rnd.random() < 0.25
            extra = []
            if rnd.random() < 0.4:
                brk = "\r\n" if crlf else "\n"
                txt = rnd.choice(["l1%sl2", "%s", "a%s%sb", "end%s"]).replace("%s", brk)
                extra = [let("ms", lit(vstr(txt))), obs(call("len", ident("ms"))), obs(bin_("==", ident("ms"), lit(vstr(txt))))]
            base = base + extra
            prog = [OBS_DECL] + base[2:] + [expr(call("puts", ident("OBS")))] + tail
            args = rnd.choice(ARGVS)
            header = rnd.choice(["", "", "# a script\n", "// a script\n", "# line one\n# line two\n", "// one\n\n// two\n# three\n",
                                 "\n", "#\n#\n", "# trailing blanks   \n\n\n"])
            jobs.append({"id": i, "prog": prog, "args": args, "model": [OBS_DECL] + base[2:] + tail, "header": header, "crlf": crlf})

        def runjob(j):
            src, _ = render(j["prog"])
            j["ap"] = render(j["model"])[1]        # the reference semantics runs the program without the print statement
            # scripts usually open with comment lines (right under the shebang line when there is one)
            header = j["header"]
            text = header + "puts(argv);\n" + src
            if j["crlf"]:
                text = text.replace("\r\n", "\n").replace("\n", "\r\n")
            # line numbers of the annotated program refer to src; the argv line shifts all modes alike
            path = os.path.join(d, "s%d.p2" % j["id"])
            spath = os.path.join(d, "h%d.p2" % j["id"])
            open(path, "w", newline="").write(text)
            open(spath, "w", newline="").write("#!/usr/bin/env p2sh" + ("\r\n" if j["crlf"] and j["id"] % 2 else "\n") + text)
            posargs = list(j["args"])
            if posargs and posargs[0] == "--":
                file_cmd = [core.P2SH, path] + posargs
                sheb_cmd = [core.P2SH, spath] + posargs
                cmd_cmd = [core.P2SH, "-c", text] + posargs
                shown = posargs[1:]
            else:
                file_cmd = [core.P2SH, path] + posargs
                sheb_cmd = [core.P2SH, spath] + posargs
                cmd_cmd = [core.P2SH, "-c", text] + posargs
                shown = posargs
            j["shown"] = shown
            j["path"], j["spath"] = path, spath
            for key, c in (("file", file_cmd), ("cmd", cmd_cmd), ("sheb", sheb_cmd)):
                try:
                    p = subprocess.run(c, stdin=subprocess.DEVNULL, stdout=subprocess.PIPE, stderr=subprocess.PIPE, timeout=180)
                    j[key] = {"out": p.stdout, "err": p.stderr, "rc": p.returncode}
                except subprocess.TimeoutExpired:
                    j[key] = {"out": b"", "err": b"TIMEOUT", "rc": None}
        with ThreadPoolExecutor(max_workers=12) as ex:
            list(ex.map(runjob, jobs))
        recs = []

        def split_argv(out):
            """first stdout line is the argv display; returns (list of strings | None, rest)"""
            nl = out.find(b"\n")
            if nl < 0:
                return None, out
            line = out[:nl].decode("utf8", "replace")
            rest = out[nl + 1:]
            if not (line.startswith("[") and line.endswith("]")):
                return None, out
            inner = line[1:-1]
            items = re.findall(r'"((?:[^"])*)"', inner) if inner else []
            return items, rest

        def cps(b):
            return [c for c in b]

        for j in jobs:
            rec = {"id": j["id"], "prog": j["ap"], "args": [[ord(c) for c in a] for a in j["shown"]],
                   "path": [ord(c) for c in j["path"]], "shebpath": [ord(c) for c in j["spath"]]}
            bad_parse = False
            for key in ("file", "cmd", "sheb"):
                av, rest = split_argv(j[key]["out"])
                err = j[key]["err"]
                if av is None:
                    # the program did not get to run (e.g. compile error): argv unknown, keep stdout whole
                    shown = "none"
                    rest = j[key]["out"]
                    avj = [[-1]]
                    if b"compile error" in err or b"parse errors" in err:
                        avj = None
                else:
                    avj = [[ord(c) for c in a] for a in av]
                rec[key] = {"out": cps(rest), "err": cps(err), "argv": avj}
            # compile-time rejection: no argv line in any mode -> use the expected argv so that only outputs are compared
            for key, mode, p in (("file", "file", rec["path"]), ("cmd", "cmd", None), ("sheb", "file", rec["shebpath"])):
                if rec[key]["argv"] is None:
                    rec[key]["argv"] = ([p] if mode == "file" else []) + rec["args"]
            # the shebang run reports every line one higher
            shifted = re.sub(rb"\[line (\d+)\]", lambda m: b"[line %d]" % (int(m.group(1)) - 1), j["sheb"]["err"])
            rec["sheb"]["err_shifted"] = cps(shifted)
            recs.append(rec)
        verdicts, tres = core.tlc_validate("Cli", recs, timeout=1800)
        rep.add_tlc(tres)
        rep.cov["traces_validated_against_impl"] += len(recs)
        rep.cov["evaluations"] += 3 * len(recs)
        echoes = {}
        for j in jobs:
            v = verdicts[j["id"]]
            echoes[v["echo"]] = echoes.get(v["echo"], 0) + 1
            if v["v"] == "bad":
                argclass = "none" if not j["args"] else ("dashdash" if j["args"][0] == "--" else ("empty" if "" in j["args"] else
                                                                                                 ("unicode" if any(ord(c) > 127 for a in j["args"] for c in a) else "plain")))
                rep.disagree("cli %s args=%s echo=%s%s" % (v["why"], argclass, v["echo"], " crlf" if j["crlf"] else ""),
                             {"program": render(j["prog"])[0], "args": j["args"],
                              "file": {k: (x.decode("utf8", "replace")[-300:] if isinstance(x, bytes) else x) for k, x in j["file"].items()},
                              "cmd": {k: (x.decode("utf8", "replace")[-300:] if isinstance(x, bytes) else x) for k, x in j["cmd"].items()},
                              "sheb": {k: (x.decode("utf8", "replace")[-300:] if isinstance(x, bytes) else x) for k, x in j["sheb"].items()}})
        rep.notes["echo_classes"] = echoes
        rep.cov["distinct_nontrivial"] = len({(render(j["prog"])[0], tuple(j["args"])) for j in jobs})
        rep.cov["rule"] = ("random programs (1-4 statements, printing their observations) with 9 kinds of final statement (null, integer, "
                           "boolean, string, array, let, runtime failure, compile failure, builtin call) x 9 kinds of leading comment / "
                           "blank lines x 10 argument vectors x LF / CRLF line ends x string literals spanning lines x 3 "
                           "modes; distinct = distinct (program, arguments)")
        rep.cov["exhaustive"] = False
        rep.sample({"program": render(jobs[0]["prog"])[0], "args": jobs[0]["args"], "cmd_stdout": jobs[0]["cmd"]["out"].decode("utf8", "replace")[-200:]})
    finally:
        shutil.rmtree(d, ignore_errors=True)


def replay(rep, path):
    print(json.dumps(json.load(open(path)), indent=1)[:6000])
