"""C13 - runtime errors report the source line of the failing operation.

Programs place exactly one failing construct (division / modulo by zero, bad index, missing
key, bad operand kinds, wrong arity, failing builtin, calling a non-function, bad property)
after 0-8 lines of preceding code (blank lines, comments, lets, multi-line function
definitions, filter statements, string literals spanning lines, CRLF line ends), at top
level, in blocks and loops, in a function and two call levels deep.  The renderer records
the line of every statement; TLC validates the reported line against RefSem (the line of
the statement containing the failing construct).  Filter actions are covered end to end."""
import json
import random

from .. import core, progs, e2e, pcapfmt
from ..past import (OBS_DECL, obs, lit, vint, vbool, vstr, bin_, un, let, ident, call, idx, arr, map_, expr, I, if_,
                    while_, block, fndef, filt, dot, render, asg, match, arm, plit, prange, pdef, fn, vchar)

PROP = "C13"

FAILS = [
    ("div0", lambda: bin_("/", I(7), I(0))),
    ("mod0", lambda: bin_("%", I(7), I(0))),
    ("index", lambda: idx(arr(I(1), I(2)), I(5))),
    ("index-neg", lambda: idx(arr(I(1)), I(-1))),
    ("index-kind", lambda: idx(I(3), I(0))),
    ("key", lambda: idx(map_((I(1), I(2))), I(9))),
    ("kinds", lambda: bin_("+", I(1), lit(vstr("a")))),
    ("kinds-rel", lambda: bin_("<", lit(vbool(True)), lit(vbool(False)))),
    ("kinds-neg", lambda: un("-", lit(vstr("a")))),
    ("arity", lambda: call("one", I(1), I(2))),
    ("notfn", lambda: call(I(5))),
    ("builtin-kind", lambda: call("len", I(1))),
    ("builtin-arity", lambda: call("first")),
    ("prop", lambda: dot(ident("one"), "src")),
    ("set-index", lambda: asg(idx(arr(I(1)), I(3)), I(0))),
]


def preceding(rnd, n):
    """n statements of harmless preceding code (each may span several lines)"""
    out = []
    for i in range(n):
        r = rnd.random()
        name = "q%d" % rnd.randint(0, 99999)
        if r < 0.2:
            s = let(name, I(rnd.randint(0, 9)))
        elif r < 0.35:
            s = fndef(name, ["a"], [let("t", bin_("+", ident("a"), I(1))), expr(ident("t"))])
        elif r < 0.5:
            # literals spanning lines: a break inside, several, one right before the closing quote, right after
            # the opening quote, only breaks
            s = let(name, lit(vstr(rnd.choice(["a\nb", "x\n\ny", "usage:\n", "\nb", "\n", "a\n\n", "\n\n", "l1\nl2\nl3\n"]))))
        elif r < 0.56:
            # a character / byte literal that holds a line break
            s = let(name, lit({"k": "char", "v": 10, "raw": True} if rnd.random() < 0.5 else {"k": "byte", "v": 10, "raw": True}))
        elif r < 0.62:
            s = filt(lit(vbool(False)), [let("z", I(1)), expr(ident("z"))])
        elif r < 0.7:
            s = block([let("t", I(1)), obs(ident("t"))])
        elif r < 0.8:
            s = expr(if_(lit(vbool(True)), [obs(I(1))], [obs(I(2))]))
            s["multiline"] = True
        else:
            s = obs(I(rnd.randint(0, 9)))
        s["pre"] = rnd.choice([0, 0, 1, 2, 3])
        out.append(s)
    return out


def wrap(ctx, fail_stmt, rnd):
    """places the failing statement in a context; returns statements"""
    if ctx == "top":
        return [fail_stmt]
    if ctx == "block":
        return [block([obs(I(1)), fail_stmt])]
    if ctx == "if":
        s = expr(if_(lit(vbool(True)), [obs(I(1)), fail_stmt], [obs(I(2))]))
        s["multiline"] = True
        return [s]
    if ctx == "loop":
        return [let("i", I(0)), while_(bin_("<", ident("i"), I(3)), [expr(asg(ident("i"), bin_("+", ident("i"), I(1)))),
                                                                    expr(if_(bin_("==", ident("i"), I(2)), [fail_stmt]))])]
    if ctx == "fn":
        return [fndef("ff", ["a"], [obs(ident("a")), fail_stmt, expr(I(0))])] + preceding(rnd, rnd.randint(0, 2)) + \
               [obs(call("ff", I(1)))]
    if ctx == "fn2":
        return [fndef("inner", [], [let("u", I(1)), fail_stmt, expr(I(0))]),
                fndef("outer", [], [obs(I(3)), expr(call("inner"))])] + preceding(rnd, rnd.randint(0, 2)) + \
               [let("r", call("outer"))]
    if ctx == "cond":
        # the failing construct is the condition of a multi-line if: it is on the if's line
        s = expr(if_(fail_stmt["e"], [obs(I(1))], [obs(I(2))]))
        s["multiline"] = True
        return [s]
    raise ValueError(ctx)


CONTEXTS = ["top", "block", "if", "loop", "fn", "fn2", "cond"]

# an expression written over several lines: the failing construct sits on a later line than the statement's first; the
# reported line is that of the token the failing operation is compiled from (RefSem: per-node lines)
ML_WRAPS = {
    "ml-operand": lambda e: bin_("+", I(100), e),
    "ml-left-operand": lambda e: bin_("+", e, bin_("*", I(2), I(3))),
    "ml-argument": lambda e: call("two", I(1), e),
    "ml-first-argument": lambda e: call("two", e, arr(I(1), I(2))),
    "ml-element": lambda e: arr(I(1), e, I(3)),
    "ml-map-value": lambda e: map_((I(1), I(2)), (I(3), e)),
    "ml-match-arm": lambda e: match(I(2), [arm([plit(vint(1))], [expr(I(10))]), arm([plit(vint(2))], [expr(e)]), arm([pdef()], [expr(I(30))])]),
    "ml-match-scrutinee": lambda e: match(e, [arm([plit(vint(1))], [expr(I(10))]), arm([pdef()], [expr(I(30))])]),
    "ml-if-branch": lambda e: if_(lit(vbool(True)), [expr(I(1)), expr(e)], [expr(I(2))]),
    "ml-else-branch": lambda e: if_(lit(vbool(False)), [expr(I(1))], [let("q", I(2)), expr(e)]),
    "ml-closure-body": lambda e: call(fn([], [let("q", I(1)), expr(e)])),
    "ml-nested": lambda e: call("two", bin_("-", I(5), arr(I(1), bin_("+", I(1), e))), I(0)),
}
# a match whose scrutinee cannot be ordered against a range pattern of a later arm: the comparison is the failing
# operation, its line is the arm's
ML_MATCH = [
    ("match-range-kinds", lambda: match(lit(vstr("a")), [arm([plit(vint(1))], [expr(I(10))]),
                                                        arm([plit(vint(7)), prange(vint(2), vint(5), True)], [expr(I(20))]),
                                                        arm([pdef()], [expr(I(30))])])),
    ("match-range-kinds-null", lambda: match(lit({"k": "null"}), [arm([prange(vstr("a"), vstr("c"), False)], [expr(I(10))]),
                                                               arm([pdef()], [expr(I(30))])])),
    ("match-range-kinds-2nd-arm", lambda: match(arr(I(1)), [arm([plit(vchar("x"))], [expr(I(10))]), arm([plit(vchar("y"))], [expr(I(11))]),
                                                         arm([prange(vchar("a"), vchar("c"), True)], [expr(I(20))])])),
]


def run(rep, tier, seed):
    core.build_harness()
    rnd = random.Random(seed)
    items = []
    reps = 10 if tier == "quick" else 60
    n = 0
    for kind, mk in FAILS:
        for ctx in CONTEXTS:
            for r in range(reps):
                form = rnd.choice(["expr", "let", "obs"])
                e = mk()
                fs = expr(e) if form == "expr" else (let("w", e) if form == "let" else obs(e))
                if ctx == "cond":
                    fs = expr(e)
                prog = [OBS_DECL, fndef("one", ["x"], [expr(ident("x"))])] + preceding(rnd, rnd.randint(0, 8)) + \
                    wrap(ctx, fs, rnd) + [obs(I(99))]
                items.append({"id": "e%d" % n, "prog": prog, "kind": kind, "ctx": ctx, "crlf": rnd.random() < 0.2})
                n += 1
    # expressions written over several lines
    two = fndef("two", ["a", "b"], [expr(ident("a"))])
    mlreps = 2 if tier == "quick" else 12
    for kind, mk in FAILS:
        if kind == "set-index":
            continue
        for wn, wrap_ in ML_WRAPS.items():
            for ctx in ("top", "fn", "loop", "block")[:mlreps * 2]:
                for r in range(mlreps if ctx == "top" else 1):
                    form = rnd.choice(["expr", "let", "obs"])
                    e = wrap_(mk())
                    fs = expr(e) if form == "expr" else (let("w", e) if form == "let" else obs(e))
                    fs["ml"] = True
                    prog = [OBS_DECL, fndef("one", ["x"], [expr(ident("x"))]), two] + preceding(rnd, rnd.randint(0, 5)) + \
                        wrap(ctx, fs, rnd) + [obs(I(99))]
                    items.append({"id": "e%d" % n, "prog": prog, "kind": kind, "ctx": wn + "/" + ctx, "crlf": False})
                    n += 1
    for kind, mk in ML_MATCH:
        for ctx in ("top", "fn", "loop", "block", "fn2"):
            for form in ("expr", "let", "obs"):
                e = mk()
                fs = expr(e) if form == "expr" else (let("w", e) if form == "let" else obs(e))
                fs["ml"] = True
                prog = [OBS_DECL, fndef("one", ["x"], [expr(ident("x"))])] + preceding(rnd, rnd.randint(0, 5)) + wrap(ctx, fs, rnd) + [obs(I(99))]
                items.append({"id": "e%d" % n, "prog": prog, "kind": kind, "ctx": "ml/" + ctx, "crlf": False})
                n += 1
                # and on one line (the arm's line is the statement's)
                e = mk()
                fs = expr(e) if form == "expr" else (let("w", e) if form == "let" else obs(e))
                prog = [OBS_DECL, fndef("one", ["x"], [expr(ident("x"))])] + preceding(rnd, rnd.randint(0, 5)) + wrap(ctx, fs, rnd) + [obs(I(99))]
                items.append({"id": "e%d" % n, "prog": prog, "kind": kind, "ctx": "one-line/" + ctx, "crlf": False})
                n += 1
    # CRLF variants: same program text with \r\n line ends
    for it in items:
        if it["crlf"]:
            src, _ = render(it["prog"])
            # (a one-character literal cannot hold a two-character line end: those keep their bare line feed)
            it["src_override"] = src.replace("\n", "\r\n").replace("'\r\n'", "'\n'")
    bad, verdicts = progs.run_and_validate(rep, items, chk=("line",))
    rep.cov["distinct_nontrivial"] = len({(it["kind"], it["ctx"], it["src"].count("\n")) for it in items})
    rep.cov["rule"] = ("one failing construct (15 kinds) x 7 contexts (top level, block, if body, loop body, function, two "
                       "call levels, if condition) x random preceding code (blank lines, comments, lets, multi-line "
                       "functions, filter statements, string / character / byte literals spanning lines; 20% with CRLF); the failing "
                       "construct inside an expression written over several lines (12 placements) and match range comparisons that fail on "
                       "an arm's line; through the drivers: leading blank lines, scripts of 65 534+ lines; filter-only failures; distinct = "
                       "distinct (kind, context, error line position)")
    rep.cov["exhaustive"] = False
    for it in items[:2]:
        rep.sample({"src": it["src"], "out": it["out"]})
    for it, out, v in bad:
        exp = v["exp"]
        delta = progs.outcome_delta(exp, out)
        if exp.get("how") == "rterror" and out["how"] == "rterror":
            delta = "line" if exp["err"]["ln"] != out["line"] else "other"
        sig = "errline %s %s%s %s" % (it["kind"], it["ctx"], " crlf" if it["crlf"] else "", delta)
        rep.disagree(sig, {"src": it["src"], "expected": exp, "got": it["raw"]})
    filter_lines(rep, rnd, tier)
    driver_lines(rep, rnd, tier, items)


def driver_lines(rep, rnd, tier, items):
    """the same kind of programs through the real binary, from a file and with -c, with blank / blank-looking lines in
    front of the first statement and behind the last: the drivers hand the text to the scanner as it is"""
    import os
    import re
    import shutil
    core.build_binary()
    d = core.workdir("c13e2e")
    try:
        heads = ["", "\n", "\n\n\n", "  \n\t\n", "\n# c\n\n", " \n"]
        jobs = []
        metas = []
        pick = [it for it in items if not it["crlf"] and it.get("out", {}).get("how") == "rterror"]
        rnd.shuffle(pick)
        for k, it in enumerate(pick[:(60 if tier == "quick" else 600)]):
            head = heads[k % len(heads)]
            text = head + it["src"] + rnd.choice(["", "\n\n", "  \n"])
            want = it["out"]["line"] + head.count("\n")
            path = os.path.join(d, "s%d.p2" % k)
            open(path, "w").write(text)
            jobs.append(([path], b""))
            metas.append(("file", it, text, want))
            jobs.append((["-c", text], b""))
            metas.append(("-c", it, text, want))
        # far down a long script: line numbers beyond 2^16 (and, thorough, beyond 2^17) are reported as they are
        for nlines in ((65534, 65535, 65536, 70003) if tier == "quick" else (65534, 65535, 65536, 65537, 70003, 131072, 200001)):
            text = "# c\n" * (nlines - 2) + "let a = 1;\n" + "let w = [1, 2][5];\n" + "puts(1);\n"
            path = os.path.join(d, "long%d.p2" % nlines)
            open(path, "w").write(text)
            jobs.append(([path], b""))
            metas.append(("file", {"kind": "index"}, "<%d comment lines> let a = 1; let w = [1, 2][5];" % (nlines - 2), nlines))
            text2 = "\n" * (nlines - 3) + "fn f(x) {\n  7 / x\n}\n" + "f(0);\n"
            path2 = os.path.join(d, "longf%d.p2" % nlines)
            open(path2, "w").write(text2)
            jobs.append(([path2], b""))
            metas.append(("file", {"kind": "div0"}, "<%d blank lines> fn f(x) { 7 / x } f(0);" % (nlines - 3), nlines - 1))
        for (mode, it, text, want), r in zip(metas, e2e.run_many(jobs)):
            rep.cov["evaluations"] += 1
            m = re.search(rb"\[line (\d+)\] Runtime error", r["err"])
            got = int(m.group(1)) if m else None
            if r["how"] != "exit" or got != want:
                lead = "leading-blank-lines" if text[:1] in "\n \t" else "no-leading-blanks"
                rep.disagree("errline %s driver %s %s %s" % (it["kind"], mode, lead, "line" if got is not None else r["how"]),
                             {"src": text, "want_line": want, "got_line": got, "stderr": r["err"].decode("utf8", "replace")[:300]})
    finally:
        shutil.rmtree(d, ignore_errors=True)


def filter_lines(rep, rnd, tier):
    """failing construct inside a filter action, end to end; the expected line is the line the
    renderer placed the failing statement on (RefSem's line rule)."""
    core.build_binary()
    cap = pcapfmt.pcap_file([pcapfmt.simple_tcp_frame()])
    jobs = []
    metas = []
    for kind, mk in FAILS:
        for r in range(2 if tier == "quick" else 10):
            fs = expr(mk())
            act = [let("k", I(1)), fs]
            f = filt(lit(vbool(True)), act)
            prog = [OBS_DECL, fndef("one", ["x"], [expr(ident("x"))])] + preceding(rnd, rnd.randint(0, 6)) + [f]
            # render the filter over several lines so that the failing statement has its own line
            src, ap = render(prog[:-1])
            base = src.count("\n") + 1
            fsrc, fap = render(act, start_line=base + 1)
            text = src + "@ true {\n" + fsrc + "}\n"
            want = fap[1]["ln"]
            jobs.append((["-s", "-c", text], cap))
            metas.append((kind, text, want))
    # failing operations that exist only while a packet is being processed: a layer index beyond the deepest possible
    # layer, a header field assigned a value of the wrong kind, a field of a layer the frame does not have
    only_here = {"dollar-depth-11": "$11;", "dollar-depth-40": "let z = $40;", "dollar-depth-computed": "let d = 3 * 5; $d;",
                 "field-kind": "($2).ttl = \"x\";", "field-of-error": "let e = ($3).nosuchlayer;",
                 "eth-src-kind": "($1).src = 5;", "eth-dst-text": "($1).dst = \"zz\";", "eth-type-range": "($1).type = 65536;",
                 "ipv4-src-text": "($2).src = \"1.2.3\";", "ipv4-id-kind": "($2).id = true;", "tcp-port-kind": "($3).srcport = \"x\";",
                 "pkt-caplen-kind": "($0).caplen = \"x\";"}
    for kind, stmt_text in only_here.items():
        if kind == "field-of-error":
            continue        # (a parse error: not a runtime failure)
        for r in range(3 if tier == "quick" else 10):
            pre_n = rnd.randint(0, 9)
            head = "".join(rnd.choice(["\n", "# c\n", "let p%d = %d;\n" % (k, k)]) for k in range(pre_n))
            inner_pre = rnd.randint(0, 3)
            body = "".join("  let q%d = %d;\n" % (k, k) for k in range(inner_pre))
            for place in ("action", "function-called-from-action"):
                if place == "action":
                    text = head + "@ true {\n" + body + "  " + stmt_text + "\n}\n"
                    want = head.count("\n") + 1 + inner_pre + 1
                else:
                    text = head + "fn deep() {\n" + body + "  " + stmt_text + "\n  0\n}\n@ true { deep(); }\n"
                    want = head.count("\n") + 1 + inner_pre + 1
                jobs.append((["-s", "-c", text], cap))
                metas.append((kind + " " + place, text, want))
    results = e2e.run_many(jobs)
    import re
    for (kind, text, want), r in zip(metas, results):
        rep.cov["evaluations"] += 1
        m = re.search(rb"\[line (\d+)\] Runtime error", r["err"])
        got = int(m.group(1)) if m else None
        if r["how"] != "exit" or got != want:
            rep.disagree("errline %s filter-action %s" % (kind, "line" if got is not None else r["how"]),
                         {"src": text, "want_line": want, "got_line": got, "stderr": r["err"].decode("utf8", "replace")[:400]})


def replay(rep, path):
    print(json.dumps(json.load(open(path)), indent=1)[:6000])
