"""C11 - pure builtins satisfy their documented contracts and round-trip laws.

S->I: TLC (GenCalls) enumerates builtin x arity 0..3 x boundary arguments; every call runs
through the real pipeline; Conform.tla validates result, in-place effect, error-or-not and
that the error message names the builtin, against spec/Builtins.tla.
I->S: seeded random strings / arrays / integers through the round-trip laws."""
import json
import random

from .. import core, progs
from ..past import (OBS_DECL, obs, lit, vint, vstr, vfloat, vchar, vbyte, bin_, let, ident, call, arr, expr, I)

PROP = "C11"


def rand_str(rnd):
    pools = ["abcXYZ 09", "éßλж", "😀𝄞", "\t~"]
    n = rnd.randint(0, 12)
    return "".join(rnd.choice(rnd.choice(pools)) for _ in range(n))


def law_programs(rnd, n):
    out = []
    for i in range(n):
        r = rnd.random()
        if r < 0.25:
            v = rnd.choice([0, 1, -1, (1 << 63) - 1, -(1 << 63), rnd.randint(-10 ** 17, 10 ** 17), rnd.randint(-1000, 1000)])
            prog = [OBS_DECL, let("n", I(v)), obs(call("str", ident("n"))), obs(bin_("==", call("int", call("str", ident("n"))), ident("n")))]
            tag = "law int(str(n))"
        elif r < 0.5:
            s = rand_str(rnd)
            prog = [OBS_DECL, let("s", lit(vstr(s))), let("b", call("encode_utf8", ident("s"))), obs(ident("b")),
                    obs(bin_("==", call("decode_utf8", ident("b")), ident("s"))),
                    obs(bin_("==", call("len", ident("b")), call("len", ident("s"))))]
            tag = "law utf8"
        elif r < 0.7:
            s = rand_str(rnd)
            prog = [OBS_DECL, let("s", lit(vstr(s))), let("c", call("chars", ident("s"))), obs(ident("c")),
                    obs(bin_("==", call("join", ident("c")), ident("s"))), obs(call("join", ident("c"), lit(vstr("-"))))]
            tag = "law join(chars(s))"
        elif r < 0.85:
            kind = rnd.choice(["int", "int-near", "float", "str", "mixed"])
            if kind == "int-near":
                # neighbours far from zero: they differ only in bits a conversion to a double would drop
                base = rnd.choice([1 << 53, (1 << 53) + 1, 1 << 60, (1 << 63) - 9, -(1 << 63) + 9, -(1 << 53) - 1, 10 ** 17])
                ds = [rnd.randint(-4, 4) for _ in range(rnd.randint(2, 7))]
                ds.sort(reverse=rnd.random() < 0.7)
                es = [I(base + d) for d in ds]
            elif kind == "int":
                es = [I(rnd.choice([rnd.randint(-5, 5), rnd.randint(-(1 << 63), (1 << 63) - 1)])) for _ in range(rnd.randint(0, 17))]
            elif kind == "float":
                es = [lit(vfloat(rnd.randint(-64, 64) / 4)) for _ in range(rnd.randint(0, 9))]
            elif kind == "str":
                es = [lit(vstr(rand_str(rnd)[:3])) for _ in range(rnd.randint(0, 9))]
            else:
                es = [I(rnd.randint(-5, 5)) if rnd.random() < 0.5 else lit(vfloat(rnd.randint(-20, 20) / 4))
                      for _ in range(rnd.randint(0, 9))]
            prog = [OBS_DECL, let("a", arr(*es)), let("b", ident("a")), expr(call("sort", ident("a"))), obs(ident("a")),
                    obs(ident("b"))]
            tag = "law sort " + kind
        elif r < 0.89:
            # join with a delimiter: elements that look like the delimiter (or are empty-ish) at the ends and in a row
            alpha = ["a", ",", "-", " ", "b", ","]
            cs = [lit(vchar(rnd.choice(alpha))) for _ in range(rnd.randint(0, 7))]
            d = rnd.choice([",", "-", "", ",,", " ", "ab"])
            prog = [OBS_DECL, let("c", arr(*cs)), obs(call("join", ident("c"), lit(vstr(d)))), obs(call("join", ident("c"))),
                    obs(call("len", call("join", ident("c"), lit(vstr(d)))))]
            tag = "law join-delimiter"
        elif r < 0.93:
            x = rnd.randint(-4096, 4096) / 16
            prog = [OBS_DECL, let("x", lit(vfloat(x))), obs(bin_("==", call("float", call("str", ident("x"))), ident("x"))),
                    obs(call("round", ident("x"), I(0))), obs(call("int", ident("x")))]
            tag = "law float(str(x))"
        else:
            # round(x, n) for every precision: values with no more than n places are their own rounding
            x = rnd.choice([float(rnd.choice([0, 1, -1, 16, -16, 1024, 99999, 1048576])), rnd.randint(-4096, 4096) / 16,
                            rnd.randint(-255, 255) / 256, "nan", "pinf", "ninf"])
            ns = sorted({rnd.randint(0, 18) for _ in range(4)} | {18, rnd.choice([0, 8, 12, 17])})
            prog = [OBS_DECL, let("x", lit(vfloat(x)))] + [obs(call("round", ident("x"), I(k))) for k in ns]
            tag = "law round"
        out.append((tag, prog))
    return out


def container_contracts():
    """get / contains / insert / push / pop / first / last / rest on containers they are handed: numerically equal keys
    of different kinds name one entry, and - get, contains, first, last, rest, len being pure - the container is
    what it was afterwards (each program looks at it again after every call)"""
    from ..past import vfloat, vbyte, map_, asg
    out = []
    pairs = [("int/float", I(1), lit(vfloat(1.0))), ("float/int", lit(vfloat(65.0)), I(65)), ("zero/negzero", lit(vfloat(0.0)), lit(vfloat("nzero"))),
             ("int/int", I(7), I(7)), ("arr/arr-float", arr(I(1), I(2)), arr(lit(vfloat(1.0)), I(2))), ("str/str", lit(vstr("k")), lit(vstr("k"))),
             ("big-int/float", I(1 << 20), lit(vfloat(float(1 << 20))))]
    for tag, k1, k2 in pairs:
        for others in (0, 3, 40):
            pre = [OBS_DECL, let("m", map_())] + [expr(call("insert", ident("m"), I(1000 + i), I(i))) for i in range(others)]
            prog = pre + [obs(call("insert", ident("m"), k1, I(10))), obs(call("get", ident("m"), k2)), obs(call("contains", ident("m"), k2)),
                          obs(call("insert", ident("m"), k2, I(11))), obs(call("len", ident("m"))), obs(call("get", ident("m"), k1))]
            out.append(("contract map-keys %s others=%d" % (tag, others), prog))
    for n in (1, 2, 3, 6):
        elems = [I(10 + i) for i in range(n)]
        for b in ("first", "last", "rest", "len", "sort", "join", "str", "contains", "get"):
            args = [ident("a")] + ([I(11)] if b == "contains" else [I(0)] if b == "get" else [])
            mk = (lambda: arr(*[lit({"k": "char", "v": 97 + i}) for i in range(n)])) if b == "join" else (lambda: arr(*elems))
            prog = [OBS_DECL, let("a", mk()), let("alias", ident("a")), obs(call(b, *args)), obs(ident("a")), obs(call("len", ident("alias"))),
                    obs(call(b, *args)), obs(call("last", ident("a")))]
            out.append(("contract pure-on-array %s n=%d" % (b, n), prog))
    return out


def run(rep, tier, seed):
    core.build_harness()
    cases, gres = progs.generate("GenCalls", cfg="GenCalls" if tier == "quick" else "GenCalls_thorough", timeout=900)
    rep.add_tlc(gres)
    items = []
    for c in cases:
        items.append({"id": c["id"], "prog": c["prog"], "b": c["b"], "ar": c["ar"],
                      "kinds": ",".join(t.split(":")[0] for t in c["tags"]), "tags": c["tags"]})
    rnd = random.Random(seed)
    n = 10000000
    for tag, prog in law_programs(rnd, 800 if tier == "quick" else 8000):
        items.append({"id": n, "prog": prog, "b": tag, "ar": 0, "kinds": "", "tags": []})
        n += 1
    for tag, prog in container_contracts():
        items.append({"id": n, "prog": prog, "b": " ".join(tag.split(" ")[:2]), "ar": 0, "kinds": tag.split(" ", 2)[2], "tags": []})
        n += 1
    bad, verdicts = progs.run_and_validate(rep, items, chk=("bname",))
    rep.cov["distinct_nontrivial"] = len({(it["b"], it["ar"], tuple(it["tags"])) for it in items if it["ar"] or not it["tags"]})
    rep.cov["rule"] = ("TLC-enumerated calls (spec/GenCalls.tla): 23 pure builtins at documented arities x 60 boundary "
                       "arguments (all pairs for 2-argument builtins; quick takes every 3rd case), other arities 0..3 "
                       "with a reduced set, 13 builtins that are not pure (no crash, result not prescribed); plus seeded random round-trip law programs; container contracts (equal keys of different kinds, pure builtins leave their array alone); distinct = distinct "
                       "(builtin, arity, argument tags)")
    rep.cov["exhaustive"] = False
    for it in items[:1] + items[-1:]:
        rep.sample({"src": it["src"], "out": it["out"]})
    for it, out, v in bad:
        sig = "builtin %s/%d (%s) %s" % (it["b"], it["ar"], it["kinds"], progs.outcome_delta(v["exp"], out))
        rep.disagree(sig, {"src": it["src"], "expected": v["exp"], "got": it["raw"], "args": it["tags"]})
    rep.assumptions += ["results the documentation does not pin down (text of str() for non-integers, char/byte of "
                        "out-of-range numbers, rounding ties, non-ASCII case mapping) are not compared",
                        "float(str(x)) == x is decided only where str(x) is pinned down (it is not: counted as "
                        "unspecified); floats outside the dyadic model are not compared"]


def replay(rep, path):
    print(json.dumps(json.load(open(path)), indent=1)[:6000])
