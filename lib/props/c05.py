"""C05 - conditionals, match and loops follow their documented control flow.

S->I: TLC (GenMatch) enumerates scrutinee x pattern tables; Python enumerates loop nests
with plain / labelled break / continue at every body position and if / else-if chains over
the truthiness domain.  Every program runs through the real pipeline and the execution is
validated by Conform.tla against RefSem."""
import itertools
import json
import random

from .. import core, progs
from ..past import (OBS_DECL, obs, lit, vint, vbool, vstr, vnull, vfloat, vchar, bin_, un, let, ident, call, idx, asg,
                    arr, map_, expr, I, if_, while_, loop, brk, cont, block, fndef, match, arm, plit, prange, pdef)

PROP = "C05"


def mark(s):
    return obs(lit(vstr(s)))


def loop_nests(depth_max):
    """yields (tag, prog)"""
    kinds = ["while", "loop"]
    ctrls = [None]
    for what in ("break", "continue"):
        for tgt in ("", "A", "B", "C"):
            ctrls.append((what, tgt))

    def mk_loop(level, kind, label, body):
        c = "c%d" % level
        inc = expr(asg(ident(c), bin_("+", ident(c), I(1))))
        if kind == "while":
            return [let(c, I(0)), while_(bin_("<", ident(c), I(3)), [inc] + body, lb=label)]
        return [let(c, I(0)), loop([expr(if_(bin_(">=", ident(c), I(3)), [brk()])), inc] + body, lb=label)]

    def ctrl_stmt(level, ctrl, when):
        if ctrl is None:
            return []
        what, tgt = ctrl
        s = brk(tgt) if what == "break" else cont(tgt)
        return [expr(if_(bin_("==", ident("c%d" % level), I(when)), [s]))]

    labels = ["A", "B", "C"]
    for depth in range(1, depth_max + 1):
        if depth >= 2:
            # one label on every level: a labelled break / continue names the nearest enclosing loop so labelled
            for kindsel in itertools.product(kinds, repeat=depth):
                for what in ("break", "continue"):
                    for pos in (0, 1):
                        for outer_what in (None, "break", "continue"):
                            lvl = depth - 1
                            body = ([mark("m%d" % lvl)] if pos == 1 else []) + ctrl_stmt(lvl, (what, "A"), 2) + \
                                   ([mark("m%d" % lvl)] if pos == 0 else []) + [mark("e%d" % lvl)]
                            stmts = mk_loop(lvl, kindsel[lvl], "A", body)
                            for l in range(depth - 2, -1, -1):
                                extra = ctrl_stmt(l, (outer_what, "A"), 1) if (l == depth - 2 and outer_what) else []
                                body = [mark("m%d" % l)] + stmts + extra + [mark("e%d" % l)]
                                stmts = mk_loop(l, kindsel[l], "A", body)
                            yield ("loops d=%d %s same-label inner=%s@%d outer=%s" % (depth, "/".join(kindsel), what, pos, outer_what),
                                   [OBS_DECL] + stmts + [mark("done")])
        for kindsel in itertools.product(kinds, repeat=depth):
            for labsel in itertools.product([True, False], repeat=depth):
                avail = [""] + [labels[i] for i in range(depth) if labsel[i]]
                cs = [c for c in ctrls if c is None or c[1] in avail]
                # one control statement in the innermost body (before or after its marker) and
                # optionally one in the enclosing body after the inner loop
                for inner_ctrl in cs:
                    for pos in (0, 1):
                        outer_opts = [None] if depth == 1 else [c for c in cs if c is None or c[1] in avail[:depth]]
                        for outer_ctrl in outer_opts:
                            if inner_ctrl is None and pos == 1:
                                continue
                            lvl = depth - 1
                            body = ([mark("m%d" % lvl)] if pos == 1 else []) + ctrl_stmt(lvl, inner_ctrl, 2) + \
                                   ([mark("m%d" % lvl)] if pos == 0 else []) + [mark("e%d" % lvl)]
                            stmts = mk_loop(lvl, kindsel[lvl], labels[lvl] if labsel[lvl] else "", body)
                            for l in range(depth - 2, -1, -1):
                                extra = ctrl_stmt(l, outer_ctrl, 1) if l == depth - 2 else []
                                body = [mark("m%d" % l)] + stmts + extra + [mark("e%d" % l)]
                                stmts = mk_loop(l, kindsel[l], labels[l] if labsel[l] else "", body)
                            tag = "loops d=%d %s %s inner=%s@%d outer=%s" % (
                                depth, "/".join(kindsel), "".join("L" if x else "-" for x in labsel), inner_ctrl, pos,
                                outer_ctrl)
                            yield tag, [OBS_DECL] + stmts + [mark("done")]


# the documented truthiness table, a falsey and a truthy representative of every kind it lists
COND_VALS = [("false", lit(vbool(False))), ("true", lit(vbool(True))), ("0", I(0)), ("7", I(7)),
             ("empty-str", lit(vstr(""))), ("str", lit(vstr("a"))), ("null", lit(vnull())), ("empty-arr", arr()),
             ("arr", arr(I(0))), ("0.0", lit(vfloat(0.0))), ("-0.0", un("-", lit(vfloat(0.0)))), ("0.5", lit(vfloat(0.5))),
             ("nan", lit(vfloat("nan"))), ("byte-0", call("byte", I(0))), ("byte-48", call("byte", I(48))),
             ("char-0", call("char", I(0))), ("char-48", call("char", I(48))), ("empty-map", map_()),
             ("map", map_((I(0), I(0))))]
BODIES = [("value", lambda n: [expr(I(n))]), ("let", lambda n: [let("t", I(n))]), ("empty", lambda n: []),
          ("stmts", lambda n: [obs(I(-n)), expr(I(n))])]


def if_chains(maxlen, rnd, limit):
    out = []
    for k in range(1, maxlen + 1):
        for conds in itertools.product(range(len(COND_VALS)), repeat=k):
            for has_else in (False, True):
                out.append((conds, has_else))
    # all chains of length 1 and 2, a seeded sample of the longer ones
    short = [c for c in out if len(c[0]) <= 2]
    longer = [c for c in out if len(c[0]) > 2]
    rnd.shuffle(longer)
    out = short + longer
    for conds, has_else in out[:max(limit, len(short))]:
        bsel = [rnd.randrange(len(BODIES)) for _ in range(len(conds) + 1)]
        node = {"t": "blk", "b": BODIES[bsel[-1]][1](99)} if has_else else {"t": "none"}
        for i in range(len(conds) - 1, -1, -1):
            node = {"t": "if", "c": COND_VALS[conds[i]][1], "th": BODIES[bsel[i]][1](10 + i), "el": node}
        tag = "if %s else=%s bodies=%s" % (",".join(COND_VALS[c][0] for c in conds), has_else,
                                          ",".join(BODIES[b][0] for b in bsel))
        yield tag, [OBS_DECL, obs(node)]


def value_positions():
    """if / match whose branch or arm bodies are of every kind (value, let, empty, statements then value, assignment,
    nested if), used where their value matters: between other elements of an array literal, as a call argument, as an
    operand, as a let initialiser.  Exactly one value must come out, whatever the body is made of."""
    from ..past import match, arm, plit, pdef
    bodies = [("value", lambda n: [expr(I(n))]), ("let", lambda n: [let("t", I(n))]), ("empty", lambda n: []),
              ("stmts", lambda n: [obs(I(-n)), expr(I(n))]), ("assign", lambda n: [expr(asg(ident("acc"), I(n)))]),
              ("nested-if", lambda n: [expr(if_(lit(vbool(True)), [expr(I(n))], [expr(I(0))]))]),
              ("obs-only", lambda n: [obs(I(n))]),
              # a bare nested block as last statement: the branch has no value of its own (null), and exactly one
              # value still comes out of the if / match
              ("nested-block", lambda n: [block([obs(I(n)), expr(I(n))])]),
              ("let-then-nested-block", lambda n: [let("t", I(n)), block([expr(bin_("+", ident("t"), I(1)))])])]
    holders = [("array-middle", lambda e: obs(arr(I(10), e, I(30)))),
               ("call-argument", lambda e: obs(call("snd", I(10), e))),
               ("operand", lambda e: obs(arr(bin_("==", e, lit(vnull())), I(30)))),
               ("let-init", lambda e: let("v", e)),
               ("map-value", lambda e: obs(map_((I(1), e))))]
    out = []
    pre = [OBS_DECL, fndef("snd", ["a", "b"], [expr(ident("b"))]), let("acc", I(0))]
    for b1n, b1 in bodies:
        for b2n, b2 in bodies[:4] + bodies[-2:-1]:
            for hn, hold in holders:
                for taken in (0, 1, 2):
                    # match with the first / second / no arm taken
                    m = match(I(taken), [arm([plit(vint(0))], b1(11)), arm([plit(vint(1)), plit(vint(5))], b2(22))])
                    out.append(("value-position match %s/%s in %s taken=%d" % (b1n, b2n, hn, taken),
                                pre + [hold(m), obs(ident("acc")), obs(I(77))]))
                for cond in (True, False):
                    e = if_(lit(vbool(cond)), b1(11), b2(22))
                    out.append(("value-position if %s/%s in %s cond=%s" % (b1n, b2n, hn, cond),
                                pre + [hold(e), obs(ident("acc")), obs(I(77))]))
                e = if_(lit(vbool(False)), b1(11))
                out.append(("value-position if-no-else %s in %s" % (b1n, hn), pre + [hold(e), obs(I(77))]))
    return out


def cross_kind_matches():
    """a scrutinee of another kind than the patterns, around the bounds 97..101 ('a'..'e'): integers, bytes, chars,
    floats (whole, fractional, NaN, infinite), strings, booleans against integer / byte / char / string ranges and
    literals.  Where the documentation leaves the outcome open RefSem does too; a float in an integer range, and a
    byte / an integer far outside the other kind's range, are settled."""
    from ..past import vfloat, vbyte, vchar, vnull
    scrut = [("int:%d" % n, I(n)) for n in (96, 97, 99, 101, 102, 200, -1)] + \
            [("byte:%d" % n, lit(vbyte(n))) for n in (96, 97, 99, 101, 102, 200, 0)] + \
            [("char:%s" % c, lit(vchar(c))) for c in "`acef"] + \
            [("float:%s" % x, lit(vfloat(x))) for x in (96.5, 97.0, 99.5, 101.0, 101.5, 102.0, "nan", "pinf", "ninf")] + \
            [("str:c", lit(vstr("c"))), ("str:99", lit(vstr("99"))), ("bool:true", lit(vbool(True))), ("null", lit(vnull()))]
    pats = {
        "int-range-excl": [prange(vint(97), vint(101), False)], "int-range-incl": [prange(vint(97), vint(101), True)],
        "byte-range-incl": [prange(vbyte(97), vbyte(101), True)], "byte-range-excl": [prange(vbyte(97), vbyte(101), False)],
        "char-range-incl": [prange(vchar("a"), vchar("e"), True)], "str-range-incl": [prange(vstr("a"), vstr("e"), True)],
        "int-literals": [plit(vint(97)), plit(vint(99))], "byte-literals": [plit(vbyte(97)), plit(vbyte(99))],
        "int-range-then-literal": [prange(vint(97), vint(99), False), plit(vint(101))],
        "bool-both-arms": [], "bool-alternation": [plit(vbool(True)), plit(vbool(False))],
    }
    out = []
    for sn, sv in scrut:
        for pn, ps in pats.items():
            if sn.split(":")[0] == pn.split("-")[0]:
                continue            # same kind: GenMatch's tables
            for dflt in (True, False):
                arms = [arm(ps, [expr(I(10))])] + ([arm([pdef()], [expr(I(99))])] if dflt else [])
                if pn == "bool-both-arms":     # true and false in arms of their own: still not every value
                    arms = [arm([plit(vbool(True))], [expr(I(10))]), arm([plit(vbool(False))], [expr(I(20))])] + arms[1:]
                out.append(("match-cross-kind %s in %s default=%s" % (sn, pn, dflt),
                            [OBS_DECL, fndef("probe", ["x"], [obs(lit(vstr("S"))), expr(ident("x"))]),
                             obs(match(call("probe", sv), arms)), obs(I(77))]))
    return out


def run(rep, tier, seed):
    core.build_harness()
    rnd = random.Random(seed)
    cases, gres = progs.generate("GenMatch", cfg="GenMatch" if tier == "quick" else "GenMatch_thorough")
    rep.add_tlc(gres)
    items = []
    for c in cases:
        items.append({"id": "m%d" % c["id"], "prog": c["prog"],
                      "tag": "match %s p=%d q=%d default=%s s=%d" % (c["kind"], c["p"], c["q"], c["dflt"], c["s"])})
    n = 0
    for tag, prog in loop_nests(2 if tier == "quick" else 3):
        items.append({"id": "l%d" % n, "prog": prog, "tag": tag})
        n += 1
    for tag, prog in if_chains(3, rnd, 1500 if tier == "quick" else 20000):
        items.append({"id": "i%d" % n, "prog": prog, "tag": tag})
        n += 1
    for k, (tag, prog) in enumerate(value_positions()):
        if tier == "quick" and k % 2:
            continue
        items.append({"id": "v%d" % n, "prog": prog, "tag": tag})
        n += 1
    for tag, prog in cross_kind_matches():
        items.append({"id": "x%d" % n, "prog": prog, "tag": tag})
        n += 1
    bad, verdicts = progs.run_and_validate(rep, items, chk=("final",))
    rep.notes["cross_kind_cases_settled_by_the_specification"] = sum(
        1 for it in items if it["tag"].startswith("match-cross-kind") and verdicts[it["id"]]["v"] == "ok")
    rep.cov["distinct_nontrivial"] = len({it["tag"] for it in items})
    rep.cov["rule"] = ("match: TLC-enumerated scrutinee x pattern tables (spec/GenMatch.tla, quick: every 7th); loops: all "
                       "nests up to depth 2 (thorough 3) of while/loop, labelled or not, with break/continue "
                       "(plain or to any enclosing label) at every body position; if-chains up to length 3 over the "
                       "truthiness domain with value / valueless / empty bodies; if / match with 7 kinds of bodies in 5 value "
                       "positions (array element, call argument, operand, let initialiser, map value); scrutinees of one kind against range / "
                       "literal patterns of another (35 scrutinees x 11 pattern sets x with / without default); distinct = distinct "
                       "shape tags")
    rep.cov["exhaustive"] = False
    for it in items[:1] + items[-1:]:
        rep.sample({"src": it["src"], "out": it["out"]})
    for it, out, v in bad:
        parts = it["tag"].split(" ")
        if parts[0] == "match":
            sig = "match %s %s %s %s" % (parts[1], parts[2], parts[3], progs.outcome_delta(v["exp"], out))
        elif parts[0] == "match-cross-kind":
            sig = "match-cross-kind %s in %s %s" % (parts[1].split(":")[0], parts[3], progs.outcome_delta(v["exp"], out))
        elif parts[0] in ("loops", "value-position"):
            sig = "%s %s" % (it["tag"], progs.outcome_delta(v["exp"], out))
        else:
            sig = "if bodies=%s %s" % (parts[-1], progs.outcome_delta(v["exp"], out))
        rep.disagree(sig, {"tag": it["tag"], "src": it["src"], "expected": v["exp"], "got": it["raw"]})


def replay(rep, path):
    print(json.dumps(json.load(open(path)), indent=1)[:4000])
