"""C17 - assigning a header field changes exactly that field.

Every writable property x in-range values (all values for fields of at most 8 bits,
thorough 12; boundary and walking-one otherwise) x out-of-range and wrong-kind values x
frames (fixed full stacks with options, random structure-aware frames), and random histories
of several assignments on one packet.  After every assignment the script reads every property
of every layer on the frame's path and writes the packet; spec/PacketTrace.tla validates the
history: an in-range assignment patches exactly the field's bits of (hdr, raw) - so the value
reads back, every other property reads as before and the written bytes differ only inside
the field - and an invalid value is either refused (runtime error, nothing changed) or stored
reduced to the field's width; read-only properties are refused."""
import json
import random
import shutil
import struct

from .. import core, pkt, pcapfmt
from .c16 import FIELD_POS, field_values

PROP = "C17"

PATHS = {"pkt": [], "eth": ["eth"], "vlan": ["eth", "vlan"], "ipv4": ["eth", "ipv4"], "ipv6": ["eth", "ipv6"],
         "tcp": ["eth", "ipv4", "tcp"], "udp": ["eth", "ipv4", "udp"], "ipv6/tcp": ["eth", "ipv6", "tcp"],
         "vlan/ipv4": ["eth", "vlan", "ipv4"], "vlan/ipv6": ["eth", "vlan", "ipv6"], "vlan/ipv6/udp": ["eth", "vlan", "ipv6", "udp"]}


def stack_frame(rnd, names):
    """a frame with exactly the named layer stack, options where possible, random contents"""
    out = bytearray()
    et = {"vlan": 0x8100, "ipv4": 0x0800, "ipv6": 0x86DD}
    for i, n in enumerate(names):
        nxt = names[i + 1] if i + 1 < len(names) else None
        if n == "eth":
            out += pkt.rbytes(rnd, 12) + struct.pack(">H", et.get(nxt, 0x88B5))
        elif n == "vlan":
            out += struct.pack(">HH", rnd.randrange(65536), et.get(nxt, 0x88B5))
        elif n == "ipv4":
            ihl = rnd.choice([5, 6, 7])
            h = bytearray(pkt.rbytes(rnd, 20))
            h[0] = 0x40 | ihl
            h[9] = {"tcp": 6, "udp": 17, "ipv6": 41}.get(nxt, 253)
            out += bytes(h) + bytes((0xA0 + k) & 255 for k in range((ihl - 5) * 4))
        elif n == "ipv6":
            h = bytearray(pkt.rbytes(rnd, 40))
            h[0] = 0x60 | (h[0] & 15)
            h[6] = {"tcp": 6, "udp": 17}.get(nxt, 59)
            out += bytes(h)
        elif n == "tcp":
            do = rnd.choice([5, 6, 8])
            h = bytearray(pkt.rbytes(rnd, 20))
            h[12] = (do << 4) | (h[12] & 15)
            out += bytes(h) + bytes((0xC0 + k) & 255 for k in range((do - 5) * 4)) + pkt.rbytes(rnd, rnd.randrange(0, 12))
        elif n == "udp":
            out += pkt.rbytes(rnd, 8) + pkt.rbytes(rnd, rnd.randrange(0, 12))
    return bytes(out)


def dump_steps(names, only_layer=None):
    """reads of every scalar property of every layer on the path (or of one layer)"""
    steps = []
    layers = [("pkt", [])] + [(n, names[:i + 1]) for i, n in enumerate(names)]
    for kind, path in layers:
        if only_layer is not None and kind != only_layer:
            continue
        for prop in pkt.LAYER_PROPS[kind]:
            steps.append({"op": "read", "path": [{"t": "name", "n": x} for x in path], "prop": prop})
        if kind != "pkt" and only_layer is None:
            steps.append({"op": "read", "path": [{"t": "name", "n": x} for x in path], "prop": "payload"})
    return steps


BAD_VALUES = [("neg", pkt.jint(-1)), ("maxint", pkt.jint((1 << 63) - 1)), ("minint", pkt.jint(-(1 << 63))),
              ("str", pkt.jstr("7")), ("bool", {"k": "bool", "v": True}), ("null", {"k": "null"}), ("float", {"k": "float"})]
GOOD_ADDR = {"mac": ["02:11:22:33:44:55", "FF:ff:0:1:a:B"], "ipv4": ["1.2.3.4", "255.0.10.199"],
             "ipv6": ["::1", "1:2:3:4:5:6:7:8", "fe80::a:B", "ABCD::", "2001:db8:0:1::5:6:7", "::2:3:4:5:6:7:8", "1:2:3:4:5:6:7::", "::"]}
BAD_ADDR = {"mac": ["1:2:3:4:5", "1:2:3:4:5:gg", ""], "ipv4": ["1.2.3", "1.2.3.256", "a.b.c.d"], "ipv6": ["1::2::3", "12345::", ":1"]}


def assign_items(rnd, tier, start):
    items = []

    def add(stack, kind, prop, val, tag):
        names = PATHS[stack]
        raw = stack_frame(rnd, names)
        lay_path = [{"t": "name", "n": x} for x in names[:names.index(kind) + 1]] if kind != "pkt" else []
        structural = (kind, prop) in pkt.STRUCTURAL
        hist = dump_steps(names, only_layer=kind)[:4]
        hist.append({"op": "assign", "path": lay_path, "prop": prop, "val": val})
        hist += dump_steps(names, only_layer=kind if structural else None)
        hist.append({"op": "write", "sink": "pcap_write"})
        if rnd.random() < 0.3:
            hist.append({"op": "write", "sink": "write"})
        items.append({"id": start + len(items), "hdr": pkt.record_header(rnd, len(raw)), "raw": raw, "hist": hist,
                      "via_dollar": rnd.random() < 0.3, "tag": tag, "check": ["read", "write", "assign"]})

    for stack in ("tcp", "udp", "ipv6/tcp", "vlan/ipv4"):
        kinds = ["pkt"] + PATHS[stack]
        for kind in set(kinds):
            for prop in pkt.LAYER_PROPS[kind]:
                if (kind, prop) in pkt.ADDR_FIELDS:
                    fam = pkt.ADDR_FIELDS[(kind, prop)]
                    for t in GOOD_ADDR[fam]:
                        add(stack, kind, prop, pkt.jstr(t), "assign %s.%s addr-valid" % (kind, prop))
                    for t in BAD_ADDR[fam]:
                        add(stack, kind, prop, pkt.jstr(t), "assign %s.%s addr-malformed" % (kind, prop))
                    add(stack, kind, prop, pkt.jint(5), "assign %s.%s wrong-kind int" % (kind, prop))
                    continue
                if (kind, prop) == ("vlan", "dei"):
                    for v in (True, False):
                        add(stack, kind, prop, {"k": "bool", "v": v}, "assign vlan.dei bool")
                    add(stack, kind, prop, pkt.jint(1), "assign vlan.dei wrong-kind int")
                    add(stack, kind, prop, pkt.jstr("x"), "assign vlan.dei wrong-kind str")
                    continue
                w = pkt.FIELD_BITS.get((kind, prop))
                if w is None:           # version (read-only)
                    add(stack, kind, prop, pkt.jint(4), "assign %s.%s read-only" % (kind, prop))
                    continue
                if stack != "tcp" and kind in ("pkt", "eth") and stack != "udp":
                    vals = [0, (1 << w) - 1]
                elif w <= 8 or (tier == "thorough" and w <= 12):
                    vals = list(range(1 << w))
                    if tier == "quick" and w == 8:
                        vals = vals[::5] + [255]
                else:
                    vals = field_values(min(w, 32), tier) if w <= 16 else [0, 1, (1 << w) - 1, 1 << (w - 1), 0x12345678 & ((1 << w) - 1)]
                for v in vals:
                    add(stack, kind, prop, pkt.jint(v), "assign %s.%s in-range" % (kind, prop))
                for v in (1 << w, (1 << w) + 1):
                    add(stack, kind, prop, pkt.jint(v), "assign %s.%s above-range" % (kind, prop))
                for name, bv in BAD_VALUES:
                    add(stack, kind, prop, bv, "assign %s.%s invalid-%s" % (kind, prop, name))
    return items


def struct_values(raw, names):
    """current values of the fields that select the next layer or give a header length, read off the frame"""
    out = {}
    off = 0
    for n in names:
        if n == "eth":
            out[("eth", "type")] = int.from_bytes(raw[off + 12:off + 14], "big")
            off += 14
        elif n == "vlan":
            out[("vlan", "type")] = int.from_bytes(raw[off + 2:off + 4], "big")
            off += 4
        elif n == "ipv4":
            out[("ipv4", "ihl")] = raw[off] & 15
            out[("ipv4", "proto")] = raw[off + 9]
            off += (raw[off] & 15) * 4
        elif n == "ipv6":
            out[("ipv6", "nextheader")] = raw[off + 6]
            off += 40
        elif n == "tcp":
            out[("tcp", "dataoff")] = raw[off + 12] >> 4
    return out


def sequence_histories(rnd, start):
    """two assignments on one packet: a field of one layer, and a field that selects the next layer or gives a
    header length re-assigned the value it already has (the structure stays, so everything stays decided); in both
    orders.  An assignment must not undo or hide an earlier one made in another layer."""
    items = []
    inner = {"eth": ["src"], "vlan": ["priority", "id"], "ipv4": ["ttl", "id", "dst"], "ipv6": ["hoplimit", "flowlabel"],
             "tcp": ["srcport", "window", "flags"], "udp": ["dstport"]}
    for stack in ("tcp", "udp", "ipv6/tcp", "vlan/ipv4", "vlan/ipv6/udp"):
        names = PATHS[stack]
        for ikind in names:
            for iprop in inner.get(ikind, []):
                if iprop not in pkt.LAYER_PROPS[ikind]:
                    continue
                raw = stack_frame(rnd, names)
                cur = struct_values(raw, names)
                for (skind, sprop), sval in sorted(cur.items()):
                    for order in (0, 1):
                        ipath = [{"t": "name", "n": x} for x in names[:names.index(ikind) + 1]]
                        spath = [{"t": "name", "n": x} for x in names[:names.index(skind) + 1]]
                        if (ikind, iprop) in pkt.ADDR_FIELDS:
                            ival = pkt.jstr(GOOD_ADDR[pkt.ADDR_FIELDS[(ikind, iprop)]][0])
                        else:
                            ival = pkt.jint(rnd.randrange(1 << pkt.FIELD_BITS[(ikind, iprop)]))
                        a1 = {"op": "assign", "path": ipath, "prop": iprop, "val": ival}
                        a2 = {"op": "assign", "path": spath, "prop": sprop, "val": pkt.jint(sval)}
                        hist = dump_steps(names, only_layer=ikind)[:2] + ([a1, a2] if order == 0 else [a2, a1])
                        hist += dump_steps(names) + [{"op": "write", "sink": "pcap_write"}]
                        items.append({"id": start + len(items), "hdr": pkt.record_header(rnd, len(raw)), "raw": raw,
                                      "hist": hist, "via_dollar": False, "check": ["read", "write", "assign"],
                                      "tag": "sequence %s.%s %s %s.%s(same value)" % (ikind, iprop, "then" if order == 0 else "after", skind, sprop)})
    return items


def truncated_inner_histories(rnd, start):
    """the innermost layer is cut short by the capture: reading it yields an error object; an assignment to a field of an
    enclosing layer made after that read must still leave every captured byte outside the field as it was"""
    items = []
    outer_field = {"ipv4": ("ttl", 8), "ipv6": ("hoplimit", 8), "vlan": ("id", 12), "eth": ("type", None)}
    for stack in ("tcp", "udp", "ipv6/tcp", "vlan/ipv6/udp"):
        names = PATHS[stack]
        full = stack_frame(rnd, names)
        # offset of the innermost layer
        off = 0
        for n in names[:-1]:
            if n == "eth":
                off += 14
            elif n == "vlan":
                off += 4
            elif n == "ipv4":
                off += (full[off] & 15) * 4
            elif n == "ipv6":
                off += 40
        for keep in (0, 1, 5, 7):
            raw = full[:off + keep]
            for okind in names[:-1]:
                prop, bits = outer_field[okind]
                if bits is None:
                    continue
                ipath = [{"t": "name", "n": x} for x in names]
                opath = [{"t": "name", "n": x} for x in names[:names.index(okind) + 1]]
                for read_first in (True, False):
                    hist = []
                    if read_first:
                        hist.append({"op": "read", "path": ipath, "prop": "payload"})
                    hist.append({"op": "assign", "path": opath, "prop": prop, "val": pkt.jint(rnd.randrange(1 << bits))})
                    hist += dump_steps(names[:names.index(okind) + 1], only_layer=okind)[:3]
                    hist.append({"op": "write", "sink": "pcap_write"})
                    items.append({"id": start + len(items), "hdr": pkt.record_header(rnd, len(raw)), "raw": raw, "hist": hist,
                                  "via_dollar": False, "check": ["write", "assign"],
                                  "tag": "truncated-inner %s keep=%d assign %s.%s %s" % (stack, keep, okind, prop,
                                                                                         "after-read" if read_first else "no-read")})
    return items


def odd_frames(rnd, start):
    """frames the fixed stacks do not have: two 802.1Q tags in a row (assignments to the inner tag and below it), an
    IPv4 header / a TCP header whose length field is below the minimum (the fields still sit where they sit: an
    assignment patches exactly its bits; what lies below such a header is not settled and not looked at)"""
    items = []

    def add(names, raw, pos, prop, val, tag, dump_upto):
        path = [{"t": "name", "n": x} for x in names[:pos + 1]]
        hist = [{"op": "read", "path": path, "prop": prop}, {"op": "assign", "path": path, "prop": prop, "val": val}]
        hist += dump_steps(names[:dump_upto]) + [{"op": "write", "sink": "pcap_write"}, {"op": "read", "path": path, "prop": prop}]
        items.append({"id": start + len(items), "hdr": pkt.record_header(rnd, len(raw)), "raw": raw, "hist": hist,
                      "via_dollar": rnd.random() < 0.3, "tag": tag, "check": ["read", "write", "assign"]})

    for names in (["eth", "vlan", "vlan"], ["eth", "vlan", "vlan", "ipv4"], ["eth", "vlan", "vlan", "ipv6", "udp"]):
        for rep_ in range(2):
            raw = stack_frame(rnd, names)
            for pos in range(1, len(names)):
                kind = names[pos]
                for prop in pkt.LAYER_PROPS[kind]:
                    if (kind, prop) in pkt.STRUCTURAL or (kind, prop) in pkt.ADDR_FIELDS:
                        continue
                    w = pkt.FIELD_BITS.get((kind, prop))
                    if (kind, prop) == ("vlan", "dei"):
                        val = {"k": "bool", "v": rnd.random() < 0.5}
                    elif w is None:
                        continue
                    else:
                        val = pkt.jint(rnd.randrange(1 << w))
                    add(names, raw, pos, prop, val, "two-tags %s assign %s[%d].%s" % ("/".join(names[1:]), kind, pos, prop), len(names))
    for names in (["eth", "ipv4", "ipv6"], ["eth", "ipv4", "ipv6", "udp"], ["eth", "vlan", "ipv4", "ipv6", "tcp"]):
        for rep_ in range(4):
            raw = stack_frame(rnd, names)
            for pos in range(names.index("ipv6"), len(names)):
                kind = names[pos]
                for prop in pkt.LAYER_PROPS[kind]:
                    if (kind, prop) in pkt.STRUCTURAL or (kind, prop) in pkt.ADDR_FIELDS:
                        continue
                    w = pkt.FIELD_BITS.get((kind, prop))
                    if w is None or rnd.random() < 0.5:
                        continue
                    add(names, raw, pos, prop, pkt.jint(rnd.randrange(1 << min(w, 31))), "tunnel %s assign %s.%s" % ("/".join(names[1:]), kind, prop), len(names))
    for ihl in (0, 1, 3, 4):
        for names in (["eth", "ipv4"], ["eth", "vlan", "ipv4"]):
            raw = bytearray(stack_frame(rnd, names) + pkt.rbytes(rnd, 24))
            off = 14 + 4 * (len(names) - 2)
            raw[off] = 0x40 | ihl
            for prop, val in (("ttl", pkt.jint(rnd.randrange(256))), ("id", pkt.jint(rnd.randrange(65536))), ("dscp", pkt.jint(rnd.randrange(64))),
                              ("dst", pkt.jstr("10.9.8.7")), ("flags", pkt.jint(rnd.randrange(8)))):
                if prop in pkt.LAYER_PROPS["ipv4"]:
                    add(names, bytes(raw), len(names) - 1, prop, val, "short-ihl=%d assign ipv4.%s" % (ihl, prop), len(names))
    for do in (0, 2, 4):
        names = ["eth", "ipv4", "tcp"]
        raw = bytearray(stack_frame(rnd, names) + pkt.rbytes(rnd, 8))
        ihl = raw[14] & 15
        off = 14 + 4 * ihl
        raw[off + 12] = (do << 4) | (raw[off + 12] & 15)
        for prop in ("srcport", "dstport", "window", "seq"):
            if prop in pkt.LAYER_PROPS["tcp"]:
                w = pkt.FIELD_BITS[("tcp", prop)]
                add(names, bytes(raw), 2, prop, pkt.jint(rnd.randrange(1 << min(w, 31))), "short-dataoff=%d assign tcp.%s" % (do, prop), 3)
    return items


def random_histories(rnd, n, start):
    items = []
    for i in range(n):
        stack = rnd.choice(list(PATHS)[1:])
        names = PATHS[stack]
        raw = stack_frame(rnd, names)
        hist = []
        for _ in range(rnd.randint(2, 4)):
            kind = rnd.choice(["pkt"] + names)
            prop = rnd.choice(pkt.LAYER_PROPS[kind])
            path = [{"t": "name", "n": x} for x in names[:names.index(kind) + 1]] if kind != "pkt" else []
            if (kind, prop) in pkt.STRUCTURAL or pkt.FIELD_BITS.get((kind, prop)) is None and (kind, prop) not in pkt.ADDR_FIELDS \
                    and (kind, prop) != ("vlan", "dei"):
                continue
            if (kind, prop) in pkt.ADDR_FIELDS:
                val = pkt.jstr(rnd.choice(GOOD_ADDR[pkt.ADDR_FIELDS[(kind, prop)]]))
            elif (kind, prop) == ("vlan", "dei"):
                val = {"k": "bool", "v": rnd.random() < 0.5}
            else:
                val = pkt.jint(rnd.randrange(1 << pkt.FIELD_BITS[(kind, prop)]))
            hist.append({"op": "assign", "path": path, "prop": prop, "val": val})
            for _ in range(rnd.randint(0, 3)):
                hist.append(pkt.rand_read(rnd, [(k, 0) for k in names], dollar=False))
            if rnd.random() < 0.5:
                hist.append({"op": "write", "sink": rnd.choice(["pcap_write", "write"])})
        hist += dump_steps(names)
        hist.append({"op": "write", "sink": "pcap_write"})
        items.append({"id": start + len(items), "hdr": pkt.record_header(rnd, len(raw)), "raw": raw, "hist": hist,
                      "via_dollar": False, "tag": "random-history " + stack, "check": ["read", "write", "assign"]})
    return items


def run(rep, tier, seed):
    core.build_harness()
    rnd = random.Random(seed)
    d = core.workdir("c17")
    try:
        items = assign_items(rnd, tier, 0)
        items += random_histories(rnd, 1000 if tier == "quick" else 6000, len(items))
        items += sequence_histories(rnd, len(items))
        items += truncated_inner_histories(rnd, len(items))
        items += odd_frames(rnd, len(items))
        recs = pkt.run_histories(items, d)
        for it, r in zip(items, recs):
            r["check"] = it["check"]
        verdicts, tres = core.tlc_validate("PacketTrace", recs, timeout=2400)
        rep.add_tlc(tres)
        rep.cov["traces_validated_against_impl"] += len(recs)
        rep.cov["evaluations"] += len(recs)
        outcomes = {"ok": 0, "rterror": 0}
        for it in items:
            for st in it["steps"]:
                if st["op"] == "assign":
                    k = st["res"]["k"]
                    outcomes[k] = outcomes.get(k, 0) + 1
            v = verdicts[it["id"]]
            if v["v"] == "bad":
                st = it["steps"][v["at"] - 1]
                clause = {"read": "other-property-or-readback", "write": "bytes-outside-field", "assign-outcome": "outcome",
                          "crash": "crash"}.get(v["why"], v["why"])
                what = pkt.describe_step(st)
                sig = "%s violated=%s%s" % (it["tag"], clause, (" at " + what.split(" ", 1)[1]) if v["why"] == "read" else "")
                rep.disagree(sig, {"script": it["src"], "frame_hex": bytes(it["raw"]).hex(), "step": what, "got": st.get("res", st.get("bytes")),
                                   "expected_bytes_hex": bytes(v.get("want", [])).hex(), "run": it["run"]})
        rep.notes["assignment_outcomes"] = outcomes
        rep.cov["distinct_nontrivial"] = len({it["src"] for it in items})
        rep.cov["rule"] = ("every writable property x (all values up to 8 bits [thorough 12], boundary / walking bits otherwise) x "
                           "above-range, negative, wrong-kind values, valid and malformed address texts, read-only properties, on "
                           "four fixed layer stacks with options; followed by a read of every property on the path and a write; "
                           "plus random histories of 2-4 assignments with reads and writes in between, and two-assignment sequences "
                           "pairing a field of one layer with a structure-selecting field re-assigned its own value, in both "
                           "orders; frames with two 802.1Q tags and with IPv4 / TCP length fields below the minimum; distinct = distinct scripts")
        rep.cov["exhaustive"] = False
        rep.sample({"script": items[0]["src"][:1500], "frame_hex": bytes(items[0]["raw"]).hex()})
    finally:
        shutil.rmtree(d, ignore_errors=True)


def replay(rep, path):
    print(json.dumps(json.load(open(path)), indent=1)[:6000])
