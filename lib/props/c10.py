"""C10 - map lookups are consistent with value equality.

S->I: TLC (GenMaps) enumerates write;write;query histories over the key domain; programs run
through the real pipeline; Conform.tla validates against the association-list model.
I->S: seeded random histories of up to 30 operations over 20 keys."""
import json
import random

from .. import core, progs
from ..past import (OBS_DECL, obs, lit, vint, vfloat, vbyte, vchar, vstr, vbool, bin_, un, let, ident, call, idx,
                    asg, arr, map_, expr, I)

PROP = "C10"


def kind(tag):
    return tag.split(":")[0]


def rand_history(rnd, n):
    keys = [I(1), lit(vfloat(1.0)), I(2), lit(vfloat(2.0)), I(0), lit(vfloat(0.0)), lit(vfloat("nzero")),
            lit(vfloat("nan")), lit(vfloat(2.5)), lit(vchar("a")), lit(vstr("a")), lit(vstr("")), lit(vbool(True)),
            lit(vbool(False)), ident("len"), arr(I(1)), arr(lit(vfloat(1.0))), arr(arr(I(1))), arr(), I(-1)]
    prog = [OBS_DECL, let("m", map_())]
    for i in range(n):
        k = rnd.choice(keys)
        r = rnd.random()
        from ..past import vnull
        val = lit(vnull()) if rnd.random() < 0.15 else I(100 + i)
        if r < 0.25:
            prog.append(obs(call("insert", ident("m"), k, val)))
        elif r < 0.45:
            prog.append(expr(asg(idx(ident("m"), k), val)))
        elif r < 0.65:
            prog.append(obs(call("get", ident("m"), k)))
        elif r < 0.85:
            prog.append(obs(call("contains", ident("m"), k)))
        elif r < 0.95:
            prog.append(obs(call("len", ident("m"))))
        else:
            prog.append(obs(if_contains_index(k)))
    prog.append(obs(call("len", ident("m"))))
    return prog


def if_contains_index(k):
    from ..past import if_
    return if_(call("contains", ident("m"), k), [expr(idx(ident("m"), k))], [expr(lit(vstr("absent")))])


def run(rep, tier, seed):
    core.build_harness()
    cases, gres = progs.generate("GenMaps", cfg="GenMaps" if tier == "quick" else "GenMaps_thorough")
    rep.add_tlc(gres)
    items = [dict(c) for c in cases]
    rnd = random.Random(seed)
    nrand = 300 if tier == "quick" else 3000
    for i in range(nrand):
        items.append({"id": 10000000 + i, "prog": rand_history(rnd, rnd.randint(5, 30)), "w1": "rand", "k1": "rand:",
                      "w2": "", "k2": "rand:", "k3": "rand:"})
    bad, verdicts = progs.run_and_validate(rep, items, chk=())
    rep.cov["distinct_nontrivial"] = len({(it["w1"], it["k1"], it["w2"], it["k2"], it["k3"]) for it in items
                                          if it["w1"] != "rand"}) + nrand
    rep.cov["rule"] = ("TLC-enumerated histories write(k1);write(k2);query(k3) (spec/GenMaps.tla; quick takes every 5th) "
                       "over 16 keys x 3 ways of writing, 4 queries each, plus seeded random histories; distinct = "
                       "distinct (way, key, way, key, key) tuples; all contain at least one lookup")
    rep.cov["exhaustive"] = False
    for it in items[:1] + items[-1:]:
        rep.sample({"src": it["src"], "out": it["out"]})
    for it, out, v in bad:
        sig = "map %s:%s %s:%s q:%s %s" % (it["w1"], kind(it["k1"]), it["w2"], kind(it["k2"]), kind(it["k3"]),
                                          progs.outcome_delta(v["exp"], out))
        rep.disagree(sig, {"src": it["src"], "expected": v["exp"], "got": it["raw"]})


def replay(rep, path):
    print(json.dumps(json.load(open(path)), indent=1)[:4000])
