"""C10 - map lookups are consistent with value equality.

S->I: TLC (GenMaps) enumerates write;write;query histories over the key domain; programs run
through the real pipeline; Conform.tla validates against the association-list model.
I->S: seeded random histories of up to 30 operations over 20 keys."""
import json
import random

from .. import core, progs
from ..past import (OBS_DECL, obs, lit, vint, vfloat, vbyte, vchar, vstr, vbool, bin_, un, let, ident, call, idx,
                    asg, arr, map_, expr, I)

PROP = "C10"


def kind(tag):
    return tag.split(":")[0]


def rand_history(rnd, n):
    keys = [I(1), lit(vfloat(1.0)), I(2), lit(vfloat(2.0)), I(0), lit(vfloat(0.0)), lit(vfloat("nzero")),
            lit(vfloat("nan")), lit(vfloat(2.5)), lit(vchar("a")), lit(vstr("a")), lit(vstr("")), lit(vbool(True)),
            lit(vbool(False)), ident("len"), arr(I(1)), arr(lit(vfloat(1.0))), arr(arr(I(1))), arr(), I(-1)]
    prog = [OBS_DECL, let("m", map_())]
    for i in range(n):
        k = rnd.choice(keys)
        r = rnd.random()
        from ..past import vnull
        val = lit(vnull()) if rnd.random() < 0.15 else I(100 + i)
        if r < 0.25:
            prog.append(obs(call("insert", ident("m"), k, val)))
        elif r < 0.45:
            prog.append(expr(asg(idx(ident("m"), k), val)))
        elif r < 0.65:
            prog.append(obs(call("get", ident("m"), k)))
        elif r < 0.85:
            prog.append(obs(call("contains", ident("m"), k)))
        elif r < 0.95:
            prog.append(obs(call("len", ident("m"))))
        else:
            prog.append(obs(if_contains_index(k)))
    prog.append(obs(call("len", ident("m"))))
    return prog


def if_contains_index(k):
    from ..past import if_
    return if_(call("contains", ident("m"), k), [expr(idx(ident("m"), k))], [expr(lit(vstr("absent")))])


def relation_itself(rep):
    """every ordered pair of a key domain through one fixed history; the map must agree with whatever == says about the
    pair (spec/MapEqTrace.tla) - this also covers pairs whose equality the documentation leaves open"""
    from ..past import vnull
    dom = [("int:1", I(1)), ("int:0", I(0)), ("int:65", I(65)), ("int:-1", I(-1)), ("float:1.0", lit(vfloat(1.0))),
           ("float:0.0", lit(vfloat(0.0))), ("float:-0.0", lit(vfloat("nzero"))), ("float:65.0", lit(vfloat(65.0))),
           ("float:2.5", lit(vfloat(2.5))), ("byte:1", call("byte", I(1))), ("byte:0", call("byte", I(0))),
           ("byte:65", lit(vbyte(65))), ("char:A", lit(vchar("A"))), ("char:1", lit(vchar("1"))), ("str:A", lit(vstr("A"))),
           ("str:1", lit(vstr("1"))), ("str:empty", lit(vstr(""))), ("bool:true", lit(vbool(True))),
           ("bool:false", lit(vbool(False))), ("builtin:len", ident("len")), ("arr:[1]", arr(I(1))),
           ("arr:[1.0]", arr(lit(vfloat(1.0)))), ("arr:[byte1]", arr(call("byte", I(1)))), ("arr:[[0]]", arr(arr(I(0)))),
           ("arr:[[0.0]]", arr(arr(lit(vfloat(0.0))))), ("arr:[]", arr()), ("arr:[65,'A']", arr(I(65), lit(vchar("A")))),
           ("arr:[A65]", arr(lit(vbyte(65)), lit(vchar("A")))),
           ("float:nan", lit(vfloat("nan"))), ("arr:[nan]", arr(lit(vfloat("nan")))), ("arr:[[nan],1]", arr(arr(lit(vfloat("nan"))), I(1)))]
    items = []

    def history(a, b):
        return [OBS_DECL, let("k1", a), let("k2", b), let("m", map_()), expr(asg(idx(ident("m"), ident("k1")), I(1))),
                obs(bin_("==", ident("k1"), ident("k2"))), obs(call("contains", ident("m"), ident("k2"))),
                obs(call("insert", ident("m"), ident("k2"), I(2))), obs(call("len", ident("m"))),
                obs(call("get", ident("m"), ident("k1"))), obs(idx(ident("m"), ident("k2")))]
    for ta, a in dom:
        for tb, b in dom:
            items.append({"id": "%s|%s" % (ta, tb), "prog": history(a, b), "ta": ta, "tb": tb})
        # the same value object under both names (k2 = k1): still "the same entry exactly when k1 == k2"
        items.append({"id": "%s|same-object" % ta, "prog": history(a, ident("k1")), "ta": ta, "tb": "same-object:" + ta})
    from ..past import render
    for it in items:
        it["src"], _ = render(it["prog"])
    res = core.run_cases([{"id": it["id"], "src": it["src"]} for it in items])
    recs = []
    for it in items:
        r = res[it["id"]]
        it["raw"] = r
        ob = []
        for o in ((r.get("obs") or {}).get("v") or []):
            if o["k"] == "bool":
                ob.append(o["v"])
            elif o["k"] == "int":
                ob.append(o["v"][0] if all(b == 0 for b in o["v"][1:]) else -1)
            elif o["k"] == "null":
                ob.append("null")
            else:
                ob.append("other:" + o["k"])
        recs.append({"id": it["id"], "how": r.get("how", "none"), "obs": ob})
    verdicts, tres = core.tlc_validate("MapEqTrace", recs, workers=2)
    rep.add_tlc(tres)
    rep.cov["traces_validated_against_impl"] += len(recs)
    rep.cov["evaluations"] += len(recs)
    for it in items:
        if verdicts[it["id"]]["v"] == "bad":
            rep.disagree("map-vs-equality %s %s" % (kind(it["ta"]) if not it["tb"].startswith("same-object") else it["ta"], kind(it["tb"])),
                         {"src": it["src"], "keys": [it["ta"], it["tb"]], "observed": [r for r in recs if r["id"] == it["id"]][0]["obs"],
                          "how": it["raw"].get("how"), "msg": it["raw"].get("msg")})
    return len(items)


def replacements():
    """a write under an equal key replaces the stored value even when the new value equals the old one: the two can
    still be told apart (1 and 1.0 under division, 0.0 and -0.0 under 1/x, two arrays with equal contents once one of
    them is changed)"""
    from ..past import vnull
    keys = {"int": I(7), "str": lit(vstr("k")), "arr": arr(I(1)), "float-for-int": None}
    out = []
    pairs = {
        "int-then-float": (I(1), lit(vfloat(1.0)), lambda e: bin_("/", e, I(2))),
        "float-then-int": (lit(vfloat(1.0)), I(1), lambda e: bin_("/", e, I(2))),
        "zero-then-negzero": (lit(vfloat(0.0)), lit(vfloat("nzero")), lambda e: bin_("/", I(1), e)),
        "negzero-then-zero": (lit(vfloat("nzero")), lit(vfloat(0.0)), lambda e: bin_("/", I(1), e)),
        "byte-then-int": (lit(vbyte(200)), I(200), lambda e: bin_("+", e, I(100))),
    }
    ways = {"index": lambda k, v: expr(asg(idx(ident("m"), k), v)), "insert": lambda k, v: expr(call("insert", ident("m"), k, v))}
    for kn in ("int", "str", "arr", "float-for-int"):
        for pn, (v1, v2, probe) in pairs.items():
            for w1n, w1 in ways.items():
                for w2n, w2 in ways.items():
                    k1 = keys[kn] if kn != "float-for-int" else I(7)
                    k2 = keys[kn] if kn != "float-for-int" else lit(vfloat(7.0))
                    prog = [OBS_DECL, let("m", map_()), w1(k1, v1), w2(k2, v2), obs(probe(idx(ident("m"), k1))),
                            obs(probe(call("get", ident("m"), k2))), obs(call("len", ident("m")))]
                    out.append(("replace %s %s %s/%s" % (kn, pn, w1n, w2n), prog))
        for w1n, w1 in ways.items():
            for w2n, w2 in ways.items():
                for changed in ("second", "first"):
                    k1 = keys[kn] if kn != "float-for-int" else I(7)
                    k2 = keys[kn] if kn != "float-for-int" else lit(vfloat(7.0))
                    prog = [OBS_DECL, let("m", map_()), let("a", arr(I(1))), let("b", arr(I(1))), w1(k1, ident("a")), w2(k2, ident("b")),
                            expr(call("push", ident("b" if changed == "second" else "a"), I(2))), obs(idx(ident("m"), k1)),
                            obs(call("len", call("get", ident("m"), k2))), obs(call("len", ident("m")))]
                    out.append(("replace %s equal-arrays-%s-changed %s/%s" % (kn, changed, w1n, w2n), prog))
    return out


def run(rep, tier, seed):
    core.build_harness()
    cases, gres = progs.generate("GenMaps", cfg="GenMaps" if tier == "quick" else "GenMaps_thorough")
    rep.add_tlc(gres)
    items = [dict(c) for c in cases]
    rnd = random.Random(seed)
    nrand = 900 if tier == "quick" else 3000
    for i in range(nrand):
        items.append({"id": 10000000 + i, "prog": rand_history(rnd, rnd.randint(5, 30)), "w1": "rand", "k1": "rand:",
                      "w2": "", "k2": "rand:", "k3": "rand:"})
    for k, (tag, prog) in enumerate(replacements()):
        parts = tag.split(" ")
        items.append({"id": 20000000 + k, "prog": prog, "w1": parts[3].split("/")[0], "k1": parts[1] + ":", "w2": parts[3].split("/")[1],
                      "k2": parts[2] + ":", "k3": "replaced:"})
    bad, verdicts = progs.run_and_validate(rep, items, chk=())
    nrel = relation_itself(rep)
    rep.cov["distinct_nontrivial"] = len({(it["w1"], it["k1"], it["w2"], it["k2"], it["k3"]) for it in items
                                          if it["w1"] != "rand"}) + nrand + nrel
    rep.cov["rule"] = ("TLC-enumerated histories write(k1);write(k2);query(k3) (spec/GenMaps.tla; quick takes every 5th) "
                       "over 16 keys x 3 ways of writing, 4 queries each, plus seeded random histories, plus all ordered pairs of "
                       "28 keys of every kind through one fixed history whose observations must agree with the observed "
                       "k1 == k2 (spec/MapEqTrace.tla; 31 keys incl. NaN, plus every key under two names), replacement under equal keys with "
                       "equal but distinguishable values (4 kinds of keys x 7 value pairs x 2 x 2 ways of writing); distinct = "
                       "distinct (way, key, way, key, key) tuples; all contain at least one lookup")
    rep.cov["exhaustive"] = False
    for it in items[:1] + items[-1:]:
        rep.sample({"src": it["src"], "out": it["out"]})
    for it, out, v in bad:
        sig = "map %s:%s %s:%s q:%s %s" % (it["w1"], kind(it["k1"]), it["w2"], kind(it["k2"]), kind(it["k3"]),
                                          progs.outcome_delta(v["exp"], out))
        rep.disagree(sig, {"src": it["src"], "expected": v["exp"], "got": it["raw"]})


def replay(rep, path):
    print(json.dumps(json.load(open(path)), indent=1)[:4000])
