"""C10 - map lookups are consistent with value equality.

S->I: TLC (GenMaps) enumerates write;write;query histories over the key domain; programs run
through the real pipeline; Conform.tla validates against the association-list model.
I->S: seeded random histories of up to 30 operations over 20 keys."""
import json
import random

from .. import core, progs
from ..past import (OBS_DECL, obs, lit, vint, vfloat, vbyte, vchar, vstr, vbool, bin_, un, let, ident, call, idx,
                    asg, arr, map_, expr, I)

PROP = "C10"


def kind(tag):
    return tag.split(":")[0]


def rand_history(rnd, n):
    keys = [I(1), lit(vfloat(1.0)), I(2), lit(vfloat(2.0)), I(0), lit(vfloat(0.0)), lit(vfloat("nzero")),
            lit(vfloat("nan")), lit(vfloat(2.5)), lit(vchar("a")), lit(vstr("a")), lit(vstr("")), lit(vbool(True)),
            lit(vbool(False)), ident("len"), arr(I(1)), arr(lit(vfloat(1.0))), arr(arr(I(1))), arr(), I(-1)]
    prog = [OBS_DECL, let("m", map_())]
    for i in range(n):
        k = rnd.choice(keys)
        r = rnd.random()
        from ..past import vnull
        val = lit(vnull()) if rnd.random() < 0.15 else I(100 + i)
        if r < 0.25:
            prog.append(obs(call("insert", ident("m"), k, val)))
        elif r < 0.45:
            prog.append(expr(asg(idx(ident("m"), k), val)))
        elif r < 0.65:
            prog.append(obs(call("get", ident("m"), k)))
        elif r < 0.85:
            prog.append(obs(call("contains", ident("m"), k)))
        elif r < 0.95:
            prog.append(obs(call("len", ident("m"))))
        else:
            prog.append(obs(if_contains_index(k)))
    prog.append(obs(call("len", ident("m"))))
    return prog


def if_contains_index(k):
    from ..past import if_
    return if_(call("contains", ident("m"), k), [expr(idx(ident("m"), k))], [expr(lit(vstr("absent")))])


def relation_itself(rep):
    """every ordered pair of a key domain through one fixed history; the map must agree with whatever == says about the
    pair (spec/MapEqTrace.tla) - this also covers pairs whose equality the documentation leaves open"""
    from ..past import vnull
    dom = [("int:1", I(1)), ("int:0", I(0)), ("int:65", I(65)), ("int:-1", I(-1)), ("float:1.0", lit(vfloat(1.0))),
           ("float:0.0", lit(vfloat(0.0))), ("float:-0.0", lit(vfloat("nzero"))), ("float:65.0", lit(vfloat(65.0))),
           ("float:2.5", lit(vfloat(2.5))), ("byte:1", call("byte", I(1))), ("byte:0", call("byte", I(0))),
           ("byte:65", lit(vbyte(65))), ("char:A", lit(vchar("A"))), ("char:1", lit(vchar("1"))), ("str:A", lit(vstr("A"))),
           ("str:1", lit(vstr("1"))), ("str:empty", lit(vstr(""))), ("bool:true", lit(vbool(True))),
           ("bool:false", lit(vbool(False))), ("builtin:len", ident("len")), ("arr:[1]", arr(I(1))),
           ("arr:[1.0]", arr(lit(vfloat(1.0)))), ("arr:[byte1]", arr(call("byte", I(1)))), ("arr:[[0]]", arr(arr(I(0)))),
           ("arr:[[0.0]]", arr(arr(lit(vfloat(0.0))))), ("arr:[]", arr()), ("arr:[65,'A']", arr(I(65), lit(vchar("A")))),
           ("arr:[A65]", arr(lit(vbyte(65)), lit(vchar("A"))))]
    items = []
    for ta, a in dom:
        for tb, b in dom:
            prog = [OBS_DECL, let("k1", a), let("k2", b), let("m", map_()), expr(asg(idx(ident("m"), ident("k1")), I(1))),
                    obs(bin_("==", ident("k1"), ident("k2"))), obs(call("contains", ident("m"), ident("k2"))),
                    obs(call("insert", ident("m"), ident("k2"), I(2))), obs(call("len", ident("m"))),
                    obs(call("get", ident("m"), ident("k1"))), obs(idx(ident("m"), ident("k2")))]
            items.append({"id": "%s|%s" % (ta, tb), "prog": prog, "ta": ta, "tb": tb})
    from ..past import render
    for it in items:
        it["src"], _ = render(it["prog"])
    res = core.run_cases([{"id": it["id"], "src": it["src"]} for it in items])
    recs = []
    for it in items:
        r = res[it["id"]]
        it["raw"] = r
        ob = []
        for o in ((r.get("obs") or {}).get("v") or []):
            if o["k"] == "bool":
                ob.append(o["v"])
            elif o["k"] == "int":
                ob.append(o["v"][0] if all(b == 0 for b in o["v"][1:]) else -1)
            elif o["k"] == "null":
                ob.append("null")
            else:
                ob.append("other:" + o["k"])
        recs.append({"id": it["id"], "how": r.get("how", "none"), "obs": ob})
    verdicts, tres = core.tlc_validate("MapEqTrace", recs, workers=2)
    rep.add_tlc(tres)
    rep.cov["traces_validated_against_impl"] += len(recs)
    rep.cov["evaluations"] += len(recs)
    for it in items:
        if verdicts[it["id"]]["v"] == "bad":
            rep.disagree("map-vs-equality %s %s" % (kind(it["ta"]), kind(it["tb"])),
                         {"src": it["src"], "keys": [it["ta"], it["tb"]], "observed": [r for r in recs if r["id"] == it["id"]][0]["obs"],
                          "how": it["raw"].get("how"), "msg": it["raw"].get("msg")})
    return len(items)


def run(rep, tier, seed):
    core.build_harness()
    cases, gres = progs.generate("GenMaps", cfg="GenMaps" if tier == "quick" else "GenMaps_thorough")
    rep.add_tlc(gres)
    items = [dict(c) for c in cases]
    rnd = random.Random(seed)
    nrand = 300 if tier == "quick" else 3000
    for i in range(nrand):
        items.append({"id": 10000000 + i, "prog": rand_history(rnd, rnd.randint(5, 30)), "w1": "rand", "k1": "rand:",
                      "w2": "", "k2": "rand:", "k3": "rand:"})
    bad, verdicts = progs.run_and_validate(rep, items, chk=())
    nrel = relation_itself(rep)
    rep.cov["distinct_nontrivial"] = len({(it["w1"], it["k1"], it["w2"], it["k2"], it["k3"]) for it in items
                                          if it["w1"] != "rand"}) + nrand + nrel
    rep.cov["rule"] = ("TLC-enumerated histories write(k1);write(k2);query(k3) (spec/GenMaps.tla; quick takes every 5th) "
                       "over 16 keys x 3 ways of writing, 4 queries each, plus seeded random histories, plus all ordered pairs of "
                       "28 keys of every kind through one fixed history whose observations must agree with the observed "
                       "k1 == k2 (spec/MapEqTrace.tla); distinct = "
                       "distinct (way, key, way, key, key) tuples; all contain at least one lookup")
    rep.cov["exhaustive"] = False
    for it in items[:1] + items[-1:]:
        rep.sample({"src": it["src"], "out": it["out"]})
    for it, out, v in bad:
        sig = "map %s:%s %s:%s q:%s %s" % (it["w1"], kind(it["k1"]), it["w2"], kind(it["k2"]), kind(it["k3"]),
                                          progs.outcome_delta(v["exp"], out))
        rep.disagree(sig, {"src": it["src"], "expected": v["exp"], "got": it["raw"]})


def replay(rep, path):
    print(json.dumps(json.load(open(path)), indent=1)[:4000])
