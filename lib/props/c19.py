"""C19 - pcap file reading and writing preserve records in order.

Spec level: spec/PcapFile.tla (cursor / delivered state machine, NextOutcomes / AllOutcomes)
is model-checked for files of 0-4 records, damaged or not, under all call interleavings.
Conformance (I->S): random pcap files (0-50 records, sizes around 0 / 1 / the 8192-byte
BufReader boundary / 65535, both magics, small and huge snaplen), truncated at sampled
(thorough: every) byte offsets or corrupted (caplen above snaplen, huge caplen, bad magic,
short global header), read by random interleavings of pcap_read_next and pcap_read_all(f[, n]);
every returned packet is also written with pcap_write and the written file read back.
spec/PcapFileTrace.tla parses the file bytes itself and validates every call's result."""
import json
import os
import random
import shutil
import struct

from .. import core, tlcrun, pcapfmt

PROP = "C19"


def make_file(rnd, big=False):
    magic = rnd.choice([pcapfmt.MAGIC_US, pcapfmt.MAGIC_NS])
    nrec = rnd.choice([0, 1, 2, 3, 5, 8, rnd.randint(0, 50)]) if not big else rnd.randint(1, 3)
    sizes_small = [0, 1, 2, 14, 15, 16, 17, 60, 64, 100]
    sizes_big = [8175, 8176, 8177, 8191, 8192, 8193, 16384, 65535]
    snaplen = rnd.choice([65535, 65535, 262144, 0xFFFFFFFF, 100]) if not big else 65535
    recs = []
    for i in range(nrec):
        n = rnd.choice(sizes_big) if big else rnd.choice(sizes_small)
        if n > snaplen:
            n = snaplen
        data = bytes(rnd.randrange(256) for _ in range(min(n, 64))) * (n // 64 + 1)
        data = data[:n]
        if n >= 14 and rnd.random() < 0.4:
            # an Ethernet header announcing a layer this reader knows (often cut short right behind it)
            data = data[:12] + rnd.choice([b"\x08\x00", b"\x86\xdd", b"\x81\x00"]) + data[14:]
        recs.append({"data": data, "ts_sec": rnd.choice([0, 1, 0x7FFFFFFF, 0xFFFFFFFF, rnd.randrange(1 << 32)]),
                     "ts_sub": rnd.randrange(1 << 32) if rnd.random() < 0.3 else rnd.randrange(1000000),
                     "wirelen": rnd.choice([n, n + rnd.randrange(1000), 0xFFFFFFFF])})
    body = pcapfmt.pcap_file(recs, magic=magic, snaplen=snaplen, linktype=rnd.choice([1, 1, 101, 0]),
                             vmaj=rnd.choice([2, 2, 1]), vmin=rnd.choice([4, 4, 0]))
    return body, recs


def make_straddle(rnd, bound, k):
    """a well-formed file of small records in which one record header begins at offset bound - k"""
    magic = rnd.choice([pcapfmt.MAGIC_US, pcapfmt.MAGIC_NS])
    recs = []
    off = 24
    target = bound - k

    def rec(n):
        data = bytes(rnd.randrange(256) for _ in range(min(n, 48))) * (n // 48 + 1)
        return {"data": data[:n], "ts_sec": rnd.randrange(1 << 32), "ts_sub": rnd.randrange(1000000), "wirelen": n + rnd.randrange(3)}
    while target - off > 16 + 400:
        n = rnd.choice([40, 60, 86, 100, 200, 333])
        recs.append(rec(n))
        off += 16 + n
    # the last filler ends exactly at the target
    recs.append(rec(target - off - 16))
    off = target
    for _ in range(rnd.randint(2, 6)):
        recs.append(rec(rnd.choice([0, 1, 20, 86, 100])))
    return pcapfmt.pcap_file(recs, magic=magic, snaplen=65535, linktype=1, vmaj=2, vmin=4), recs


def add_item(rnd, d, items, tag, data, big):
    calls = []
    for _ in range(rnd.randint(1, 6)):
        if rnd.random() < 0.6:
            calls.append({"op": "next"})
        else:
            calls.append({"op": "all", "n": rnd.choice([-1, -1, 0, 1, 2, 3, 100])})
    calls.append({"op": rnd.choice(["next", "all"]), "n": -1})
    calls.append({"op": "next"})
    it = {"id": len(items), "tag": tag, "file": data, "calls": calls, "big": big}
    it["path"] = os.path.join(d, "f%d.pcap" % it["id"])
    it["outbase"] = os.path.join(d, "o%d" % it["id"])
    open(it["path"], "wb").write(data)
    # every 4th history reads the same bytes as a stream on standard input (pcap_stream), through the binary
    it["via_stdin"] = (len(items) % 4 == 3) and not big
    it["src"] = script_for(it["path"], it["outbase"], calls, via_stdin=it["via_stdin"], look=(len(items) % 3 == 1))
    if it["via_stdin"]:
        it["tag"] += " via-stdin"
    items.append(it)


def damage(rnd, body, recs):
    """returns (tag, bytes)"""
    r = rnd.random()
    if r < 0.35:
        return "intact", body
    if r < 0.7:
        k = rnd.randrange(len(body) + 1)
        return "cut", body[:k]
    if r < 0.8 and recs:
        # caplen above snaplen in record j
        j = rnd.randrange(len(recs))
        off = 24 + sum(16 + len(x["data"]) for x in recs[:j])
        b = bytearray(body)
        struct.pack_into("<I", b, off + 8, rnd.choice([0xFFFFFFFF, 0x80000000, 70000, 262145]))
        struct.pack_into("<I", b, 16, rnd.choice([65535, 100]))
        return "caplen-above-snaplen", bytes(b)
    if r < 0.86:
        b = bytearray(body)
        b[0:4] = rnd.choice([b"\xa1\xb2\xc3\xd4", b"\x00\x00\x00\x00", b"\xd4\xc3\xb2\xa0", b"PCAP"])
        return "bad-magic", bytes(b)
    if r < 0.92:
        return "short-global-header", body[:rnd.randrange(0, 24)]
    return "trailing-garbage", body + bytes(rnd.randrange(256) for _ in range(rnd.randrange(1, 16)))


def touch(v):
    """looks at the layers of a record before it is written back (a read must not change what is written: records made of
    an Ethernet header whose next layer is cut short yield an error object there, others null or a layer)"""
    return ("let te = %s.eth; if !is_error(te) { let t4 = te.ipv4; let t6 = te.ipv6; let tv = te.vlan; "
            "if !is_error(t4) && t4 != null { let tt = t4.tcp; let tu = t4.udp; } } " % v)


def script_for(path, outbase, calls, via_stdin=False, look=False):
    opener = "pcap_stream(stdin)" if via_stdin else 'pcap_open("%s")' % path
    src = 'let OBS = [];\nlet f = %s;\nif is_error(f) { push(OBS, [0, "OPEN-E"]); } else {\n' % opener
    for j, c in enumerate(calls, 1):
        if c["op"] == "next":
            src += ('let r%d = pcap_read_next(f);\nif is_error(r%d) { push(OBS, [%d, "E"]); } else if r%d == null { push(OBS, [%d, "N"]); } '
                    'else { push(OBS, [%d, "R", r%d.sec, r%d.usec, r%d.caplen, r%d.wirelen]); let o%d = pcap_open("%s.%d", "w"); '
                    '%spcap_write(o%d, r%d); }\n' % (j, j, j, j, j, j, j, j, j, j, j, outbase, j, touch("r%d" % j) if look else "", j, j))
        else:
            arg = "" if c["n"] == -1 else ", %d" % c["n"]
            src += ('let a%d = pcap_read_all(f%s);\nif is_error(a%d) { push(OBS, [%d, "E"]); } else { push(OBS, [%d, "A", len(a%d)]); '
                    'let o%d = pcap_open("%s.%d", "w"); let i%d = 0; while i%d < len(a%d) { let q = a%d[i%d]; '
                    'push(OBS, [%d, "R", q.sec, q.usec, q.caplen, q.wirelen]); %spcap_write(o%d, q); i%d = i%d + 1; } }\n'
                    % (j, arg, j, j, j, j, j, outbase, j, j, j, j, j, j, j, touch("q") if look else "", j, j, j))
    src += "}\n"
    if via_stdin:
        # the run goes through the binary: the observations are printed, one JSON array per line
        src += 'let zz = 0; while zz < len(OBS) { eprintln("OBS {}", OBS[zz]); zz = zz + 1; }\n'
    return src


def proj_int(n):
    n &= (1 << 64) - 1
    return {"k": "int", "v": [(n >> (8 * i)) & 255 for i in range(8)]}


def obs_from_stderr(err):
    """the printed observation arrays in the projection the in-process harness uses"""
    out = []
    for line in err.decode("utf8", "replace").splitlines():
        if not line.startswith("OBS "):
            continue
        try:
            a = json.loads(line[4:])
        except ValueError:
            continue
        out.append({"k": "arr", "v": [proj_int(x) if isinstance(x, int) else {"k": "str", "v": [ord(c) for c in x]} for x in a]})
    return out


def num(v):
    """projected int (limbs) -> python int"""
    n = sum(b << (8 * i) for i, b in enumerate(v["v"]))
    return n - (1 << 64) if n >= (1 << 63) else n


def inductive_invariant(rep):
    """NothingLost as an inductive invariant of the reader machine, discharged by Apalache (spec/PcapFileInd.tla, the
    typed form of PcapFile.tla): for every file of up to 5 records of arbitrary content, damaged or not - so for call
    histories of every length, where TLC explores up to 6 calls."""
    core.apalache_inductive("PcapFileInd")
    rep.notes["inductive_invariant_NothingLost"] = "discharged by Apalache (base and step), files of up to 5 records"


def run(rep, tier, seed):
    core.build_harness()
    inductive_invariant(rep)
    for n in (0, 1, 3, 4):
        for dmg in ("TRUE", "FALSE"):
            r = tlcrun.require_ok(tlcrun.run_tlc("MC_PcapFile", cfg="MC_PcapFile_%d_%s" % (n, dmg), workers=2, timeout=300),
                                  "MC_PcapFile")
            rep.add_tlc(r)
    rnd = random.Random(seed)
    d = core.workdir("c19")
    try:
        items = []
        nfiles = 500 if tier == "quick" else 5000
        for i in range(nfiles):
            big = (i % 60 == 0)
            body, recs = make_file(rnd, big=big)
            variants = []
            if tier == "thorough" and not big and i % 10 == 0 and len(body) < 600:
                variants = [("cut", body[:k]) for k in range(len(body) + 1)]
            else:
                variants = [damage(rnd, body, recs) for _ in range(2)]
            for tag, data in variants:
                add_item(rnd, d, items, tag, data, big)
        # a record header that straddles a refill of the reader's 8192-byte buffer: small records laid out so that a
        # header begins k bytes (1..15) before a multiple of 8192 (every read so far was shorter than the buffer, so
        # the refills fall on those multiples), followed by further records that must still be delivered
        bounds = (8192, 16384) if tier == "quick" else (8192, 16384, 24576, 40960)
        for bi, bound in enumerate(bounds):
            for k in range(1, 16):
                if tier == "quick" and bi > 0 and k % 3 != bi % 3:
                    continue
                body, recs = make_straddle(rnd, bound, k)
                add_item(rnd, d, items, "straddle intact", body, True)
                if tier == "thorough" or k % 5 == 0:
                    add_item(rnd, d, items, "straddle cut", body[:bound + rnd.randrange(0, 40)], True)
        res = core.run_cases([{"id": it["id"], "src": it["src"]} for it in items if not it["via_stdin"]], deadline_ms=60000)
        sitems = [it for it in items if it["via_stdin"]]
        if sitems:
            from .. import e2e
            core.build_binary()
            for it, r in zip(sitems, e2e.run_many([(["-c", it["src"]], it["file"]) for it in sitems])):
                rterr = b"Runtime error" in r["err"]
                res[it["id"]] = {"how": ("rterror" if rterr else "ok") if r["how"] == "exit" else r["how"],
                                 "msg": r["err"].decode("utf8", "replace")[-200:] if r["how"] != "exit" or rterr else "",
                                 "obs": {"k": "arr", "v": obs_from_stderr(r["err"])}}
        recs = []
        for it in items:
            r = res[it["id"]]
            it["run"] = {k: r.get(k) for k in ("how", "msg", "line")}
            obs = ((r.get("obs") or {}).get("v")) or []
            byj = {}
            opened = "ok"
            for o in obs:
                if o.get("k") != "arr":
                    continue
                j = num(o["v"][0])
                tag = "".join(chr(c) for c in o["v"][1]["v"])
                if tag == "OPEN-E":
                    opened = "err"
                    continue
                byj.setdefault(j, []).append((tag, o["v"][2:]))
            if r.get("how") != "ok":
                opened = opened if opened == "err" else str(r.get("how"))
            calls = []
            for j, c in enumerate(it["calls"], 1):
                evs = byj.get(j)
                if evs is None:
                    if opened == "ok":
                        calls.append({"op": c["op"], "n": c.get("n", -1), "res": {"k": "missing"}})
                    break
                outp = "%s.%d" % (it["outbase"], j)
                written = []
                if os.path.exists(outp):
                    _, wrecs, _ = pcapfmt.parse_pcap(open(outp, "rb").read())
                    written = wrecs
                first = evs[0][0]
                if first == "E":
                    resj = {"k": "err"}
                elif first == "N":
                    resj = {"k": "null"}
                else:
                    robs = [e for e in evs if e[0] == "R"]
                    rl = []
                    for k, (tg, vals) in enumerate(robs):
                        hdr = b"".join(struct.pack("<I", num(v) & 0xFFFFFFFF) for v in vals)
                        data = list(written[k]["data"]) if k < len(written) else [-1]
                        whdr = list(written[k]["raw"][:16]) if k < len(written) else [-1]
                        rl.append({"k": "rec", "hdr": list(hdr), "data": data, "whdr": whdr})
                    if first == "R":
                        resj = rl[0] if rl else {"k": "missing"}
                    else:
                        resj = {"k": "arr", "v": rl}
                        if num(evs[0][1][0]) != len(rl):
                            resj = {"k": "missing"}
                calls.append({"op": c["op"], "n": c.get("n", -1), "res": resj})
            it["obs_calls"] = calls
            recs.append({"id": it["id"], "file": list(it["file"]), "open": opened, "calls": calls})
        verdicts, tres = core.tlc_validate("PcapFileTrace", recs, timeout=2400)
        rep.add_tlc(tres)
        rep.cov["traces_validated_against_impl"] += len(recs)
        rep.cov["evaluations"] += len(recs)
        shapes = set()
        for it in items:
            v = verdicts[it["id"]]
            shapes.add((it["tag"], v.get("complete"), tuple((c["op"], c.get("n")) for c in it["calls"])))
            if v["v"] == "bad":
                if v["at"] == 0:
                    sig = "pcapfile %s open=%s" % (it["tag"], it["run"]["how"] if it["run"]["how"] != "ok" else "wrong")
                    detail = {}
                else:
                    c = it["obs_calls"][v["at"] - 1]
                    got = c["res"]["k"]
                    if got == "arr":
                        got = "arr[%d]" % len(c["res"]["v"])
                    sig = "pcapfile %s call=%s%s got=%s" % (it["tag"], c["op"], "" if c["op"] == "next" else ("(all)" if c["n"] == -1 else "(n)"), got)
                    detail = {"call_index": v["at"], "complete_records": v.get("complete"), "damaged": v.get("damaged")}
                detail.update({"script": it["src"], "file_hex": it["file"][:400].hex(), "file_len": len(it["file"]), "run": it["run"]})
                rep.disagree(sig, detail)
        rep.cov["distinct_nontrivial"] = len(shapes)
        rep.cov["rule"] = ("random pcap files (0-50 records; sizes 0/1/2/14..17/60/64/100 and, every 60th file, around the 8192-byte "
                           "buffer boundary and 65535; both magics; snaplen 100 / 65535 / 262144 / 2^32-1) x damage (intact, cut at a "
                           "random [thorough: every] offset, caplen above snaplen, bad magic, short global header, trailing garbage) "
                           "x random call sequences of 3-8 pcap_read_next / pcap_read_all(f[, n]); plus files of small records in which a record header begins 1..15 bytes before a multiple of 8192 (the reader's buffer refill), intact and cut just behind it; distinct = distinct (damage, "
                           "complete records, call sequence)")
        rep.cov["exhaustive"] = False
        rep.sample({"script": items[1]["src"], "calls": items[1]["obs_calls"][:2], "file_len": len(items[1]["file"])})
    finally:
        shutil.rmtree(d, ignore_errors=True)


def replay(rep, path):
    print(json.dumps(json.load(open(path)), indent=1)[:6000])
