"""C09 - operators implement a consistent numeric and typing model.

S->I: TLC (GenOps) enumerates operator x operand-pair table; each case is run through the
real scanner/parser/compiler/VM; the executions are validated by Conform.tla, whose
oracle for operators is Values.BinOp / UnOp.
I->S (thorough, and a smaller slice in quick): seeded random operand pairs."""
import random

from .. import core, progs
from ..past import (OBS_DECL, obs, lit, vint, vfloat, vbyte, bin_, un)

PROP = "C09"


def kind(tag):
    return tag.split(":")[0] if tag else ""


def run(rep, tier, seed):
    core.build_harness()
    cases, gres = progs.generate("GenOps")
    rep.add_tlc(gres)
    items = []
    skipped = 0
    for c in cases:
        # excluded by the property: a repetition that asks for more memory than the machine has
        big = ("int:MAX", "int:2^32", "int:2^62")
        if c["op"] == "*" and ((c["ta"] in big and c["tb"] in ("str:a", "str:ab", "str:e-acute")) or
                               (c["tb"] in big and c["ta"] in ("str:a", "str:ab", "str:e-acute"))):
            skipped += 1
            continue
        items.append({"id": c["id"], "prog": [OBS_DECL, obs(c["e"])], "op": c["op"], "ta": c["ta"], "tb": c["tb"]})
    # random numeric operands (I->S)
    rnd = random.Random(seed)
    nrand = 3000 if tier == "quick" else 60000

    def rint():
        r = rnd.random()
        if r < 0.3:
            return rnd.randint(-100, 100)
        if r < 0.6:
            return rnd.randint(-(1 << 63), (1 << 63) - 1)
        return rnd.choice([1, -1]) * (1 << rnd.randint(0, 62)) + rnd.randint(-2, 2)

    def rnum():
        r = rnd.random()
        if r < 0.6:
            n = rint()
            return lit(vint(n)), "int"
        if r < 0.85:
            return lit(vfloat(rnd.randint(-4096, 4096) / (1 << rnd.randint(0, 4)))), "float"
        return lit(vbyte(rnd.randint(0, 255))), "byte"

    ops = ["+", "-", "*", "/", "%", "<", ">", "<=", ">=", "==", "!=", "&", "|", "^", "<<", ">>"]
    base = 1000000
    for i in range(nrand):
        a, ka = rnum()
        b, kb = rnum()
        op = rnd.choice(ops)
        items.append({"id": base + i, "prog": [OBS_DECL, obs(bin_(op, a, b))], "op": op, "ta": ka + ":rand",
                      "tb": kb + ":rand"})
    # doubles far outside the dyadic model (tiny, subnormal, huge): the model only knows that they are finite and not
    # zero - so no operation on them divides by zero, arithmetic with them yields a float, bitwise operators refuse them
    def oom(txt):
        return lit({"k": "float", "c": "oom", "m": 0, "e": 0, "txt": txt})
    far = ["1e-300", "5e-324", "1e-17", "0.0000000000000001", "-1e-200", "2.2e-16", "1e300", "-1.7976931348623157e308", "1e-320"]
    partners = [("int:1", lit(vint(1))), ("int:0", lit(vint(0))), ("int:-7", lit(vint(-7))), ("float:2.5", lit(vfloat(2.5))),
                ("float:0.0", lit(vfloat(0.0))), ("float:-0.0", lit(vfloat("nzero"))), ("byte:3", lit(vbyte(3))),
                ("float:nan", lit(vfloat("nan"))), ("float:inf", lit(vfloat("pinf")))]
    kf = 3000000
    for txt in far:
        for op in ops:
            for tp, pv in partners + [("float:far", oom(far[0]))]:
                for a, b, ta, tb in ((oom(txt), pv, "float:far", tp), (pv, oom(txt), tp, "float:far")):
                    items.append({"id": kf, "prog": [OBS_DECL, obs(bin_(op, a, b))], "op": op, "ta": ta, "tb": tb})
                    kf += 1
    # operands held in variables: the same value on both sides (x op x), an operand stored in an array slot, passed
    # as an argument - an operator must see values, not where they live
    from ..past import let, ident, idx, arr, call, fndef, expr
    seen_operands = {}
    for c in cases:
        e = c["e"]
        if e.get("t") == "bin":
            seen_operands.setdefault(c["ta"], e["l"])
            seen_operands.setdefault(c["tb"], e["r"])
    k = 2000000
    for tag, operand in sorted(seen_operands.items()):
        for op in ops:
            if op == "*" and tag.startswith("str"):
                continue
            progs_ = [
                ("self-variable", [OBS_DECL, let("n", operand), obs(bin_(op, ident("n"), ident("n")))]),
                ("self-array-slot", [OBS_DECL, let("a", arr(operand)), obs(bin_(op, idx(ident("a"), lit(vint(0))), idx(ident("a"), lit(vint(0)))))]),
                ("self-argument", [OBS_DECL, fndef("f", ["x"], [expr(bin_(op, ident("x"), ident("x")))]), let("n", operand), obs(call("f", ident("n")))]),
            ]
            for how, prog in progs_:
                items.append({"id": k, "prog": prog, "op": op, "ta": tag + ":" + how, "tb": tag + ":same"})
                k += 1
    # + on arrays builds a new array whatever the operands are (an empty one, the same one twice): changing the result
    # afterwards changes neither operand, changing an operand afterwards does not change the result
    from ..past import asg
    kc = 4000000
    conts = {"empty": [], "one": [lit(vint(1))], "two": [lit(vint(1)), lit(vint(2))]}
    for ln_, l_ in conts.items():
        for rn_, r_ in conts.items():
            for how in ("change-result", "change-left", "change-right", "self"):
                pre = [OBS_DECL, let("a", arr(*l_)), let("b", arr(*r_))]
                if how == "self":
                    body = [let("c", bin_("+", ident("a"), ident("a"))), expr(call("push", ident("c"), lit(vint(9)))), expr(call("push", ident("a"), lit(vint(8))))]
                else:
                    tgt = {"change-result": "c", "change-left": "a", "change-right": "b"}[how]
                    body = [let("c", bin_("+", ident("a"), ident("b"))), expr(call("push", ident(tgt), lit(vint(9))))]
                prog = pre + body + [obs(ident("a")), obs(ident("b")), obs(ident("c"))]
                items.append({"id": kc, "prog": prog, "op": "+", "ta": "arr:%s:%s" % (ln_, how), "tb": "arr:%s" % rn_})
                kc += 1
    bad, verdicts = progs.run_and_validate(rep, items, chk=())
    distinct = set()
    for it in items:
        distinct.add((it["op"], it["ta"], it["tb"]))
    rep.cov["distinct_nontrivial"] = len(distinct)
    rep.cov["rule"] = ("cases = operator x ordered operand pair from the boundary table enumerated by TLC "
                       "(spec/GenOps.tla) plus seeded random numeric operand pairs plus every operator applied to one stored "
                       "value on both sides (variable, array slot, argument); distinct = distinct "
                       "(operator, operand tag, operand tag) triples; every case has an operator application, "
                       "so all are non-trivial")
    rep.cov["exhaustive"] = False
    rep.cov["skipped_memory_exhaustion_cases"] = skipped
    for it in items[:2] + items[-2:]:
        rep.sample({"src": it["src"], "out": it["out"]})
    for it, out, v in bad:
        delta = progs.outcome_delta(v["exp"], out)
        sig = "op %s %s %s %s" % (it["op"], kind(it["ta"]), kind(it["tb"]), delta)
        rep.disagree(sig, {"src": it["src"], "expected": v["exp"], "got": it["raw"], "operands": [it["ta"], it["tb"]]})
    relation_laws(rep, items)
    rep.assumptions += ["float results outside the dyadic float model are not compared (counted as unspecified)",
                        "operands are written as literals; the renderer (lib/past.py) is trusted"]


def relation_laws(rep, items):
    """the six comparison operators on every ordered operand pair of the table (and on the pairs with the doubles far
    outside the model) must describe one relation (spec/OpLawTrace.tla) - also where the documentation leaves the
    ordering itself open"""
    name = {"<": "lt", ">": "gt", "<=": "le", ">=": "ge", "==": "eq", "!=": "ne"}
    table = {}
    srcs = {}
    for it in items:
        if it["op"] not in name or it["ta"].endswith(":rand") or ":self-" in it["ta"] or it["ta"].startswith("arr:") and ":" in it["ta"][4:] and it["tb"].startswith("arr:") and "change" in it["ta"]:
            continue
        if it["ta"] == "float:far" or it["tb"] == "float:far":
            continue            # (several texts share the tag)
        out = it.get("out") or {}
        if out.get("how") == "ok" and (out.get("obs") or {}).get("v") and out["obs"]["v"][0].get("k") == "bool":
            a = "T" if out["obs"]["v"][0]["v"] else "F"
        elif out.get("how") == "rterror":
            a = "E"
        else:
            a = "other:%s" % out.get("how")
        table.setdefault((it["ta"], it["tb"]), {})[name[it["op"]]] = a
        srcs.setdefault((it["ta"], it["tb"]), {})[name[it["op"]]] = it["src"]
    recs = []
    for (ta, tb), r in sorted(table.items()):
        sw = table.get((tb, ta))
        if len(r) != 6 or sw is None or len(sw) != 6:
            continue
        rec = {"id": "%s|%s" % (ta, tb), "sw": sw}
        rec.update(r)
        recs.append(rec)
    if not recs:
        raise core.ToolError("no operand pair with all six comparison operators")
    verdicts, tres = core.tlc_validate("OpLawTrace", recs, workers=2)
    rep.add_tlc(tres)
    rep.cov["traces_validated_against_impl"] += len(recs)
    rep.cov["evaluations"] += len(recs)
    rep.notes["operand_pairs_under_the_relation_laws"] = len(recs)
    for rec in recs:
        v = verdicts[rec["id"]]
        if v["v"] == "bad":
            ta, tb = rec["id"].split("|")
            rep.disagree("comparison operators disagree among themselves on %s, %s: %s" % (kind(ta), kind(tb), v["why"]),
                         {"operands": [ta, tb], "answers": {k: rec[k] for k in ("lt", "gt", "le", "ge", "eq", "ne")}, "swapped": rec["sw"],
                          "programs": srcs.get((ta, tb))})


def replay(rep, path):
    import json
    d = json.load(open(path))
    print(json.dumps(d, indent=1)[:4000])
