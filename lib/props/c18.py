"""C18 - MAC, IPv4 and IPv6 address text converts losslessly and accepts standard forms.

S->I: TLC (GenAddr) enumerates address texts: every placement of '::', group patterns,
upper / lower case, leading zeros, malformed mutations; MAC / IPv4 octet boundaries and
malformed shapes.  Each text is assigned to an address property of a fixed frame by a
script run through the real interpreter; the result (accepted or runtime error, text read
back, bytes written by pcap_write) is validated by TLC (AddrTrace.tla) against the reference
parsers of Addr.tla.  I->S: seeded random addresses: the displayed text of one field is
assigned to another field and must store the same address."""
import json
import os
import random
import shutil

from .. import core, progs, pcapfmt

PROP = "C18"

TARGETS = {"mac": [("p.eth.src", 6, 6), ("p.eth.dst", 0, 6)],
           "ipv4": [("p.eth.ipv4.src", 14 + 12, 4), ("p.eth.ipv4.dst", 14 + 16, 4)],
           "ipv6": [("p.eth.ipv6.src", 14 + 8, 16), ("p.eth.ipv6.dst", 14 + 24, 16)],
           # the same headers behind an 802.1Q tag (another path through the layer cache)
           "ipv4/vlan": [("p.eth.vlan.ipv4.src", 18 + 12, 4), ("p.eth.vlan.ipv4.dst", 18 + 16, 4)],
           "ipv6/vlan": [("p.eth.vlan.ipv6.src", 18 + 8, 16), ("p.eth.vlan.ipv6.dst", 18 + 24, 16)],
           # an IPv4 header that carries options (the addresses sit in front of them)
           "ipv4/opts": [("p.eth.ipv4.src", 14 + 12, 4), ("p.eth.ipv4.dst", 14 + 16, 4)]}


def structured_v6(rnd):
    """addresses whose shape matters to a display routine: runs of zero groups at every place, IPv4-mapped / -compatible /
    NAT64 prefixes, all ones, single bits"""
    z = bytes(16)
    r = rnd.random()
    if r < 0.2:
        return bytes(10) + b"\xff\xff" + bytes(rnd.randrange(256) for _ in range(4))          # ::ffff:a.b.c.d
    if r < 0.3:
        return bytes(12) + bytes(rnd.randrange(256) for _ in range(4))                        # ::a.b.c.d
    if r < 0.4:
        return bytes.fromhex("0064ff9b") + bytes(8) + bytes(rnd.randrange(256) for _ in range(4))
    if r < 0.7:
        # random groups with zero runs
        groups = [rnd.choice([0, 0, 0, 1, 0xffff, rnd.randrange(65536)]) for _ in range(8)]
        return b"".join(g.to_bytes(2, "big") for g in groups)
    if r < 0.8:
        k = rnd.randrange(128)
        return (1 << k).to_bytes(16, "big")
    return rnd.choice([z, b"\xff" * 16, bytes(15) + b"\x01", b"\xfe\x80" + bytes(14), b"\xff\x02" + bytes(13) + b"\x01"])


def frame_for(fam, rnd=None):
    if fam.endswith("/vlan"):
        inner = frame_for(fam.split("/")[0], rnd)
        et = inner[12:14]
        return inner[:12] + b"\x81\x00" + pcapfmt.vlan(vid=7)[:2] + et + inner[14:]
    if fam == "ipv4/opts":
        ihl = rnd.choice([6, 7, 15]) if rnd else 7
        opts = bytes((0x90 + k) & 255 for k in range((ihl - 5) * 4))
        a = bytes(rnd.randrange(256) for _ in range(8)) if rnd else b"\xc0\xa8\x00\x01\xc0\xa8\x00\xfe"
        return pcapfmt.eth() + pcapfmt.ipv4(payload_len=20, ihl=ihl, src=a[:4], dst=a[4:], options=opts) + pcapfmt.tcp()
    if fam == "ipv6":
        if rnd and rnd.random() < 0.6:
            return pcapfmt.eth(etype=0x86DD) + pcapfmt.ipv6(payload_len=8, nh=17, src=structured_v6(rnd), dst=structured_v6(rnd)) + pcapfmt.udp()
        src = bytes(rnd.randrange(256) for _ in range(16)) if rnd else bytes(range(16))
        dst = bytes(rnd.randrange(256) for _ in range(16)) if rnd else bytes(range(16, 32))
        return pcapfmt.eth(etype=0x86DD) + pcapfmt.ipv6(payload_len=8, nh=17, src=src, dst=dst) + pcapfmt.udp()
    if rnd:
        e = pcapfmt.eth(dst=bytes(rnd.randrange(256) for _ in range(6)), src=bytes(rnd.randrange(256) for _ in range(6)))
        return e + pcapfmt.ipv4(payload_len=20, src=bytes(rnd.randrange(256) for _ in range(4)),
                                dst=bytes(rnd.randrange(256) for _ in range(4))) + pcapfmt.tcp()
    return pcapfmt.simple_tcp_frame(b"")


def run(rep, tier, seed):
    core.build_harness()
    cases, gres = progs.generate("GenAddr")
    rep.add_tlc(gres)
    d = core.workdir("addr")
    try:
        rnd = random.Random(seed)
        jobs = []
        ins = {}
        for fam in TARGETS:
            ins[fam] = os.path.join(d, "in_%s.pcap" % fam.replace("/", "_"))
            with open(ins[fam], "wb") as f:
                f.write(pcapfmt.pcap_file([frame_for(fam)]))
        n = 0
        for c in cases:
            text = "".join(chr(x) for x in c["text"])
            variants = list(enumerate(TARGETS[c["fam"]]))
            if c["fam"] != "mac" and c["id"] % 4 == 0:
                variants.append((2, TARGETS[c["fam"] + "/vlan"][0]))
            if c["fam"] == "ipv4" and c["id"] % 3 == 0:
                variants.append((3, TARGETS["ipv4/opts"][c["id"] % 2]))
            for ti, (tgt, off, ln) in variants:
                if ti == 1 and c["tag"].startswith("valid") and n % 3:
                    n += 1
                    continue
                famkey = c["fam"] + "/vlan" if ti == 2 else ("ipv4/opts" if ti == 3 else c["fam"])
                out = os.path.join(d, "o%d.pcap" % len(jobs))
                src = ('let OBS = [];\nlet f = pcap_open("%s");\nlet p = pcap_read_next(f);\nlet o = pcap_open("%s", "w");\n'
                       '%s = "%s";\npush(OBS, %s);\npcap_write(o, p);\n' % (ins[famkey], out, tgt, text, tgt))
                jobs.append({"id": len(jobs), "kind": "assign", "fam": c["fam"], "tag": c["tag"], "text": c["text"],
                             "src": src, "out": out, "off": off, "len": ln, "orig": []})
                n += 1
        # display round trip on random addresses: read src text, assign it to dst
        nrand = 900 if tier == "quick" else 5000
        for i in range(nrand):
            fam = rnd.choice(["mac", "ipv4", "ipv6", "ipv6", "ipv4/vlan", "ipv6/vlan", "ipv4/opts"])
            fr = frame_for(fam, rnd)
            inp = os.path.join(d, "r%d.pcap" % i)
            with open(inp, "wb") as f:
                f.write(pcapfmt.pcap_file([fr]))
            (s_t, s_off, ln), (d_t, d_off, _) = TARGETS[fam]
            out = os.path.join(d, "ro%d.pcap" % i)
            src = ('let OBS = [];\nlet f = pcap_open("%s");\nlet p = pcap_read_next(f);\nlet o = pcap_open("%s", "w");\n'
                   'let t = %s;\npush(OBS, t);\n%s = t;\npush(OBS, %s);\npcap_write(o, p);\n' % (inp, out, s_t, d_t, d_t))
            jobs.append({"id": len(jobs), "kind": "display", "fam": fam.split("/")[0], "tag": "display", "text": None, "src": src,
                         "out": out, "off": d_off, "len": ln, "orig": list(fr[s_off:s_off + ln])})
        res = core.run_cases([{"id": j["id"], "src": j["src"]} for j in jobs])
        recs = []
        for j in jobs:
            r = res[j["id"]]
            j["raw"] = {k: r.get(k) for k in ("how", "msg", "line")}
            obs = (r.get("obs") or {}).get("v") or []
            texts = [o["v"] for o in obs if o.get("k") == "str"]
            stored = []
            if os.path.exists(j["out"]):
                hdr, rs, _ = pcapfmt.parse_pcap(open(j["out"], "rb").read())
                if rs:
                    stored = list(rs[0]["data"][j["off"]:j["off"] + j["len"]])
            if j["kind"] == "display":
                text = texts[0] if texts else []
                readback = texts[1] if len(texts) > 1 else []
            else:
                text = j["text"]
                readback = texts[0] if texts else []
            how = r.get("how")
            recs.append({"id": j["id"], "kind": j["kind"], "fam": j["fam"], "text": text, "how": how,
                         "readback": readback, "stored": stored, "orig": j["orig"]})
        verdicts, tres = core.tlc_validate("AddrTrace", recs, workers=2)
        rep.add_tlc(tres)
        rep.cov["traces_validated_against_impl"] += len(recs)
        rep.cov["evaluations"] += len(recs)
        nun = 0
        for j, rec in zip(jobs, recs):
            v = verdicts[j["id"]]
            if v["exp"] == "unspec":
                nun += 1
            if v["v"] == "bad":
                txt = "".join(chr(x) for x in rec["text"])
                shape = j["tag"] if j["kind"] == "assign" else "display"
                sig = "addr %s %s expected=%s got=%s" % (j["fam"], shape, v["exp"],
                                                        rec["how"] if rec["how"] != "ok" or v["exp"] != "ok" else "wrong-address")
                rep.disagree(sig, {"text": txt, "target": j["src"].split("\n")[4], "impl": j["raw"],
                                   "readback": "".join(chr(x) for x in rec["readback"]), "stored": rec["stored"]})
        rep.cov["unspecified"] = nun
        rep.cov["distinct_nontrivial"] = len({(r["fam"], tuple(r["text"])) for r in recs})
        rep.cov["rule"] = ("TLC-enumerated texts (spec/GenAddr.tla): IPv6 with '::' at every (start, length) and none x 3 group "
                           "patterns x 4 spellings (case, leading zeros), malformed mutations; MAC / IPv4 octet boundaries at "
                           "every position and malformed shapes; each assigned to src (and a third also to dst); plus random and "
                           "structured addresses (zero runs at every place, IPv4-mapped / -compatible / NAT64 prefixes, single "
                           "bits, all ones) whose displayed text is assigned to the other field; targets behind an 802.1Q tag and in an IPv4 header with options; distinct = distinct (family, text)")
        rep.cov["exhaustive"] = False
        rep.sample({"program": jobs[0]["src"], "result": recs[0]})
    finally:
        shutil.rmtree(d, ignore_errors=True)


def replay(rep, path):
    print(json.dumps(json.load(open(path)), indent=1)[:6000])
