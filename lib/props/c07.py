"""C07 - statements leave the operand stack balanced, loops run in constant stack.

I->S: programs carry marker statements between the statements of every block; the real VM
runs them with hook H2 recording (frame depth, function, ip, opcode, sp) before every
instruction; spec/VMTrace.tla validates each trace: all markers of a block within one
activation see the same sp, every backward jump to a loop head arrives with the same sp, a
normal end has sp = 0.  Families: seeded random programs, all control-flow skeletons of
C05, break / continue / return in every operand position, and long runs (10^4 iterations,
sparse tracing).  End to end: such loops never report a stack overflow."""
import json
import random

from .. import core, progs, vmtrace, e2e
from ..past import (OBS_DECL, obs, lit, vint, vbool, vstr, bin_, un, let, ident, call, idx, arr, map_, expr, I, if_,
                    while_, loop, brk, cont, block, fndef, ret, asg, match, arm, plit, pdef, render)
from ..proggen import random_program
from .c05 import loop_nests

PROP = "C07"


def ctrl_expr(kind, c="c"):
    """an if-expression that leaves through break / continue / return on even iterations"""
    s = {"break": brk(), "continue": cont(), "return": ret(I(5))}[kind]
    return if_(bin_("==", bin_("%", ident(c), I(2)), I(0)), [s, expr(I(1))], [expr(I(2))])


POSITIONS = {
    "stmt": lambda x: expr(x),
    "let-init": lambda x: let("t", x),
    "assign-rhs": lambda x: expr(asg(ident("acc"), x)),
    "bin-left": lambda x: expr(bin_("+", x, I(1))),
    "bin-right": lambda x: expr(bin_("+", I(1), x)),
    "bin-right-nested": lambda x: expr(bin_("+", I(1), bin_("*", I(2), x))),
    "call-arg": lambda x: expr(call("id1", x)),
    "call-arg-2": lambda x: expr(call("add2", I(1), x)),
    "array-elem-first": lambda x: expr(arr(x, I(1))),
    "array-elem-later": lambda x: expr(arr(I(1), I(2), x)),
    "map-value": lambda x: expr(map_((I(1), x))),
    "index": lambda x: expr(idx(arr(I(1), I(2), I(3)), x)),
    "index-target": lambda x: expr(idx(arr(x, I(2)), I(0))),
    "if-cond": lambda x: expr(if_(bin_("==", x, I(1)), [expr(I(1))], [expr(I(2))])),
    "logical-right": lambda x: expr(bin_("&&", lit(vbool(True)), x)),
    "compare-left": lambda x: expr(bin_("<", x, I(5))),
    "unary": lambda x: expr(un("-", x)),
    "obs-arg": lambda x: obs(x),
    "match-scrutinee": lambda x: expr(match(x, [arm([plit(vint(1))], [expr(I(1))]), arm([pdef()], [expr(I(0))])])),
}


def ctrl_programs():
    out = []
    pre = [OBS_DECL, fndef("id1", ["a"], [expr(ident("a"))]), fndef("add2", ["a", "b"], [expr(bin_("+", ident("a"), ident("b")))]),
           let("acc", I(0))]
    for kind in ("break", "continue", "return"):
        for pos, mk in POSITIONS.items():
            for looptype in ("while", "loop"):
                inc = expr(asg(ident("c"), bin_("+", ident("c"), I(1))))
                body = [inc, mk(ctrl_expr(kind)), obs(ident("c"))]
                if looptype == "while":
                    lp = [let("c", I(0)), while_(bin_("<", ident("c"), I(6)), body)]
                else:
                    lp = [let("c", I(0)), loop([expr(if_(bin_(">=", ident("c"), I(6)), [brk()]))] + body)]
                if kind == "return":
                    prog = pre + [fndef("run", [], lp + [expr(I(9))]), obs(call("run")), obs(call("run"))]
                else:
                    prog = pre + lp + [obs(I(77))]
                out.append(("ctrl=%s pos=%s loop=%s" % (kind, pos, looptype), prog))
    return out


def tail_shapes():
    """every block-carrying construct in statement position x every kind of last statement of its block (what a
    block ends with decides which trailing Pop the compiler keeps, drops or replaces), executed several times in a loop"""
    def tails(k):
        return {
            "expr": [expr(bin_("+", ident("c"), I(k)))],
            "let": [let("u", I(k))],
            "let-then-block-expr": [let("u", I(k)), block([expr(bin_("+", ident("c"), ident("u")))])],
            "block-expr": [block([expr(bin_("+", ident("c"), I(k)))])],
            "block-let": [block([let("u", I(k))])],
            "block-empty": [block([])],
            "block-block-expr": [block([block([expr(I(k))])])],
            "if-stmt": [expr(if_(bin_("==", ident("c"), I(1)), [expr(I(k))]))],
            "if-else-stmt": [expr(if_(bin_("==", ident("c"), I(1)), [expr(I(k))], [expr(I(k + 1))]))],
            "assign": [expr(asg(ident("acc"), bin_("+", ident("acc"), I(k))))],
            "call": [expr(call("id1", I(k)))],
            "loop": [let("j", I(0)), while_(bin_("<", ident("j"), I(2)), [expr(asg(ident("j"), bin_("+", ident("j"), I(1))))])],
            "empty": [],
        }
    odd = bin_("==", bin_("%", ident("c"), I(2)), I(1))
    constructs = {
        "if-then": lambda t, u: [expr(if_(odd, t))],
        "if-else:then": lambda t, u: [expr(if_(odd, t, u))],
        "if-else:else": lambda t, u: [expr(if_(odd, u, t))],
        "else-if:last": lambda t, u: [expr(if_(bin_("==", ident("c"), I(99)), u, if_(odd, u, t)))],
        "match-arm": lambda t, u: [expr(match(bin_("%", ident("c"), I(2)), [arm([plit(vint(0))], t), arm([pdef()], u)]))],
        "match-default": lambda t, u: [expr(match(bin_("%", ident("c"), I(2)), [arm([plit(vint(7))], u), arm([pdef()], t)]))],
        "block": lambda t, u: [block(t)],
        "inner-while": lambda t, u: [let("k", I(0)), while_(bin_("<", ident("k"), I(2)), [expr(asg(ident("k"), bin_("+", ident("k"), I(1))))] + t)],
        "inner-loop": lambda t, u: [let("k", I(0)), loop([expr(if_(bin_(">=", ident("k"), I(2)), [brk()])), expr(asg(ident("k"), bin_("+", ident("k"), I(1))))] + t)],
        "fn-body-then-return": lambda t, u: [fndef("g", [], t + [ret(I(1))]), expr(call("g"))],
    }
    out = []
    pre = [OBS_DECL, fndef("id1", ["a"], [expr(ident("a"))]), let("acc", I(0))]
    for cname, mk in constructs.items():
        for tname, t in tails(3).items():
            u = tails(5)["expr"]
            inc = expr(asg(ident("c"), bin_("+", ident("c"), I(1))))
            body = [inc] + mk(t, u) + [obs(ident("c"))]
            top = pre + [let("c", I(0)), while_(bin_("<", ident("c"), I(5)), body), obs(I(77))]
            out.append(("tail construct=%s last=%s at=top" % (cname, tname), top))
            infn = pre + [fndef("run", [], [let("c", I(0)), while_(bin_("<", ident("c"), I(5)), body), expr(I(9))]),
                          obs(call("run")), obs(call("run"))]
            out.append(("tail construct=%s last=%s at=function" % (cname, tname), infn))
    return out


def dollar_programs():
    """$n outside packet processing (it is null there): as a statement, an initialiser, an operand, in loops and functions"""
    from ..past import dollar
    uses = {
        "stmt": lambda k: [expr(dollar(k))],
        "let": lambda k: [let("d", dollar(k))],
        "operand": lambda k: [expr(bin_("==", dollar(k), lit({"k": "null"})))],
        "argument": lambda k: [expr(call("id1", dollar(k)))],
        "array-element": lambda k: [expr(arr(I(1), dollar(k), I(2)))],
    }
    out = []
    pre = [OBS_DECL, fndef("id1", ["a"], [expr(ident("a"))])]
    for un_, mk in uses.items():
        for k in (0, 1, 3):
            inc = expr(asg(ident("c"), bin_("+", ident("c"), I(1))))
            body = [inc] + mk(k) + [obs(ident("c"))]
            out.append(("dollar use=%s n=%d at=top" % (un_, k), pre + [let("c", I(0)), while_(bin_("<", ident("c"), I(4)), body), obs(I(77))]))
            out.append(("dollar use=%s n=%d at=function" % (un_, k),
                        pre + [fndef("run", [], [let("c", I(0)), while_(bin_("<", ident("c"), I(4)), body), expr(I(9))]), obs(call("run"))]))
    return out


def unassignable_targets():
    """an assignment whose target has nowhere to store (a literal, a call, a container literal, a function literal, an
    if / match value, $n, a predefined name): it used to compile into two pushes and one pop - one slot leaked per
    execution; the front end has to refuse it wherever it is written"""
    from ..past import dollar
    targets = {
        "null": lambda: lit({"k": "null"}), "true": lambda: lit(vbool(True)), "int": lambda: I(1), "str": lambda: lit(vstr("a")),
        "call": lambda: call("id1", I(1)), "call-result-call": lambda: call(call("mk")),
        "array-literal": lambda: arr(I(1)), "empty-array": lambda: arr(), "map-literal": lambda: map_((I(1), I(2))),
        "fn-literal": lambda: {"t": "fn", "n": "", "ps": [], "body": [expr(I(1))]},
        "if-value": lambda: if_(lit(vbool(True)), [expr(I(1))], [expr(I(2))]),
        "match-value": lambda: match(I(1), [arm([pdef()], [expr(I(2))])]),
        "dollar": lambda: dollar(1), "stdout": lambda: ident("stdout"), "builtin-name": lambda: ident("len"),
        "packet-count": lambda: ident("NP"), "sum": lambda: bin_("+", ident("acc"), I(1)), "negation": lambda: un("-", ident("acc")),
    }
    places = {
        "stmt": lambda a: [expr(a)],
        "let-init": lambda a: [let("t", a)],
        "operand": lambda a: [expr(bin_("+", I(1), a))],
        "argument": lambda a: [expr(call("id1", a))],
        "chained": lambda a: [expr(asg(ident("acc"), a))],
        "if-body": lambda a: [expr(if_(bin_("<", ident("c"), I(0)), [expr(a)]))],
    }
    pre = [OBS_DECL, fndef("id1", ["a"], [expr(ident("a"))]), fndef("mk", [], [expr(ident("id1"))]), let("acc", I(0))]
    out = []
    for tn, mk in targets.items():
        for pn, place in places.items():
            inc = expr(asg(ident("c"), bin_("+", ident("c"), I(1))))
            body = [inc] + place(asg(mk(), I(5))) + [obs(ident("c"))]
            out.append(("unassignable target=%s place=%s at=top" % (tn, pn), pre + [let("c", I(0)), while_(bin_("<", ident("c"), I(3)), body), obs(I(77))]))
            if pn in ("stmt", "operand"):
                out.append(("unassignable target=%s place=%s at=function" % (tn, pn),
                            pre + [fndef("run", [], [let("c", I(0)), while_(bin_("<", ident("c"), I(3)), body), expr(I(9))]), obs(call("run"))]))
                out.append(("unassignable target=%s place=%s at=filter-action" % (tn, pn),
                            pre + [let("c", I(0)), {"t": "filter", "pat": lit(vbool(True)), "act": place(asg(mk(), I(5)))}, obs(I(77))]))
    return out


def unassignable(rep, tier):
    """refused by the front end (RefSem's static rule "lvalue"), never compiled into something that runs"""
    items = [{"id": "u%d" % k, "prog": prog, "tag": tag} for k, (tag, prog) in enumerate(unassignable_targets())]
    bad, verdicts = progs.run_and_validate(rep, items, chk=())
    for it, out, v in bad:
        tag = it["tag"]
        rep.disagree("%s: %s instead of a front-end error" % (" ".join(tag.split(" ")[:2]), out["how"]),
                     {"src": it["src"], "expected": v.get("exp"), "got": it["raw"]})
    rep.notes["unassignable_target_programs"] = len(items)


def wide_statements():
    """statements whose operand counts sit at the edge of what one instruction can say (a call with 255 / 256
    arguments, literals with 255 / 256 / 257 elements) inside a loop: accepted or refused, never out of balance"""
    out = []
    pre = [OBS_DECL]
    inc = expr(asg(ident("c"), bin_("+", ident("c"), I(1))))
    for n in (255, 256):
        f = fndef("wide", ["p%d" % i for i in range(n)], [expr(ident("p0"))])
        last = {"t": "fn", "n": "", "ps": [], "body": [expr(I(4))]}
        body = [inc, expr(call("wide", *([I(i % 5) for i in range(n - 1)] + [last]))), obs(ident("c"))]
        out.append(("wide call-args=%d" % n, pre + [f, let("c", I(0)), while_(bin_("<", ident("c"), I(3)), body), obs(I(77))]))
    for n in (255, 256, 257):
        body = [inc, expr(arr(*[I(i % 5) for i in range(n)])), let("m", map_(*[(I(i), I(i)) for i in range(n)])), obs(ident("c"))]
        out.append(("wide literals=%d" % n, pre + [let("c", I(0)), while_(bin_("<", ident("c"), I(3)), body), obs(I(77))]))
    return out


def long_runs(n):
    """loop bodies executed n times (sparse tracing)"""
    out = []
    bodies = {
        "arith": [expr(asg(ident("s"), bin_("+", ident("s"), bin_("*", ident("c"), I(3)))))],
        "call": [expr(asg(ident("s"), call("id1", ident("s"))))],
        "if-value": [expr(asg(ident("s"), if_(bin_("==", bin_("%", ident("c"), I(3)), I(0)), [expr(I(1))], [expr(ident("s"))])))],
        "match": [expr(asg(ident("s"), match(bin_("%", ident("c"), I(4)), [arm([plit(vint(0))], [expr(I(1))]), arm([plit(vint(1)), plit(vint(2))], [expr(I(2))])])))],
        "array": [let("a", arr(ident("c"), I(2))), expr(asg(ident("s"), idx(ident("a"), I(1))))],
        "logical": [expr(asg(ident("s"), bin_("||", bin_("&&", ident("c"), I(0)), ident("s"))))],
        "continue-stmt": [expr(if_(bin_("==", bin_("%", ident("c"), I(2)), I(0)), [cont()])), expr(asg(ident("s"), I(1)))],
        "nested-loop": [let("j", I(0)), while_(bin_("<", ident("j"), I(2)), [expr(asg(ident("j"), bin_("+", ident("j"), I(1)))),
                                                                              expr(if_(bin_("==", ident("j"), I(1)), [brk()]))])],
        "expr-stmts": [expr(bin_("+", ident("c"), I(1))), expr(arr(I(1), I(2))), expr(call("id1", I(3)))],
        "closure": [let("f", {"t": "fn", "n": "f", "ps": [], "body": [expr(ident("c"))]}), expr(call("f"))],
    }
    for name, body in bodies.items():
        prog = [OBS_DECL, fndef("id1", ["a"], [expr(ident("a"))]), let("s", I(0)), let("c", I(0)),
                while_(bin_("<", ident("c"), I(n)), [expr(asg(ident("c"), bin_("+", ident("c"), I(1))))] + body), obs(ident("c"))]
        out.append(("long %s x%d" % (name, n), prog))
    return out


def run(rep, tier, seed):
    core.build_harness()
    widths, _ = vmtrace.real_widths()
    rnd = random.Random(seed)
    items = []
    for i in range(250 if tier == "quick" else 3000):
        items.append({"id": "r%d" % i, "prog": vmtrace.add_markers(random_program(rnd, depth=3, max_expr_depth=2, probes=False)),
                      "tag": "random"})
    n = 0
    for tag, prog in loop_nests(2 if tier == "quick" else 3):
        if tier == "quick" and n % 4:
            n += 1
            continue
        items.append({"id": "l%d" % n, "prog": vmtrace.add_markers(prog), "tag": "loop-nest"})
        n += 1
    ctrl = []
    for tag, prog in ctrl_programs():
        ctrl.append({"id": "c" + tag, "prog": vmtrace.add_markers(prog), "tag": tag})
    tails = [{"id": "t" + tag, "prog": vmtrace.add_markers(prog), "tag": tag} for tag, prog in tail_shapes()]
    if tier == "quick":
        tails = [t for k, t in enumerate(tails) if "at=top" in t["tag"] or k % 4 == 1]
    ctrl = ctrl + tails
    ctrl += [{"id": "d" + tag, "prog": vmtrace.add_markers(prog), "tag": tag} for tag, prog in dollar_programs()]
    ctrl += [{"id": "w" + tag, "prog": vmtrace.add_markers(prog), "tag": tag} for tag, prog in wide_statements()]
    recs = vmtrace.record(items + ctrl, widths, mode=1)
    longs = [{"id": "L" + tag, "prog": vmtrace.add_markers(prog), "tag": tag}
             for tag, prog in long_runs(10000 if tier == "thorough" else 2000)]
    if tier == "quick":
        longs = longs[::2]
    lrecs = vmtrace.record(longs, widths, mode=2, fuel=5000000, max_events=200000)
    verdicts, res = core.tlc_validate("VMTrace", recs + lrecs, timeout=1500)
    rep.add_tlc(res)
    rep.cov["traces_validated_against_impl"] += len(recs) + len(lrecs)
    rep.cov["evaluations"] += len(items) + len(ctrl) + len(longs)
    nmark = nback = drift = events = 0
    skipped = 0
    for it in items + ctrl + longs:
        v = verdicts.get(it["id"])
        if v is None:
            skipped += 1
            continue
        nmark += v["nmark"]
        nback += v["nback"]
        drift += v["drift"]
        events += v["n"]
        raw = it["raw"]
        if v["disc"] != "ok":
            sig = "stack-discipline %s: %s" % (it["tag"].replace(" loop=while", "").replace(" loop=loop", ""), v["disc"])
            rep.disagree(sig, {"src": it["src"], "violated": v["disc"], "at_event": v["at"],
                               "event": raw["trace"][v["at"] - 1] if 0 < v["at"] <= len(raw["trace"]) else None,
                               "end": {"how": raw.get("how"), "msg": raw.get("msg"), "sp": raw.get("sp")}})
        elif raw.get("how") == "rterror" and "overflow" in (raw.get("msg") or "").lower():
            rep.disagree("stack-overflow-reported %s" % it["tag"], {"src": it["src"], "msg": raw.get("msg")})
    machine_level(rep, items + ctrl, widths)
    rep.notes.update({"trace_events": events, "marker_events": nmark, "backward_jumps": nback,
                      "sp_effect_drift_events": drift, "programs_without_trace": skipped})
    rep.cov["distinct_nontrivial"] = len({it["src"] for it in items + ctrl + longs if it["id"] in verdicts})
    rep.cov["rule"] = ("programs with a marker statement between the statements of every block: seeded random programs, "
                       "loop nests with plain / labelled break / continue at every position, break / continue / return in "
                       "19 operand positions x while / loop, long runs in sparse trace mode; assignments to 18 kinds of targets that cannot be "
                       "assigned to x 6 places x top level / function / filter action (must be refused); statements with 255 / 256 call "
                       "arguments and 255-257 literal elements in loops; filter mode with boolean and non-boolean patterns over thousands of packets; non-trivial = the trace "
                       "contains at least one marker or backward jump (all do); distinct = distinct source texts")
    rep.cov["exhaustive"] = False
    rep.sample({"src": items[0]["src"], "trace_head": items[0]["raw"].get("trace", [])[:12]})
    unassignable(rep, tier)
    end_to_end(rep, tier)


def machine_level(rep, its, widths):
    """the same executions in lock step with the machine specification (spec/VM.tla via spec/VMRun.tla): after
    every instruction the operand stack has the height the instruction's meaning gives it"""
    from .. import vmrun
    recs = vmrun.from_raw([it for it in its if "raw" in it], widths, with_prog=False)
    verdicts, res = vmrun.validate(recs)
    rep.add_tlc(res)
    rep.cov["traces_validated_against_impl"] += len(recs)
    counts = {}
    for it in its:
        v = verdicts.get(it["id"])
        if v is None:
            continue
        counts[v["v"]] = counts.get(v["v"], 0) + 1
        if v["v"] == "diverged" and v["why"] in ("sp", "frame depth"):
            tag = it["tag"].replace(" loop=while", "").replace(" loop=loop", "")
            rep.disagree("machine-level %s (%s)" % (vmrun.describe(v, it["raw"]), tag.split(" ")[0]),
                         {"src": it["src"], "verdict": v, "events": it["raw"]["trace"][max(0, v["at"] - 3):v["at"]]})
    rep.notes["machine_level_verdicts"] = counts


def end_to_end(rep, tier):
    """no `Stack overflow!` however many iterations: through the binary"""
    core.build_binary()
    jobs = []
    tags = []
    for tag, prog in long_runs(20000 if tier == "quick" else 100000)[:6]:
        src, _ = render(prog)
        jobs.append(([ "-c", src], b""))
        tags.append(tag)
    for tag, r in zip(tags, e2e.run_many(jobs)):
        rep.cov["evaluations"] += 1
        if r["how"] != "exit" or b"overflow" in r["err"].lower():
            rep.disagree("e2e stack-overflow %s" % tag, {"stderr": r["err"].decode("utf8", "replace")[:300], "how": r["how"]})
    # filter mode: the operand stack must not grow with the number of packets either
    from .. import pcapfmt
    npk = 3000 if tier == "quick" else 12000
    cap = pcapfmt.pcap_file([pcapfmt.simple_tcp_frame(b"x" * (i % 3)) for i in range(npk)])
    filters = {
        "locals-in-action": "@ true { let a = NP; let b = a + 1; cnt = cnt + b - a; }",
        "nested-locals": "@ true { let a = 1; { let b = 2; { let c = 3; cnt = cnt + c - b; } } }",
        "pattern-only": "@ NP < 0\n@ true { cnt = cnt + 1; }",
        "pattern-calls-function": "fn f(x) { let y = x + 1; y > 0 }\n@ f(NP) { cnt = cnt + 1; }",
        "expression-statements": "@ true { 1 + 2; [NP, 2]; cnt = cnt + 1; NP; }",
        "if-in-action": "@ true { let r = if NP % 2 == 0 { 1 } else { let q = 2; q - 1 }; cnt = cnt + r; }",
        "loop-in-action": "@ true { let i = 0; while i < 3 { let t = i; i = t + 1; } cnt = cnt + 1; }",
        "dollar-in-action": "@ true { $1; let t = $2; cnt = cnt + 1; }",
        "several-filters": "@ true { let a = 1; }\n@ true { let b = 2; let c = 3; }\n@ true { cnt = cnt + 1; }",
    }
    # a pattern that is not a boolean: when it is falsey the packet is reported ("filter expression must evaluate to a
    # boolean") and the run goes on with the next packet - that path has to release the action's locals as well
    many = " ".join("let v%d = NP + %d;" % (i, i) for i in range(12))
    nonbool = {
        "nonbool-pattern-int": ("@ NP %% 3 { %s cnt = cnt + 1; }" % many, npk - npk // 3),
        # (whether a packet reported this way is still offered to the filters after it is not this property's business)
        "nonbool-pattern-null": ("@ $9 { %s }\n@ true { cnt = cnt + 1; }" % many, None),
        "nonbool-pattern-empty-string": ('@ "" { %s }\n@ true { cnt = cnt + 1; }' % many, None),
        "nonbool-pattern-in-function": ("fn pat(n) { n %% 2 }\n@ pat(NP) { %s cnt = cnt + 1; }" % many, npk - npk // 2),
    }
    wants = {tag: npk for tag in filters}
    for tag, (src, cnt) in nonbool.items():
        filters[tag] = src
        wants[tag] = cnt
    fjobs = [(["-s", "-c", "let cnt = 0;\n%s\n@ end { eprintln(\"END {} {}\", NP, cnt); }\n" % src], cap) for src in filters.values()]
    for tag, r in zip(filters, e2e.run_many(fjobs)):
        rep.cov["evaluations"] += 1
        want = ("END %d %d" % (npk, wants[tag])).encode() if wants[tag] is not None else ("END %d " % npk).encode()
        if r["how"] != "exit" or b"overflow" in r["err"].lower() or want not in r["err"]:
            rep.disagree("e2e filter-mode stack growth %s" % tag, {"stderr": r["err"].decode("utf8", "replace")[-300:], "how": r["how"],
                                                                  "packets": npk})


def replay(rep, path):
    print(json.dumps(json.load(open(path)), indent=1)[:6000])
