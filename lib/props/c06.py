"""C06 - truthiness and short-circuit logic follow the documented table.

S->I: TLC (GenTruth) enumerates value x position and all ordered pairs for && / ||; each
program runs through the real pipeline; Conform.tla (RefSem + Values.IsFalsey, the
documented table) validates every execution.  The filter-pattern position is exercised
end-to-end through the binary with a one-packet capture."""
import json

from .. import core, progs, e2e
from ..past import render

PROP = "C06"


def kind(tag):
    return tag.split(":")[0] if tag else ""


def run(rep, tier, seed):
    core.build_harness()
    cases, gres = progs.generate("GenTruth")
    rep.add_tlc(gres)
    items = [{"id": c["id"], "prog": c["prog"], "pos": c["pos"], "ta": c["ta"], "tb": c["tb"]} for c in cases]
    bad, verdicts = progs.run_and_validate(rep, items, chk=("final",))
    for it, out, v in bad:
        sig = "truth %s %s %s %s" % (it["pos"], it["ta"], it["tb"], progs.outcome_delta(v["exp"], out))
        rep.disagree(sig, {"src": it["src"], "expected": v["exp"], "got": it["raw"]})
    # filter-pattern position, end to end
    nf = e2e.filter_truthiness(rep, [c for c in cases if c["pos"] == "if"])
    rep.cov["distinct_nontrivial"] = len({(it["pos"], it["ta"], it["tb"]) for it in items}) + nf
    rep.cov["rule"] = ("TLC-enumerated table (spec/GenTruth.tla): 31 representative values x {!v, if v, while v} and "
                       "all ordered pairs for && and || with a probe on the right operand, plus each value as a "
                       "filter pattern (end to end); distinct = distinct (position, value tags)")
    rep.cov["exhaustive"] = True
    for it in items[:1] + items[-1:]:
        rep.sample({"src": it["src"], "out": it["out"]})


def replay(rep, path):
    print(json.dumps(json.load(open(path)), indent=1)[:4000])
