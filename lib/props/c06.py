"""C06 - truthiness and short-circuit logic follow the documented table.

S->I: TLC (GenTruth) enumerates value x position and all ordered pairs for && / ||; each
program runs through the real pipeline; Conform.tla (RefSem + Values.IsFalsey, the
documented table) validates every execution.  The filter-pattern position is exercised
end-to-end through the binary with a one-packet capture."""
import json

from .. import core, progs, e2e
from ..past import (render, OBS_DECL, obs, lit, vint, vbool, vstr, vbyte, bin_, un, let, ident, call, arr, expr, I, if_, while_,
                    brk, fn, fndef, asg)

PROP = "C06"


def kind(tag):
    return tag.split(":")[0] if tag else ""


def beyond_the_table():
    """values of kinds the table does not list are truthy in every position: an error object, a builtin function, a
    closure, a named function, a file handle - in !v, if, while, as either operand of && and ||"""
    vals = {
        "error-object": call("decode_utf8", arr(lit(vbyte(255)))),
        "builtin-function": ident("len"),
        "closure": fn([], [expr(I(0))]),
        "named-function": ident("nf"),
        "stdout-handle": ident("stdout"),
    }
    out = []
    pre = [OBS_DECL, fndef("nf", [], [expr(I(0))]), fndef("P", ["t", "x"], [obs(ident("t")), expr(ident("x"))])]
    for tag, v in vals.items():
        progs_ = {
            "not": [let("v", v), obs(un("!", ident("v")))],
            "if": [let("v", v), obs(if_(ident("v"), [expr(I(1))], [expr(I(2))]))],
            "if-direct": [obs(if_(v, [expr(I(1))], [expr(I(2))]))],
            "while": [let("v", v), let("n", I(0)), while_(ident("v"), [expr(asg(ident("n"), bin_("+", ident("n"), I(1)))),
                                                                          expr(if_(bin_(">=", ident("n"), I(2)), [brk()]))]), obs(ident("n"))],
            "and-left": [let("v", v), obs(bin_("==", bin_("&&", ident("v"), call("P", I(7), I(5))), I(5)))],
            "and-right": [let("v", v), obs(un("!", bin_("&&", I(1), ident("v"))))],
            "or-left": [let("v", v), obs(un("!", bin_("||", ident("v"), call("P", I(7), I(5)))))],
            "or-right": [let("v", v), obs(un("!", bin_("||", I(0), ident("v"))))],
        }
        for pos, body in progs_.items():
            out.append(("beyond-table %s %s" % (tag, pos), pre + body))
    return out


def written_forms():
    """the table's values written in their other forms, directly in each position: the NUL character / byte as a
    literal holding the raw character (the language has no escapes: this is how '\\0' is written), a comparison and
    a negated comparison (including the unordered ones: NaN) as the condition, double negation"""
    import itertools
    from ..past import vfloat, vchar
    vals = {
        "raw-nul-char": (lit({"k": "char", "v": 0, "raw": True}), None),
        "raw-nul-byte": (lit({"k": "byte", "v": 0, "raw": True}), None),
        "raw-char-a": (lit({"k": "char", "v": 97, "raw": True}), None),
    }
    nums = {"nan": lit(vfloat("nan")), "1.0": lit(vfloat(1.0)), "0": I(0), "2": I(2), "inf": lit(vfloat("pinf")), "b1": lit(vbyte(1))}
    for (an, a), (bn, b) in itertools.product(nums.items(), repeat=2):
        if "nan" not in (an, bn) and (an, bn) not in (("0", "2"), ("2", "0"), ("1.0", "1.0"), ("b1", "b1"), ("inf", "1.0")):
            continue
        for op in ("<", "<=", ">", ">=", "==", "!="):
            if "b1" in (an, bn) and an != bn:
                continue
            vals["cmp %s%s%s" % (an, op, bn)] = (bin_(op, a, b), None)
            vals["not-cmp %s%s%s" % (an, op, bn)] = (un("!", bin_(op, a, b)), None)
    out = []
    pre = [OBS_DECL, fndef("P", ["t", "x"], [obs(ident("t")), expr(ident("x"))])]
    for tag, (v, _) in vals.items():
        progs_ = {
            "not": [obs(un("!", v))],
            "not-not": [obs(un("!", un("!", v)))],
            "if-direct": [obs(if_(v, [expr(I(1))], [expr(I(2))]))],
            "while": [let("n", I(0)), while_(v, [expr(asg(ident("n"), bin_("+", ident("n"), I(1)))),
                                                 expr(if_(bin_(">=", ident("n"), I(2)), [brk()]))]), obs(ident("n"))],
            "and-left": [obs(bin_("==", bin_("&&", v, call("P", I(7), I(5))), I(5)))],
            "or-left": [obs(bin_("==", bin_("||", v, call("P", I(7), I(5))), I(5)))],
            "via-let": [let("v", v), obs(if_(ident("v"), [expr(I(1))], [expr(I(2))])), obs(un("!", ident("v")))],
            "if-not-else": [obs(if_(un("!", v), [expr(I(1))], [expr(I(2))]))],
            "if-not-not-else": [obs(if_(un("!", un("!", v)), [expr(I(1))], [expr(I(2))]))],
            "if-not4-else": [obs(if_(un("!", un("!", un("!", un("!", v)))), [expr(I(1))], [expr(I(2))]))],
            "else-if-not-not": [obs(if_(lit(vbool(False)), [expr(I(0))], if_(un("!", un("!", v)), [expr(I(1))], [expr(I(2))])))],
        }
        for pos, body in progs_.items():
            out.append(("written-form %s %s" % (tag.replace(" ", "_"), pos), pre + body))
    return out


def far_logic():
    """&& and || behind a long stretch of code (their jumps land beyond 32 KiB of bytecode), at top level and in a function"""
    pad = [expr(I(k % 10)) for k in range(9000)]
    probes = [obs(bin_("&&", I(0), call("P", I(7), I(5)))), obs(bin_("||", lit(vstr("")), I(3))), obs(bin_("&&", I(2), I(4))),
              obs(bin_("||", I(6), call("P", I(8), I(5)))), obs(un("!", bin_("&&", lit(vbool(False)), I(1)))), obs(I(77))]
    pre = [OBS_DECL, fndef("P", ["t", "x"], [obs(ident("t")), expr(ident("x"))])]
    return [("far-logic top", pre + pad + probes),
            ("far-logic function", pre + [fndef("big", [], pad + probes + [expr(I(0))]), expr(call("big")), obs(I(78))])]


def logic_in_filter_actions(rep):
    """&& and || keep yielding their operand (not a boolean) inside filter statements: every expression of the pair
    table is printed once at top level and once inside a filter action in the same run; the two lines must agree"""
    from ..past import Renderer
    import itertools
    atoms = ["0", "7", "true", "false", "\"\"", "\"s\"", "null", "[]", "[0]", "0.0", "2.5", "byte(0)", "byte(9)", "char(0)", "'c'",
             "map {}", "map {1: 1}"]
    exprs = []
    for a, b in itertools.product(atoms, repeat=2):
        exprs.append("%s && %s" % (a, b))
        exprs.append("%s || %s" % (a, b))
    cap = e2e.pcapfmt.pcap_file([e2e.pcapfmt.simple_tcp_frame()])
    jobs = []
    chunks = [exprs[i:i + 40] for i in range(0, len(exprs), 40)]
    for ch in chunks:
        top = "".join('eprintln("T%d {}", %s);\n' % (i, e) for i, e in enumerate(ch))
        act = "".join('eprintln("F%d {}", %s); ' % (i, e) for i, e in enumerate(ch))
        pat = "".join('@ true { let w%d = %s; eprintln("L%d {}", w%d); }\n' % (i, e, i, i) for i, e in enumerate(ch[:8]))
        lead = "@ true\n@ NP == 1\n" if len(jobs) % 2 else ""
        jobs.append((["-s", "-c", top + lead + "@ true { " + act + "}\n" + pat], cap))
    n = 0
    for ch, r in zip(chunks, e2e.run_many(jobs)):
        lines = {}
        for l in r["err"].decode("utf8", "replace").splitlines():
            k, _, v = l.partition(" ")
            lines[k] = v
        for i, e in enumerate(ch):
            n += 1
            rep.cov["evaluations"] += 1
            t, f = lines.get("T%d" % i), lines.get("F%d" % i)
            l = lines.get("L%d" % i) if i < 8 else t
            if r["how"] != "exit" or t is None or f != t or l != t:
                rep.disagree("logic-in-filter-action %s" % ("&&" if "&&" in e else "||"),
                             {"expr": e, "top_level": t, "in_action": f, "via_let_in_action": l, "how": r["how"],
                              "stderr": r["err"].decode("utf8", "replace")[-300:]})
    return n


def run(rep, tier, seed):
    core.build_harness()
    cases, gres = progs.generate("GenTruth")
    rep.add_tlc(gres)
    items = [{"id": c["id"], "prog": c["prog"], "pos": c["pos"], "ta": c["ta"], "tb": c["tb"]} for c in cases]
    for k, (tag, prog) in enumerate(beyond_the_table()):
        items.append({"id": 900000 + k, "prog": prog, "pos": tag.split(" ")[2], "ta": tag.split(" ")[1], "tb": "beyond-table"})
    for k, (tag, prog) in enumerate(written_forms()):
        items.append({"id": 950000 + k, "prog": prog, "pos": tag.split(" ")[2], "ta": tag.split(" ")[1].split("_")[0], "tb": "written-form",
                      "full_tag": tag})
    for k, (tag, prog) in enumerate(far_logic()):
        items.append({"id": 970000 + k, "prog": prog, "pos": tag.split(" ")[1], "ta": "far-logic", "tb": "beyond-32KiB", "full_tag": tag})
    bad, verdicts = progs.run_and_validate(rep, items, chk=("final",))
    rep.notes["written_form_cases_settled"] = sum(1 for it in items if it["tb"] == "written-form" and verdicts[it["id"]]["v"] == "ok")
    for it, out, v in bad:
        sig = "truth %s %s %s %s" % (it["pos"], it["ta"], it["tb"], progs.outcome_delta(v["exp"], out))
        rep.disagree(sig, {"src": it["src"], "expected": v["exp"], "got": it["raw"]})
    # filter-pattern position, end to end
    nf = e2e.filter_truthiness(rep, [c for c in cases if c["pos"] == "if"])
    nf += logic_in_filter_actions(rep)
    rep.cov["distinct_nontrivial"] = len({(it["pos"], it["ta"], it["tb"]) for it in items}) + nf
    rep.cov["rule"] = ("TLC-enumerated table (spec/GenTruth.tla): 31 representative values x {!v, if v, while v} and "
                       "all ordered pairs for && and || with a probe on the right operand, plus each value as a "
                       "filter pattern (end to end); values of kinds outside the table (error object, builtin, closure, function, "
                       "file handle) in every position; every && / || expression over 17 atoms printed at top level and "
                       "inside a filter action of the same run; the values in their other written forms (raw NUL literals, comparisons "
                       "and negated comparisons incl. NaN, double negation) in 7 positions; each value as a filter pattern with the "
                       "output not suppressed (with and without an action); distinct = distinct (position, value tags)")
    rep.cov["exhaustive"] = True
    for it in items[:1] + items[-1:]:
        rep.sample({"src": it["src"], "out": it["out"]})


def replay(rep, path):
    print(json.dumps(json.load(open(path)), indent=1)[:4000])
