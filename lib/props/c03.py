"""C03 - expressions group according to the documented precedence and associativity.

S->I: TLC (GenPrec) enumerates operator pairs x nesting positions and prefix/binary
combinations, chooses discriminating leaves, and renders each tree minimally (from the
documented table) and fully parenthesised. Both texts are executed by the real pipeline
and validated by Conform.tla against RefSem's evaluation of the tree.
The verdict of C03 is about grouping only: a disagreement is reported when the minimal
text and the fully parenthesised text behave differently (a deviation they share is an
operator-semantics matter, counted as semantic_drift).
I->S: seeded random trees of depth 3-4 (python renderer, same table) plus postfix and
assignment shapes."""
import json
import random

from .. import core, progs
from ..past import (OBS_DECL, obs, lit, vint, vbool, bin_, un, let, ident, call, idx, asg, arr, expr, I, fndef,
                    render)

PROP = "C03"
BINOPS = ["*", "/", "%", "+", "-", "<<", ">>", "&", "^", "|", "==", "!=", "<", ">", "<=", ">=", "&&", "||"]
UNOPS = ["!", "-", "~"]


def rand_tree(rnd, depth):
    if depth == 0 or rnd.random() < 0.15:
        r = rnd.random()
        if r < 0.7:
            return I(rnd.choice([0, 1, 2, 3, 5, 7, 9, 63]))
        if r < 0.85:
            return lit(vbool(rnd.random() < 0.5))
        if r < 0.93:
            return idx(ident("A"), I(rnd.randint(0, 2)))
        return call("f", I(rnd.randint(0, 5)))
    r = rnd.random()
    if r < 0.2:
        return un(rnd.choice(UNOPS), rand_tree(rnd, depth - 1))
    # bias towards well-typed integer arithmetic so that values discriminate
    ops = BINOPS if rnd.random() < 0.4 else ["*", "+", "-", "<<", "&", "^", "|", "%", "/"]
    return bin_(rnd.choice(ops), rand_tree(rnd, depth - 1), rand_tree(rnd, depth - 1))


PRE = [let("A", arr(I(3), I(5), I(7))), fndef("f", ["x"], [expr(bin_("+", ident("x"), I(1)))]), let("x", I(0)),
       let("y", I(0))]


def special_shapes():
    out = []
    for u in UNOPS:
        out.append(("un-idx", u, un(u, idx(ident("A"), I(1)))))
        out.append(("un-call", u, un(u, call("f", I(2)))))
    for op in BINOPS:
        out.append(("bin-idx-r", op, bin_(op, I(2), idx(ident("A"), I(1)))))
        out.append(("bin-idx-l", op, bin_(op, idx(ident("A"), I(1)), I(2))))
        out.append(("bin-call-l", op, bin_(op, call("f", I(2)), I(3))))
        out.append(("idx-of-bin", op, idx(ident("A"), bin_(op, I(1), I(1)))))
        out.append(("asg-bin", op, asg(ident("x"), bin_(op, I(6), I(3)))))
        out.append(("asg-chain", op, asg(ident("x"), asg(ident("y"), bin_(op, I(6), I(3))))))
    return out


def run(rep, tier, seed):
    core.build_harness()
    cases, gres = progs.generate("GenPrec")
    rep.add_tlc(gres)
    items = []
    for c in cases:
        for style in ("min", "full"):
            items.append({"id": "%d-%s" % (c["id"], style), "prog": [OBS_DECL, obs(c["e"])], "style": style,
                          "tree": c["id"], "shape": c["shape"], "o1": c["o1"], "o2": c["o2"],
                          "src_override": "let OBS = [];\npush(OBS, %s);\n" % " ".join(c[style])})
    nontriv = sum(1 for c in cases if c["nontrivial"])
    n = 100000
    for shape, op, e in special_shapes():
        for style in ("min", "full"):
            items.append({"id": "%d-%s" % (n, style), "prog": [OBS_DECL] + PRE + [obs(e), obs(ident("x")), obs(ident("y"))],
                          "style": style, "tree": n, "shape": shape, "o1": op, "o2": "", "full": style == "full"})
        n += 1
        nontriv += 1
    rnd = random.Random(seed)
    nrand = 1500 if tier == "quick" else 30000
    for i in range(nrand):
        e = rand_tree(rnd, rnd.choice([3, 3, 4]))
        for style in ("min", "full"):
            items.append({"id": "%d-%s" % (n, style), "prog": [OBS_DECL] + PRE + [obs(e)], "style": style, "tree": n,
                          "shape": "random", "o1": "", "o2": "", "full": style == "full"})
        n += 1
    bad, verdicts = progs.run_and_validate(rep, items, chk=())
    by_tree = {}
    for it in items:
        by_tree.setdefault(it["tree"], {})[it["style"]] = it
    badids = {it["id"] for it, out, v in bad}
    drift = 0
    for t, pair in by_tree.items():
        a, b = pair["min"], pair["full"]
        oa = {k: a["out"][k] for k in ("how", "obs", "line")}
        ob = {k: b["out"][k] for k in ("how", "obs", "line")}
        if oa != ob:
            sig = "prec %s %s %s" % (a["shape"], a["o1"], a["o2"])
            rep.disagree(sig, {"min_src": a["src"], "full_src": b["src"], "min_out": a["raw"], "full_out": b["raw"],
                               "min_rejected_by_spec": a["id"] in badids, "full_rejected_by_spec": b["id"] in badids})
        elif a["id"] in badids:
            drift += 1
    rep.notes["semantic_drift_shared_by_both_renderings"] = drift
    rep.cov["distinct_nontrivial"] = nontriv + nrand
    rep.cov["rule"] = ("trees = TLC-enumerated (operator pair x nesting side, prefix x binary) with TLC-chosen "
                       "discriminating leaves (spec/GenPrec.tla) + postfix/assignment shapes + seeded random trees "
                       "of depth 3-4; non-trivial = leaves exist under which the tree and its mis-grouped sibling "
                       "evaluate differently (decided by TLC), random trees counted as distinct by construction")
    rep.cov["exhaustive"] = False
    for it in items[:2]:
        rep.sample({"src": it["src"], "out": it["out"]})
    rep.assumptions.append("the minimal rendering is derived from the documented precedence table (PrecOf in "
                           "spec/GenPrec.tla, PREC in lib/past.py)")


def replay(rep, path):
    print(json.dumps(json.load(open(path)), indent=1)[:4000])
