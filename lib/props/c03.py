"""C03 - expressions group according to the documented precedence and associativity.

S->I: TLC (GenPrec) enumerates operator pairs x nesting positions and prefix/binary
combinations, chooses discriminating leaves, and renders each tree minimally (from the
documented table) and fully parenthesised. Both texts are executed by the real pipeline
and validated by Conform.tla against RefSem's evaluation of the tree.
The verdict of C03 is about grouping only: a disagreement is reported when the minimal
text and the fully parenthesised text behave differently (a deviation they share is an
operator-semantics matter, counted as semantic_drift).
I->S: seeded random trees of depth 3-4 (python renderer, same table) plus postfix and
assignment shapes."""
import json
import random

from .. import core, progs
from ..past import (OBS_DECL, obs, lit, vint, vbool, bin_, un, let, ident, call, idx, asg, arr, expr, I, fndef,
                    render)

PROP = "C03"
BINOPS = ["*", "/", "%", "+", "-", "<<", ">>", "&", "^", "|", "==", "!=", "<", ">", "<=", ">=", "&&", "||"]
UNOPS = ["!", "-", "~"]


def rand_tree(rnd, depth):
    if depth == 0 or rnd.random() < 0.15:
        r = rnd.random()
        if r < 0.7:
            return I(rnd.choice([0, 1, 2, 3, 5, 7, 9, 63]))
        if r < 0.85:
            return lit(vbool(rnd.random() < 0.5))
        if r < 0.93:
            return idx(ident("A"), I(rnd.randint(0, 2)))
        return call("f", I(rnd.randint(0, 5)))
    r = rnd.random()
    if r < 0.2:
        return un(rnd.choice(UNOPS), rand_tree(rnd, depth - 1))
    # bias towards well-typed integer arithmetic so that values discriminate
    ops = BINOPS if rnd.random() < 0.4 else ["*", "+", "-", "<<", "&", "^", "|", "%", "/"]
    return bin_(rnd.choice(ops), rand_tree(rnd, depth - 1), rand_tree(rnd, depth - 1))


PRE = [let("A", arr(I(3), I(5), I(7))), fndef("f", ["x"], [expr(bin_("+", ident("x"), I(1)))]), let("x", I(0)),
       let("y", I(0))]


def special_shapes():
    out = []
    for u in UNOPS:
        out.append(("un-idx", u, un(u, idx(ident("A"), I(1)))))
        out.append(("un-call", u, un(u, call("f", I(2)))))
    for op in BINOPS:
        out.append(("bin-idx-r", op, bin_(op, I(2), idx(ident("A"), I(1)))))
        out.append(("bin-idx-l", op, bin_(op, idx(ident("A"), I(1)), I(2))))
        out.append(("bin-call-l", op, bin_(op, call("f", I(2)), I(3))))
        out.append(("idx-of-bin", op, idx(ident("A"), bin_(op, I(1), I(1)))))
        out.append(("asg-bin", op, asg(ident("x"), bin_(op, I(6), I(3)))))
        out.append(("asg-chain", op, asg(ident("x"), asg(ident("y"), bin_(op, I(6), I(3))))))
    return out


def contexts():
    """syntactic positions an expression can stand in: (name, AST builder, text template).  The grouping of an
    expression must not depend on where it is written (the parser switches precedence tables inside match
    patterns, so arm bodies and what follows an alternation are the interesting places)."""
    from ..past import match, arm, plit, pdef, if_, map_, fn, ret, while_
    T = lit(vbool(True))
    F = lit(vbool(False))
    return [
        ("match-arm-expr", lambda e: [obs(match(I(1), [arm([plit(vint(1))], [expr(e)]), arm([pdef()], [expr(I(0))])]))],
         "push(OBS, match 1 { 1 => %s, _ => 0 });"),
        ("match-arm-block", lambda e: [obs(match(I(1), [arm([plit(vint(1))], [expr(e)]), arm([pdef()], [expr(I(0))])]))],
         "push(OBS, match 1 { 1 => { %s }, _ => { 0 } });"),
        ("match-arm-after-alternation",
         lambda e: [obs(match(I(3), [arm([plit(vint(1))], [expr(I(0))]), arm([plit(vint(2)), plit(vint(3))], [expr(e)])]))],
         "push(OBS, match 3 { 1 => 0, 2 | 3 => %s });"),
        ("if-body", lambda e: [obs(if_(T, [expr(e)], [expr(I(0))]))], "push(OBS, if true { %s } else { 0 });"),
        ("else-body", lambda e: [obs(if_(F, [expr(I(0))], [expr(e)]))], "push(OBS, if false { 0 } else { %s });"),
        ("array-element", lambda e: [obs(idx(arr(I(0), e, I(0)), I(1)))], "push(OBS, [0, %s, 0][1]);"),
        ("call-argument", lambda e: [fndef("snd", ["a", "b"], [expr(ident("b"))]), obs(call("snd", I(0), e))],
         "fn snd(a, b) { b }\npush(OBS, snd(0, %s));"),
        ("function-tail", lambda e: [fndef("r", [], [expr(e)]), obs(call("r"))], "fn r() { %s }\npush(OBS, r());"),
        ("return-value", lambda e: [fndef("r", [], [ret(e)]), obs(call("r"))], "fn r() { return %s; }\npush(OBS, r());"),
        ("let-initialiser", lambda e: [let("t", e), obs(ident("t"))], "let t = %s;\npush(OBS, t);"),
        ("map-value", lambda e: [obs(idx(map_((I(1), e)), I(1)))], "push(OBS, map {1: %s}[1]);"),
        ("loop-body-assignment",
         lambda e: [let("t", I(0)), let("c", I(0)),
                    while_(bin_("<", ident("c"), I(1)), [expr(asg(ident("c"), bin_("+", ident("c"), I(1)))), expr(asg(ident("t"), e))]),
                    obs(ident("t"))],
         "let t = 0;\nlet c = 0;\nwhile c < 1 { c = c + 1; t = %s; }\npush(OBS, t);"),
        ("closure-body", lambda e: [let("g", fn([], [expr(e)])), obs(call("g"))], "let g = fn() { %s };\npush(OBS, g());"),
    ]


def in_contexts(rep, cases, tier):
    """every TLC-enumerated tree in every syntactic position, in both renderings: the two texts must behave alike
    (the property's own statement); a strided part is also validated against RefSem"""
    ctxs = contexts()
    items = []
    n = 500000
    for c in cases:
        if not c["nontrivial"]:
            continue
        for cname, mk, tmpl in ctxs:
            for style in ("min", "full"):
                items.append({"id": "%d-%s" % (n, style), "prog": [OBS_DECL] + mk(c["e"]), "style": style, "tree": n,
                              "shape": c["shape"], "o1": c["o1"], "o2": c["o2"], "ctx": cname,
                              "src": "let OBS = [];\n" + (tmpl % " ".join(c[style])) + "\n"})
            n += 1
    res = core.run_cases([{"id": it["id"], "src": it["src"]} for it in items])
    pairs = {}
    for it in items:
        it["raw"] = res[it["id"]]
        it["out"] = core.norm_out(it["raw"])
        pairs.setdefault(it["tree"], {})[it["style"]] = it
    differ = 0
    for t, pr in pairs.items():
        a, b = pr["min"], pr["full"]
        oa = {k: a["out"][k] for k in ("how", "obs", "line")}
        ob = {k: b["out"][k] for k in ("how", "obs", "line")}
        if oa != ob:
            differ += 1
            rep.disagree("prec %s %s %s in %s" % (a["shape"], a["o1"], a["o2"], a["ctx"]),
                         {"min_src": a["src"], "full_src": b["src"], "min_out": a["raw"], "full_out": b["raw"]})
    rep.cov["evaluations"] += len(items)
    rep.notes["context_cases"] = len(items)
    rep.notes["contexts"] = [c[0] for c in ctxs]
    # strided validation against the reference semantics
    stride = 6 if tier == "quick" else 2
    sub = [it for k, it in enumerate(items) if (k // 2) % stride == 0]
    vitems = [{"id": it["id"], "prog": it["prog"], "src_override": it["src"], "chk": []} for it in sub]
    bad, _ = progs.run_and_validate(rep, vitems, chk=())
    rep.notes["context_cases_rejected_by_refsem"] = len(bad)
    for it, out, v in bad[:20]:
        # a deviation both renderings share is operator semantics; one that only one rendering shows was reported above
        pass
    return len(pairs)


def run(rep, tier, seed):
    core.build_harness()
    cases, gres = progs.generate("GenPrec")
    rep.add_tlc(gres)
    items = []
    for c in cases:
        for style in ("min", "full"):
            items.append({"id": "%d-%s" % (c["id"], style), "prog": [OBS_DECL, obs(c["e"])], "style": style,
                          "tree": c["id"], "shape": c["shape"], "o1": c["o1"], "o2": c["o2"],
                          "src_override": "let OBS = [];\npush(OBS, %s);\n" % " ".join(c[style])})
    nontriv = sum(1 for c in cases if c["nontrivial"])
    n = 100000
    for shape, op, e in special_shapes():
        for style in ("min", "full"):
            items.append({"id": "%d-%s" % (n, style), "prog": [OBS_DECL] + PRE + [obs(e), obs(ident("x")), obs(ident("y"))],
                          "style": style, "tree": n, "shape": shape, "o1": op, "o2": "", "full": style == "full"})
        n += 1
        nontriv += 1
    rnd = random.Random(seed)
    nrand = 1500 if tier == "quick" else 30000
    for i in range(nrand):
        e = rand_tree(rnd, rnd.choice([3, 3, 4]))
        for style in ("min", "full"):
            items.append({"id": "%d-%s" % (n, style), "prog": [OBS_DECL] + PRE + [obs(e)], "style": style, "tree": n,
                          "shape": "random", "o1": "", "o2": "", "full": style == "full"})
        n += 1
    bad, verdicts = progs.run_and_validate(rep, items, chk=())
    by_tree = {}
    for it in items:
        by_tree.setdefault(it["tree"], {})[it["style"]] = it
    badids = {it["id"] for it, out, v in bad}
    drift = 0
    for t, pair in by_tree.items():
        a, b = pair["min"], pair["full"]
        oa = {k: a["out"][k] for k in ("how", "obs", "line")}
        ob = {k: b["out"][k] for k in ("how", "obs", "line")}
        if oa != ob:
            sig = "prec %s %s %s" % (a["shape"], a["o1"], a["o2"])
            rep.disagree(sig, {"min_src": a["src"], "full_src": b["src"], "min_out": a["raw"], "full_out": b["raw"],
                               "min_rejected_by_spec": a["id"] in badids, "full_rejected_by_spec": b["id"] in badids})
        elif a["id"] in badids:
            drift += 1
    rep.notes["semantic_drift_shared_by_both_renderings"] = drift
    nctx = in_contexts(rep, cases, tier)
    rep.cov["distinct_nontrivial"] = nontriv + nrand + nctx
    rep.cov["rule"] = ("trees = TLC-enumerated (operator pair x nesting side, prefix x binary) with TLC-chosen "
                       "discriminating leaves, each also written in 13 syntactic positions (match arm as expression / "
                       "block / after an alternation pattern, if / else body, array element, call argument, function "
                       "tail, return value, let initialiser, map value, loop-body assignment, closure body); "
                       "TLC-enumerated "
                       "discriminating leaves (spec/GenPrec.tla) + postfix/assignment shapes + seeded random trees "
                       "of depth 3-4; non-trivial = leaves exist under which the tree and its mis-grouped sibling "
                       "evaluate differently (decided by TLC), random trees counted as distinct by construction")
    rep.cov["exhaustive"] = False
    for it in items[:2]:
        rep.sample({"src": it["src"], "out": it["out"]})
    rep.assumptions.append("the minimal rendering is derived from the documented precedence table (PrecOf in "
                           "spec/GenPrec.tla, PREC in lib/past.py)")


def replay(rep, path):
    print(json.dumps(json.load(open(path)), indent=1)[:4000])
