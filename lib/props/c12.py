"""C12 - format and print render the documented format mini-language.

spec/Format.tla is the reference renderer.  S->I: TLC (spec/GenFormat.tla) enumerates every
specifier of the grammar (index x alignment/fill x width x radix, with and without the colon)
between literal text, applied to six argument lists, and checks laws of the renderer on each;
seeded random strings of several pieces (literals incl. non-ASCII and {{ }}, specifiers,
malformed specifiers) with random argument lists are added.  Every case is evaluated by the
real interpreter (format(...) in-process) and TLC (spec/FormatTrace.tla) compares the result
with Render.  The print family is run through the real binary: scripts of print / println /
eprint / eprintln calls; TLC validates stdout, stderr and the returned lengths."""
import json
import os
import random
import shutil

from .. import core, progs, e2e
from ..past import vint, vstr, vbool, vnull, vchar, vfloat, vbyte, render_value, from_limbs

PROP = "C12"


def arg_text(v):
    if v["k"] == "arr":
        return "[" + ", ".join(arg_text(x) for x in v["v"]) + "]"
    return render_value(v)[0]


def fmt_src(fmt):
    return '"%s"' % "".join(chr(c) for c in fmt)


def format_case(cid, fmt, args):
    """program: OBS collects str() of every argument, the final value is format(...)"""
    lines = ["let OBS = [];"]
    for a in args:
        lines.append("push(OBS, str(%s));" % arg_text(a))
    lines.append("format(%s);" % ", ".join([fmt_src(fmt)] + [arg_text(a) for a in args]))
    return {"id": cid, "src": "\n".join(lines) + "\n"}


INTS = [0, 1, -1, 7, -42, 255, 256, 65535, 1000000, (1 << 40) + 5, (1 << 63) - 1, -(1 << 63)]
STRS = ["", "a", "hello", "héllo", "日本", "{}", "{0}", "a b", "}"]


def rand_arg(rnd):
    r = rnd.random()
    if r < 0.4:
        return vint(rnd.choice(INTS))
    if r < 0.65:
        return vstr(rnd.choice(STRS))
    if r < 0.75:
        return vbool(rnd.random() < 0.5)
    if r < 0.8:
        return vnull()
    if r < 0.86:
        return vchar(rnd.choice("qZé"))
    if r < 0.92:
        return vfloat(rnd.choice([1.5, -0.25, 3.0]))
    if r < 0.96:
        return vbyte(rnd.choice([0, 65, 255]))
    return {"k": "arr", "v": [vint(rnd.randint(0, 9)), vstr("s")]}


LITS = ["", "a", " ", "x=", "é", "日", "{{", "}}", "{{}}", "}}{{", ":", "<", "0", "%d", "\n", "\t|"]
MALFORMED = ["{", "}", "{:}", "{a}", "{:<<<5}", "{:5x5}", "{-1}", "{ 0}", "{0 }", "{:99999999999999999999}", "{0:}", "{:+5}",
             "{99999999999999999999}", "{:5.2}", "{:^5}", "{0:ab<5}", "{:{}}", "{:>}", "{:<}", "{::}", "{:é<4}", "{:é>3x}",
             "{:}}<4}", "{x:1}", "{:05}", "{:007}", "{00}", "{01}", "{:bx}", "{:5b5}", "{:#x}", "{0:0}"]


def rand_spec(rnd):
    s = "{"
    if rnd.random() < 0.4:
        s += str(rnd.choice([0, 0, 1, 1, 2, 3, 5]))
    body = ""
    if rnd.random() < 0.6:
        if rnd.random() < 0.6:
            body += rnd.choice(["0", "*", " ", "x", "b", ":", "<", ">", "#", "_", "9", "o", "X", "-", "é"])
        body += rnd.choice("<>")
    elif rnd.random() < 0.15:
        body += rnd.choice("<>")
    if rnd.random() < 0.7:
        body += str(rnd.choice([0, 1, 2, 3, 5, 8, 12, 20, 33]))
    radix = rnd.choice(["", "", "", "b", "o", "x", "X"])
    if body:
        s += ":" + body + radix
    elif radix:
        s += (":" if rnd.random() < 0.7 else "") + radix
    elif rnd.random() < 0.2:
        s += ":"
    return s + "}"


def rand_format(rnd, malformed_rate=0.12):
    parts = []
    for _ in range(rnd.randint(1, 6)):
        r = rnd.random()
        if r < 0.35:
            parts.append(rnd.choice(LITS))
        elif r < 0.35 + malformed_rate:
            parts.append(rnd.choice(MALFORMED))
        else:
            parts.append(rand_spec(rnd))
    return [ord(c) for c in "".join(parts)]


def shown_of(obs, args):
    vals = (obs or {}).get("v") or []
    out = []
    for i, a in enumerate(args):
        sh = vals[i]["v"] if i < len(vals) and vals[i].get("k") == "str" else [63]
        out.append({"v": a if a["k"] != "arr" else {"k": "arr"}, "shown": sh})
    return out


def spec_class(fmt):
    """coarse shape of a format string (set of features used), for violation signatures"""
    import re
    t = "".join(chr(c) for c in fmt)
    flags = set()
    if "{{" in t or "}}" in t:
        flags.add("escape")
    for s in re.findall(r"\{[^{}]*\}", t.replace("{{", "")):
        b = s[1:-1]
        m = re.match(r"\d+", b)
        if m:
            flags.add("index")
            b = b[m.end():]
        if b.startswith(":"):
            b = b[1:]
        if len(b) > 1 and b[1] in "<>":
            flags.add("fill-letter" if b[0] in "boxX:<>" else "fill")
            b = b[2:]
        elif b[:1] in ("<", ">"):
            flags.add("align")
            b = b[1:]
        m = re.match(r"\d+", b)
        if m:
            flags.add("width")
            b = b[m.end():]
        if b in ("b", "o", "x", "X"):
            flags.add("radix")
        elif b:
            flags.add("other")
    return "+".join(sorted(flags)) or "plain"


def run(rep, tier, seed):
    core.build_harness()
    core.build_binary()
    rnd = random.Random(seed)
    gen, gres = progs.generate("GenFormat", timeout=1800)
    rep.add_tlc(gres)
    # the argument lists of GenFormat.ArgSets, as literal values
    argsets = [[vint(42), vstr("hi"), vbool(True)], [vint(-7), vint(0), vstr(""), vint(255)],
               [vstr("abcdefgh"), vint(1000000), vnull()], [vint(5)], [],
               [vfloat(1.5), vchar("q"), vint(65535), vbool(False)]]
    jobs = []
    for c in gen:
        jobs.append({"id": len(jobs), "fmt": c["fmt"], "args": argsets[c["as"] - 1], "origin": "enumerated"})
    nrand = 4000 if tier == "quick" else 60000
    for _ in range(nrand):
        jobs.append({"id": len(jobs), "fmt": rand_format(rnd), "args": [rand_arg(rnd) for _ in range(rnd.randint(0, 4))],
                     "origin": "random"})
    res = core.run_cases([format_case(j["id"], j["fmt"], j["args"]) for j in jobs])
    recs = []
    for j in jobs:
        r = res[j["id"]]
        how = r.get("how")
        fin = r.get("final") or {}
        j["raw"] = {k: r.get(k) for k in ("how", "msg")}
        text = fin["v"] if how == "ok" and fin.get("k") == "str" else []
        j["text"] = text
        recs.append({"id": j["id"], "kind": "format", "fmt": j["fmt"], "args": shown_of(r.get("obs"), j["args"]),
                     "how": how if how in ("ok", "rterror") else "crash:" + str(how), "text": text})
    # ---- print family through the binary
    d = core.workdir("c12")
    try:
        pjobs = []
        for i in range(150 if tier == "quick" else 2500):
            calls = []
            for _ in range(rnd.randint(1, 6)):
                name = rnd.choice(["print", "println", "eprint", "eprintln"])
                fmt = rand_format(rnd, malformed_rate=0.0)
                fmt = [c for c in fmt if c != 167]
                calls.append({"name": name, "fmt": fmt, "args": [rand_arg(rnd) for _ in range(rnd.randint(0, 3))]})
            if i < 8:
                # long texts: a line break followed by a long run without one (the standard output is line buffered:
                # what follows the last line break goes out in a write of its own, which may be partial)
                tail = [1023, 1024, 2500, 5000, 1024, 2500, 700, 4096][i]
                name = ["print", "println", "print", "println", "eprint", "eprintln", "print", "print"][i]
                calls = [{"name": name, "fmt": [ord(c) for c in "head"] + [10] + [ord("a") + (k % 26) for k in range(tail)], "args": []}]
                if i % 2:
                    calls.append({"name": "print", "fmt": [ord(c) for c in "-more-"] + [10], "args": []})
            lines = ["let LENS = [];", "let SH = [];"]
            for c in calls:
                for a in c["args"]:
                    lines.append("push(SH, str(%s));" % arg_text(a))
            for c in calls:
                lines.append("push(LENS, %s(%s));" % (c["name"], ", ".join([fmt_src(c["fmt"])] + [arg_text(a) for a in c["args"]])))
            lines.append('let OUT = open("%s", "w");' % os.path.join(d, "r%d.txt" % i))
            lines.append('write(OUT, str(LENS)); write(OUT, "\\n");')
            path = os.path.join(d, "p%d.p2" % i)
            # SH is evaluated in a separate in-process run (display texts), the script itself only prints
            script = "\n".join(l for l in lines if not l.startswith("push(SH") and l != "let SH = [];") + "\n"
            open(path, "w").write(script.replace('write(OUT, "\\n");', ""))
            pjobs.append({"id": len(jobs) + i, "calls": calls, "path": path, "lens_path": os.path.join(d, "r%d.txt" % i), "script": script,
                          "shsrc": "let OBS = [];\n" + "\n".join(l.replace("push(SH", "push(OBS") for l in lines if l.startswith("push(SH")) + "\n"})
        outs = e2e.run_many([([j["path"]], b"") for j in pjobs])
        shres = core.run_cases([{"id": j["id"], "src": j["shsrc"]} for j in pjobs])
        for j, o in zip(pjobs, outs):
            shown = [(x["v"] if x.get("k") == "str" else [63]) for x in ((shres[j["id"]].get("obs") or {}).get("v") or [])]
            k = 0
            calls = []
            for c in j["calls"]:
                args = []
                for a in c["args"]:
                    args.append({"v": a if a["k"] != "arr" else {"k": "arr"}, "shown": shown[k] if k < len(shown) else [63]})
                    k += 1
                calls.append({"name": c["name"], "fmt": c["fmt"], "args": args})
            lens = []
            if os.path.exists(j["lens_path"]):
                t = open(j["lens_path"]).read().strip()
                try:
                    lens = json.loads(t)
                except ValueError:
                    lens = [-1]
            err = o["err"]
            how = "ok"
            errtext = err.decode("utf8", "replace")
            if o["how"] != "exit":
                how = "crash:" + o["how"]
            elif b"] Runtime error: " in err:
                how = "rterror"
                # the report of the runtime error follows what eprint wrote; cut it off at its last line start
                cut = errtext.rfind("[line ")
                errtext = errtext[:cut] if cut >= 0 else errtext
            elif o["rc"] != 0:
                how = "exit:%d" % o["rc"]
            j["run"] = {"rc": o["rc"], "out": o["out"].decode("utf8", "replace"), "err": err.decode("utf8", "replace"), "lens": lens}
            recs.append({"id": j["id"], "kind": "print", "calls": calls, "how": how,
                         "out": [ord(c) for c in o["out"].decode("utf8", "replace")],
                         "errtext": [ord(c) for c in errtext], "lens": lens})
        verdicts, tres = core.tlc_validate("FormatTrace", recs, timeout=3000)
        rep.add_tlc(tres)
        rep.cov["traces_validated_against_impl"] += len(recs)
        rep.cov["evaluations"] += len(recs)
        exp = {}
        for j in jobs:
            v = verdicts[j["id"]]
            exp[v["exp"]] = exp.get(v["exp"], 0) + 1
            if v["v"] == "bad":
                got = j["raw"]["how"] if j["raw"]["how"] != "ok" or v["exp"] != "ok" else "other-text"
                rep.disagree("format %s expected=%s got=%s" % (spec_class(j["fmt"]), v["exp"], got),
                             {"format": "".join(chr(c) for c in j["fmt"]), "args": [arg_text(a) for a in j["args"]],
                              "expected": "".join(chr(c) for c in v["want"]), "impl": j["raw"],
                              "impl_text": "".join(chr(c) for c in j["text"]), "origin": j["origin"]})
        for j in pjobs:
            v = verdicts[j["id"]]
            exp["print:" + v["exp"]] = exp.get("print:" + v["exp"], 0) + 1
            if v["v"] == "bad":
                rep.disagree("print family expected=%s" % v["exp"], {"script": j["script"], "run": j["run"],
                                                                     "expected_stdout": "".join(chr(c) for c in v["want"])})
        rep.notes["expected_classes"] = exp
        rep.cov["unspecified"] = exp.get("unspec", 0) + exp.get("print:unspec", 0)
        rep.cov["distinct_nontrivial"] = len({(tuple(j["fmt"]), tuple(arg_text(a) for a in j["args"])) for j in jobs}) + len(pjobs)
        rep.cov["rule"] = ("TLC-enumerated specifiers (5 indexes x 21 alignments/fills x 5 widths x 5 radixes, with / without colon) "
                           "x 6 argument lists, plus seeded random strings of 1-6 pieces (literals, escapes, specifiers, %d "
                           "malformed shapes) with 0-4 random arguments of 9 kinds; scripts of 1-6 print-family calls through "
                           "the binary; distinct = distinct (format string, arguments) + scripts" % len(MALFORMED))
        rep.cov["exhaustive"] = False
        rep.sample({"format": "".join(chr(c) for c in jobs[-1]["fmt"]), "args": [arg_text(a) for a in jobs[-1]["args"]],
                    "impl_text": "".join(chr(c) for c in jobs[-1]["text"])})
    finally:
        shutil.rmtree(d, ignore_errors=True)


def replay(rep, path):
    print(json.dumps(json.load(open(path)), indent=1)[:6000])
