"""C23 - REPL lines accumulate state like one program; rejected lines have no effect.

Spec level: spec/Repl.tla (RunLine over the reference semantics' top-level state; outcome
classes parse / compile / ok / rterror) is model-checked over all histories of up to 4 lines of
a 10-line library (RejectedLineHasNoEffect, LikeOneProgram; 11 k states).
Conformance (I->S): random histories of 1-12 lines (definitions, redefinitions of existing
names, function definitions, uses, assignments, loops, unparsable lines, lines the compiler
rejects - including ones that would redefine an existing name -, lines failing at run time
after a side effect, blank and continued lines) are fed to the real run_prompt loop of the
hooked binary (scripted line source, hook H4); after every line a probe line prints the
observation array; spec/ReplTrace.tla validates each line's outcome class and the state after it."""
import json
import random
import re
import subprocess
from concurrent.futures import ThreadPoolExecutor

from .. import core, tlcrun
from ..past import (obs, lit, vint, vbool, vstr, bin_, un, let, ident, call, idx, arr, map_, expr, I, if_, while_, fndef, fn,
                    asg, block, brk, Renderer, OBS_DECL)

PROP = "C23"
UNPARSABLE = ["let = 5", "1 +", "fn (", "if {", "let x 5", ")", "x = = 1", "let a = [1, 2", "match 1 {", "@"]


class Hist:
    def __init__(self, rnd):
        self.rnd = rnd
        self.vars = []       # int variables defined so far (by accepted lines)
        self.fns = []
        self.n = 0
        self.hidden = None
        self.used_builtin_names = set()
        self.nullvars = []
        self.fnsn = []       # (name, arity) of the same-body functions

    BUILTIN_LIKE = ["last", "first", "len", "get", "str", "sort", "time", "rest", "chars", "round"]   # (not push / puts: the probes call them)

    def fresh(self, p):
        self.n += 1
        r = self.rnd.random()
        if p in ("v", "f") and r < 0.12:
            # a user binding may carry the name of a builtin function: from then on the name is the user's
            cands = [b for b in self.BUILTIN_LIKE if b not in self.used_builtin_names]
            if cands:
                b = self.rnd.choice(cands)
                self.used_builtin_names.add(b)
                return b
        if p == "v" and r < 0.24:
            return "%s%d" % (self.rnd.choice(["quit", "quits", "quit_"]), self.n)      # only the whole line "quit" quits
        return "%s%d" % (p, self.n)

    def e_int(self, d=2):
        rnd = self.rnd
        if d == 0 or rnd.random() < 0.3:
            vs = [v for v in self.vars if v != self.hidden]
            if vs and rnd.random() < 0.6:
                return ident(rnd.choice(vs))
            return I(rnd.randint(-5, 20))
        r = rnd.random()
        if r < 0.6:
            return bin_(rnd.choice(["+", "-", "*"]), self.e_int(d - 1), self.e_int(d - 1))
        if r < 0.8 and self.fns:
            return call(rnd.choice(self.fns), self.e_int(d - 1))
        return if_(bin_("<", self.e_int(d - 1), self.e_int(d - 1)), [expr(self.e_int(d - 1))], [expr(self.e_int(d - 1))])

    def line(self):
        """returns (kind, statements | text, will_define)"""
        rnd = self.rnd
        r = rnd.random()
        if r < 0.10:
            return "raw", rnd.choice(UNPARSABLE), None
        if rnd.random() < 0.16:
            # functions whose bodies are the same text but whose parameter lists differ in length (every REPL line is
            # line 1, so such bodies compile to the same code), and calls of them with the right number of arguments
            bodies = [[expr(ident("a"))], [expr(bin_("+", ident("a"), I(1)))], [expr(I(7))], [let("t", ident("a")), expr(ident("t"))]]
            if self.fnsn and rnd.random() < 0.5:
                name, ar, _ = self.fnsn[-1] if rnd.random() < 0.6 else rnd.choice(self.fnsn)
                return "stmts", [obs(call(name, *[I(rnd.randint(1, 9)) for _ in range(ar)]))], None
            name = self.fresh("h")
            if self.fnsn and rnd.random() < 0.7:
                _, ar0, bi = rnd.choice(self.fnsn)          # a twin: the same body under a parameter list of another length
                ar = rnd.choice([a for a in (1, 2, 3) if a != ar0])
            else:
                ar, bi = rnd.choice([1, 2, 2, 3]), rnd.randrange(len(bodies))
            self.fnsn.append((name, ar, bi))
            return "stmts", [fndef(name, ["a", "b", "c"][:ar], bodies[bi])], None
        if rnd.random() < 0.08:
            # a line that is just a value - also the falsey ones: the REPL shows it as a script's last statement would
            v = rnd.choice([I(0), lit(vbool(False)), lit(vstr("")), arr(), map_(), lit(vbool(True)), I(7), lit(vstr("s")), arr(I(0)),
                            bin_("-", self.e_int(1), I(0)), bin_("<", self.e_int(1), self.e_int(1)), bin_("==", I(1), I(2)),
                            bin_("*", self.e_int(1), I(0))])
            return "stmts", [expr(v)], None
        if r < 0.22:
            # rejected by the compiler; half of them would redefine an existing name
            name = rnd.choice(self.vars) if self.vars and rnd.random() < 0.6 else self.fresh("v")
            stmts = [let(name, bin_("+", ident("nosuch%d" % rnd.randint(0, 9)), I(1)))]
            if rnd.random() < 0.4:
                stmts = [obs(I(999)), let(self.fresh("w"), I(1))] + stmts
            return "stmts", stmts, None
        if r < 0.13 and False:
            pass
        if 0.22 <= r < 0.25:
            # definitions whose value is null: a null literal, a call that returns null, an initialiser that fails at
            # run time (the name then stays out of later lines: whether it is bound is not settled)
            k = rnd.randrange(3)
            name = self.fresh("n")
            if k == 0:
                self.nullvars.append(name)
                return "stmts", [let(name, lit({"k": "null"}))], None
            if k == 1:
                self.nullvars.append(name)
                return "stmts", [let(name, call("puts", lit(vstr("."))))], None
            return "stmts", [let(self.fresh("z"), bin_("/", self.e_int(1), I(0)))], None
        if 0.25 <= r < 0.27 and self.nullvars:
            return "stmts", [obs(bin_("==", ident(rnd.choice(self.nullvars)), lit({"k": "null"})))], None
        if r < 0.30:
            # rejected by the compiler after it has already entered nested scopes and made definitions there:
            # inside a block / if / loop body, a named function's body, an anonymous function
            name = rnd.choice(self.vars) if self.vars and rnd.random() < 0.7 else self.fresh("v")
            bad = bin_("+", ident("nosuch%d" % rnd.randint(0, 9)), I(1))
            inner = [let(name, I(rnd.randint(50, 60))), obs(bad)]
            shape = rnd.randrange(7)
            if shape == 0:
                stmts = [expr(if_(lit(vbool(True)), inner))]
            elif shape == 1:
                stmts = [block(inner)]
            elif shape == 2:
                stmts = [while_(lit(vbool(False)), inner)]
            elif shape == 3:
                stmts = [fndef(rnd.choice(self.fns) if self.fns and rnd.random() < 0.5 else self.fresh("g"), [self.fresh("p")], inner + [expr(I(0))])]
            elif shape == 4:
                stmts = [obs(call(fn(["a"], [expr(bin_("+", ident("a"), bad))]), I(1)))]
            elif shape == 5:
                stmts = [let(self.fresh("q"), fn([], inner + [expr(I(0))]))]
            else:
                stmts = [expr(if_(lit(vbool(True)), [block(inner)]))]
            return "stmts", stmts, None
        if r < 0.40:
            # fails at run time after a side effect
            name = self.fresh("v")
            stmts = [obs(self.e_int(1)), let(name, self.e_int(1)), expr(bin_(rnd.choice(["/", "%"]), self.e_int(1), I(0)))]
            return "stmts", stmts, ("var", name)
        if r < 0.58:
            name = rnd.choice(self.vars) if self.vars and rnd.random() < 0.4 else self.fresh("v")
            # a redefinition must not mention the name it defines (which binding that denotes is unspecified)
            self.hidden = name
            e = self.e_int()
            self.hidden = None
            return "stmts", [let(name, e), obs(ident(name))], ("var", name)
        if r < 0.66:
            name = self.fresh("f")
            p = self.fresh("p")
            body = [expr(bin_("+", ident(p), self.e_int(1)))]
            return "stmts", [fndef(name, [p], body)], ("fn", name)
        if r < 0.75 and self.vars:
            v = rnd.choice(self.vars)
            return "stmts", [expr(asg(ident(v), self.e_int())), obs(ident(v))], None
        if r < 0.80 and self.vars:
            # reads from nested scopes: a block, an if body, an anonymous function called at once
            v = rnd.choice(self.vars)
            shape = rnd.randrange(3)
            if shape == 0:
                return "stmts", [expr(if_(lit(vbool(True)), [obs(ident(v))]))], None
            if shape == 1:
                return "stmts", [block([obs(bin_("+", ident(v), I(1)))])], None
            return "stmts", [obs(call(fn([], [expr(ident(v))])))], None
        if r < 0.88:
            c = self.fresh("i")
            return "stmts", [let(c, I(0)), while_(bin_("<", ident(c), I(3)), [expr(asg(ident(c), bin_("+", ident(c), I(1)))), obs(ident(c))])], None
        return "stmts", [obs(self.e_int()), obs(self.e_int(1))], None


def line_text(stmts):
    r = Renderer()
    return " ".join(r.stmt_inline(s) for s in stmts)


def session(rnd, nlines):
    h = Hist(rnd)
    lines = [("stmts", [OBS_DECL], None)]
    for _ in range(nlines):
        kind, body, defines = h.line()
        lines.append((kind, body, defines))
        # the generator only needs to know which names exist: a line that fails at run time still made its let
        if defines and kind == "stmts":
            if defines[0] == "var" and defines[1] not in h.vars:
                h.vars.append(defines[1])
            if defines[0] == "fn":
                h.fns.append(defines[1])
    return lines


PROBE = 'puts("§", OBS)'


def run(rep, tier, seed):
    core.build_binary()
    mc = tlcrun.require_ok(tlcrun.run_tlc("MC_Repl", workers=core.TLC_WORKERS, timeout=900), "MC_Repl")
    rep.add_tlc(mc)
    rnd = random.Random(seed)
    sessions = []
    for i in range(400 if tier == "quick" else 5000):
        lines = session(rnd, rnd.randint(1, 12))
        text = ""
        for kind, body, _ in lines:
            t = body if kind == "raw" else line_text(body)
            if kind == "stmts" and rnd.random() < 0.1 and " " in t:
                # a continued line: split at a blank with a trailing backslash
                k = t.index(" ", len(t) // 2) if " " in t[len(t) // 2:] else t.index(" ")
                t = t[:k] + " \\\n" + t[k:]
            if rnd.random() < 0.1:
                text += "\n"                      # a blank line in between
            text += t + "\n" + PROBE + "\n"
        sessions.append({"id": i, "lines": lines, "text": text})

    def runsession(s):
        import os
        e = dict(os.environ)
        e["P2SH_VERIF_REPL"] = "1"
        try:
            p = subprocess.run([core.P2SH], input=s["text"].encode("utf8"), stdout=subprocess.PIPE, stderr=subprocess.PIPE,
                               timeout=300, env=e)
            s["out"] = p.stdout.decode("utf8", "replace")
            s["err"] = p.stderr.decode("utf8", "replace")
            s["rc"] = p.returncode
        except subprocess.TimeoutExpired:
            s["out"], s["err"], s["rc"] = "", "", None
    with ThreadPoolExecutor(max_workers=12) as ex:
        list(ex.map(runsession, sessions))
    recs = []
    for s in sessions:
        # replies are separated by the record separator the hook writes before every read; blank lines are
        # skipped by the loop without a reply of their own
        outs = s["out"].split("\x1e")[1:]
        errs = s["err"].split("\x1e")[1:]
        inputs = []
        for kind, body, _ in s["lines"]:
            inputs.append(("line", kind, body))
            inputs.append(("probe", None, None))
        # map inputs to replies: every non-blank input produces exactly one separator-delimited reply
        obs_lines = []
        k = 0
        ok = s["rc"] == 0 and len(outs) >= len(inputs)
        lines = []
        # blank inputs also go through the hook (a read each), so replies are per read: count reads in the text
        reads = [ln for ln in re.split(r"(?<!\\)\n", s["text"]) ][:-1]
        ri = 0
        replies = list(zip(outs, errs + [""] * len(outs)))
        cur = None
        for rd in reads:
            rep_out, rep_err = replies[ri] if ri < len(replies) else ("", "")
            ri += 1
            if rd.strip() == "":
                continue
            if rd.strip() == PROBE:
                m = re.search(r"§\[(.*)\]", rep_out)
                vals = None
                if m is not None:
                    vals = []
                    for x in m.group(1).split(","):
                        x = x.strip()
                        if not x:
                            continue
                        if re.fullmatch(r"-?\d+", x):
                            vals.append({"k": "int", "v": [(int(x) >> (8 * b)) & 255 for b in range(8)]})
                        else:
                            vals.append({"k": "other", "v": x})
                if cur is not None:
                    cur["obs"] = {"k": "none"} if m is None else {"k": "arr", "v": vals}
                    lines.append(cur)
                    cur = None
            else:
                cls = "parse" if "parse errors" in rep_err else ("compile" if "compile error" in rep_err else
                                                                 ("rterror" if "Runtime error" in rep_err else "ok"))
                cur = {"class": cls, "stderr": rep_err[:200], "echo": rep_out}
        for (kind, body, _), l in zip(s["lines"], lines):
            l["line"] = {"kind": "unparsable"} if kind == "raw" else {"kind": "stmts", "b": render_ln(body)}
        if len(lines) != len(s["lines"]):
            lines = lines[:len(s["lines"])]
            s["short"] = True
        s["obs_lines"] = lines
    # what each accepted line printed, against the same line at the end of a script made of the lines accepted before it
    # (compared up to the session's first line that fails at run time: a script cannot stop half-way through a line and go on)
    from .. import e2e
    jobs = []
    for s in sessions:
        accepted = []
        for (kind, body, _), l in zip(s["lines"], s["obs_lines"]):
            if kind == "raw" or l["class"] in ("parse", "compile"):
                continue
            if l["class"] != "ok":
                break
            t = line_text(body)
            l["script_jobs"] = (len(jobs), len(jobs) + 1)
            jobs.append((["-c", "\n".join(accepted + [t]) + "\n"], b""))
            jobs.append((["-c", "\n".join(accepted + ["null"]) + "\n"], b""))
            accepted.append(t)
    res = e2e.run_many(jobs)
    for s in sessions:
        for l in s["obs_lines"]:
            l["script"] = [-1]
            if "script_jobs" in l:
                a, b = res[l["script_jobs"][0]], res[l["script_jobs"][1]]
                if a["how"] == "exit" and b["how"] == "exit" and a["out"].startswith(b["out"]) and not a["err"] and not b["err"]:
                    l["script"] = [ord(c) for c in a["out"][len(b["out"]):].decode("utf8", "replace")]
                    l["echo_cp"] = [ord(c) for c in l["echo"]]
        lines = s["obs_lines"]
        recs.append({"id": s["id"], "lines": [{"line": l["line"], "class": l["class"], "obs": l["obs"],
                                               "echo": l.get("echo_cp", [-1]), "script": l["script"]} for l in lines if "line" in l],
                     "complete": not s.get("short", False) and s["rc"] == 0})
    verdicts, tres = core.tlc_validate("ReplTrace", recs, timeout=2400)
    rep.add_tlc(tres)
    rep.cov["traces_validated_against_impl"] += len(recs)
    rep.cov["evaluations"] += sum(len(r["lines"]) for r in recs)
    for s, r in zip(sessions, recs):
        v = verdicts[s["id"]]
        if not r["complete"]:
            rep.disagree("repl session incomplete rc=%s" % s["rc"], {"text": s["text"], "stderr": s["err"][-400:]})
            continue
        if v["v"] == "bad":
            l = s["obs_lines"][v["at"] - 1]
            kind = s["lines"][v["at"] - 1][0]
            prev_rejected = v["at"] > 1 and s["obs_lines"][v["at"] - 2]["class"] in ("parse", "compile")
            sig = "repl %s: expected=%s got=%s%s" % (v["why"], v["want"], l["class"], " (after a rejected line)" if prev_rejected else "")
            if v["why"] == "output":
                sig = "repl output of a line differs from the script's (%s)" % ("nothing shown" if not l.get("echo", "").strip() else "other text")
            rep.disagree(sig, {"session": s["text"], "line_index": v["at"], "stdout": s["out"][-600:], "stderr": s["err"][-600:]})
    rep.cov["distinct_nontrivial"] = len({s["text"] for s in sessions if len(s["lines"]) > 2})
    rep.cov["rule"] = ("random sessions of 1-12 lines from 11 line kinds (unparsable, compiler-rejected with and without redefinition of an "
                       "existing name, compiler-rejected after definitions in a nested block / if / loop / function body / anonymous "
                       "function, failing at run time after a side effect, reads from nested scopes, let / redefinition, function definition, assignment, "
                       "loop, observation, bare values incl. falsey ones, same-body functions of different arity and calls of them), with blank and continued lines; every accepted line's output compared with the same line at the end of a script; distinct = distinct session texts; non-trivial = more "
                       "than one line after the OBS declaration")
    rep.cov["exhaustive"] = False
    rep.sample({"session": sessions[0]["text"], "observed": [(l["class"], l["obs"].get("v") and len(l["obs"]["v"])) for l in sessions[0]["obs_lines"]]})


def render_ln(stmts):
    """statements with the line numbers RefSem expects (a REPL line is one line)"""
    import copy
    out = copy.deepcopy(stmts)

    def setln(ss):
        for s in ss:
            s["ln"] = 1
            for key in ("b", "body"):
                if isinstance(s.get(key), list):
                    setln(s[key])
            walk(s)

    def walk(node):
        if isinstance(node, dict):
            for k, v in node.items():
                if k in ("th", "b", "body") and isinstance(v, list):
                    setln(v)
                else:
                    walk(v)
        elif isinstance(node, list):
            for x in node:
                walk(x)
    setln(out)
    return out


def replay(rep, path):
    print(json.dumps(json.load(open(path)), indent=1)[:6000])
