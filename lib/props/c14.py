"""C14 - bytecode operands are encoded losslessly or the program is rejected.

(a) spec level: TLC model-checks Decode(Encode(i)) = i for every opcode and operand value
    of the design's widths (MC_Bytecode).  Conformance: the harness pushes every opcode x
    every operand value through the real make / read_operands; per-opcode totals and a
    stratified sample of the encodings are validated by TLC (CodecTrace.tla) against
    Bytecode.Encode / Decode with the width table measured from the real encoder.
(b) the VM fetches what the encoder wrote: instruction-level traces (hook H2) of random
    programs and loop nests are validated by VMTrace.tla (ip always where the previous
    instruction, decoded with the encoder's widths, leads; opcode byte = traced opcode).
(c) limits: programs just below / at / above each operand limit must run correctly or be
    rejected with a compile error (CodecTrace.tla, kind "limit")."""
import json
import random

from .. import core, tlcrun, vmtrace
from ..proggen import random_program
from .c05 import loop_nests
from ..past import render

PROP = "C14"


def limit_scenarios(tier):
    """(tag, opname, operand index k (1-based), needed operand value, source, want, allowed)"""
    out = []

    # locals: a function with n lets; the last let has index n-1 (DefineLocal operand)
    for n in (254, 255, 256, 257, 300):
        body = " ".join("let v%d = %d;" % (i, i % 7) for i in range(n))
        src = "let OBS = [];\nfn f() { %s 1000 + v%d + v0 }\npush(OBS, f());\n" % (body, n - 1)
        out.append(("locals=%d" % n, "DefineLocal", 1, n - 1, src, 1000 + ((n - 1) % 7), ["ok"]))
    # call arguments: Call operand = n
    for n in (254, 255, 256, 257):
        ps = ",".join("p%d" % i for i in range(n))
        args = ",".join(str(i % 5) for i in range(n))
        src = "let OBS = [];\nfn f(%s) { p0 + p%d }\npush(OBS, f(%s));\n" % (ps, n - 1, args)
        # a call with more than ~4000 arguments would also exceed the VM stack; not reached here
        out.append(("call-args=%d" % n, "Call", 1, n, src, (n - 1) % 5, ["ok"]))
    # captured variables: Closure second operand = number of free variables
    for n in (254, 255, 256):
        # the enclosing function needs n locals (+1 for the inner function): keep its locals within the limit
        lets = " ".join("let v%d = %d;" % (i, i % 3) for i in range(n))
        uses = " + ".join("v%d" % i for i in range(n))
        src = "let OBS = [];\nfn o() { %s let i = fn() { %s }; i() }\npush(OBS, o());\n" % (lets, uses)
        want = sum(i % 3 for i in range(n))
        # n captured variables need n + 1 locals in the enclosing function: the binding rule is whichever
        # operand overflows first -> the DefineLocal of `i` has index n
        if n + 1 > 256:
            out.append(("captured=%d" % n, "DefineLocal", 1, n, src, want, ["ok"]))
        else:
            out.append(("captured=%d" % n, "Closure", 2, n, src, want, ["ok"]))
    # constant pool: k functions of 1000 integer literals each (+ k function constants + tail)
    for total in ([65535, 65536, 65537] if tier == "thorough" else [65536, 65537]):
        # constants: each literal 1; each function 1; the final call result literal 0
        k = 64
        per = (total - k) // k
        rest = total - k - per * k
        fns = []
        for i in range(k):
            cnt = per + (rest if i == k - 1 else 0)
            fns.append("fn f%d() { %s }" % (i, " ".join("%d;" % (j % 10) for j in range(cnt))))
        src = "let OBS = [];\n" + "\n".join(fns) + "\npush(OBS, f0());\n"
        # the last constant added is function f63 itself (index total-1): Closure operand 1
        out.append(("constants=%d" % total, "Closure", 1, total - 1, src, (per - 1) % 10, ["ok"]))
    if tier == "thorough":
        # array elements: Array operand = n (more than STACK_SIZE elements cannot run: runtime error allowed)
        for n in (65535, 65536):
            src = "let OBS = [];\nfn f() { [%s] }\npush(OBS, len(f()));\n" % ",".join("0" for _ in range(n))
            out.append(("array-elements=%d" % n, "Array", 1, n, src, n, ["ok", "rterror"]))
    # jump distance: forward jumps (patched after their target is known) over a branch of just under / over 65535 bytes
    sizes = (16300, 16500) if tier == "quick" else (16300, 16370, 16395, 16500, 22000)
    for nst in sizes:
        body = " ".join("%d;" % (j % 10) for j in range(nst))
        needed = 3 + nst * 4 + 3 + 3
        src = "let OBS = [];\nfn f(c) { if c { %s 1 } else { 2 } }\npush(OBS, f(false));\n" % body
        out.append(("jump-distance-if~%d" % needed, "Jump", 1, needed, src, 2, ["ok"]))
        src = "let OBS = [];\nfn f(c) { while c { %s } 7 }\npush(OBS, f(false));\n" % body
        out.append(("jump-distance-while-exit~%d" % needed, "Jump", 1, needed, src, 7, ["ok"]))
        if tier == "thorough":
            src = "let OBS = [];\nfn f(c) { match c { true => { %s 1 }, _ => 3 } }\npush(OBS, f(false));\n" % body
            out.append(("jump-distance-match-arm~%d" % needed, "Jump", 1, needed, src, 3, ["ok"]))
    # every kind of jump behind a long stretch of straight-line code: with the stretch just short enough all targets fit
    # and the function runs; a little longer and every target inside the construct is out of reach - a compile error,
    # whichever emitter wrote the jump (if / else, while, loop + break, continue, labelled break, match, && and ||)
    far = {
        "loop-break": ("let n = 0; loop { n = n + 1; if n > 2 { break; } } n", 3),
        "while-continue": ("let n = 0; let k = 0; while n < 4 { n = n + 1; if n % 2 == 0 { continue; } k = k + 1; } k", 2),
        "labelled-break": ("let n = 0; outer: loop { loop { n = n + 1; if n > 1 { break outer; } } } n", 2),
        "labelled-continue": ("let n = 0; let k = 0; outer: while n < 3 { n = n + 1; loop { k = k + 1; continue outer; } } k", 3),
        "if-else": ("if c { 1 } else { 2 }", 2),
        "match": ("match c { true => 1, _ => 3 }", 3),
        "and-or": ("(c && 1) || 5", 5),
        "while": ("let n = 0; while n < 2 { n = n + 1; } n", 2),
    }
    for nst in (16000, 16400):
        prefix = " ".join("%d;" % (j % 10) for j in range(nst))
        for name, (construct, want) in far.items():
            if tier == "quick" and nst == 16000 and name not in ("loop-break", "labelled-continue", "match", "and-or"):
                continue
            src = "let OBS = [];\nfn f(c) { %s %s }\npush(OBS, f(false));\n" % (prefix, construct)
            out.append(("jump-far-%s~%d" % (name, nst * 4 + 20), "Jump", 1, nst * 4 + 20, src, want, ["ok"]))
    # the long stretch inside the loop: the loop starts within reach, only the way out of it does not
    for nst in (16000, 16400):
        body = " ".join("%d;" % (j % 10) for j in range(nst))
        inside = {
            "loop-body-break": ("let n = 0; loop { n = n + 1; %s break; } n" % body, 1),
            "loop-body-labelled-break": ("let n = 0; outer: loop { loop { n = n + 1; %s break outer; } } n" % body, 1),
            "loop-body-break-first": ("let n = 0; loop { n = n + 1; if n > 1 { break; } %s } n" % body, 2),
        }
        for name, (construct, want) in inside.items():
            src = "let OBS = [];\nfn f(c) { %s }\npush(OBS, f(false));\n" % construct
            out.append(("jump-out-of-%s~%d" % (name, nst * 4 + 20), "Jump", 1, nst * 4 + 20, src, want, ["ok"]))
    # a closure that is called where it is written (no local to hold it): n captured variables need only n locals
    for n in (255, 256):
        lets = " ".join("let v%d = %d;" % (i, i % 3) for i in range(n))
        uses = " + ".join("v%d" % i for i in range(n))
        src = "let OBS = [];\nfn o() { %s fn() { %s }() }\npush(OBS, o());\n" % (lets, uses)
        out.append(("captured-direct=%d" % n, "Closure", 2, n, src, sum(i % 3 for i in range(n)), ["ok"]))
    # global variables: OBS is number 0, g1 .. g<n-1> follow; the last one needs index n-1
    for n in ((65536, 65537) if tier == "quick" else (65535, 65536, 65537, 65600)):
        body = "".join("let g%d = %d;\n" % (i, i % 9) for i in range(1, n))
        src = "let OBS = [];\n" + body + "g%d = g%d + 1;\npush(OBS, g%d);\n" % (n - 1, n - 1, n - 1)
        out.append(("globals=%d" % n, "DefineGlobal", 1, n - 1, src, (n - 1) % 9 + 1, ["ok"]))
    return out


def repl_limits():
    """the same limits reached from the REPL (its lines are compiled through another entry point): records of the
    `limit` kind for CodecTrace"""
    import os
    import re
    import subprocess
    core.build_binary()
    recs = []
    sessions = []
    for n in (256, 257):
        body = " ".join("let v%d = %d;" % (i, i % 7) for i in range(n))
        sessions.append(("repl-locals=%d" % n, "DefineLocal", 1, n - 1, "fn f() { %s v%d + v0 }" % (body, n - 1), (n - 1) % 7))
    for n in (255, 256):
        ps = ",".join("p%d" % i for i in range(n))
        args = ",".join(str(i % 5) for i in range(n))
        sessions.append(("repl-call-args=%d" % n, "Call", 1, n, "fn f(%s) { p0 + p%d }\nlet r = f(%s)" % (ps, n - 1, args), (n - 1) % 5))
    for tag, op, k, needed, text, want in sessions:
        # call-args: the definition is fine, the call is the line that holds the big operand
        lines = text.split("\n")
        probe = 'puts("R=", f())' if "locals" in tag else 'puts("R=", r)'
        script = "\n".join(lines) + "\n" + probe + "\n"
        e = dict(os.environ)
        e["P2SH_VERIF_REPL"] = "1"
        try:
            p = subprocess.run([core.P2SH], input=script.encode(), stdout=subprocess.PIPE, stderr=subprocess.PIPE, timeout=300, env=e)
            out, err, rc = p.stdout.decode("utf8", "replace"), p.stderr.decode("utf8", "replace"), p.returncode
        except subprocess.TimeoutExpired:
            out, err, rc = "", "timeout", None
        m = re.search(r"R=(-?\d+)", out)
        if rc != 0:
            how = "panic" if rc == 101 else "rc=%s" % rc
        elif "compile error" in err:
            how = "compile"
        elif "Runtime error" in err:
            how = "rterror"
        else:
            how = "ok"
        recs.append({"id": "lim-" + tag, "kind": "limit", "opname": op, "opn": vmtrace.opc()[op], "k": k, "needed": needed, "how": how,
                     "result": int(m.group(1)) if m else -1, "want": want, "allowed": ["ok"], "msg": err[-200:]})
    return recs


def run(rep, tier, seed):
    core.build_harness()
    # (a) spec-level theorem
    mc = tlcrun.require_ok(tlcrun.run_tlc("MC_Bytecode", workers=core.TLC_WORKERS, timeout=600), "MC_Bytecode")
    rep.add_tlc(mc)
    # the same law for EVERY operand value and every operand layout, symbolically (Apalache, spec/BytecodeInd.tla)
    core.apalache_invariant("BytecodeInd")
    rep.notes["codec_law_all_values"] = "RoundTrip / NoAliasInRange / TruncationOutside established by Apalache for all operand values"
    widths, probe = vmtrace.real_widths()
    sweep = core.run_cases([{"id": "sweep", "kind": "codec_sweep", "widths": widths,
                             "sample_stride": 997 if tier == "quick" else 101}], deadline_ms=600000)["sweep"]
    if sweep.get("how") != "ok":
        raise core.ToolError("codec sweep failed: %r" % {k: sweep.get(k) for k in ("how", "msg")})
    recs = [{"id": "widths", "kind": "widths", "widths": widths}]
    total = 0
    for p in sweep["per_op"]:
        recs.append({"id": "sweep-%d" % p["op"], "kind": "sweep", "op": p["op"], "tuples": p["tuples"], "ok": p["ok"]})
        total += p["tuples"]
    for n, s in enumerate(sweep["sample"]):
        recs.append({"id": "codec-%d" % n, "kind": "codec", "op": s["op"], "operands": s["operands"], "enc": s["enc"],
                     "dec": s["dec"], "read": s["read"]})
    rep.notes["codec_tuples_swept_through_real_encoder"] = total
    # (c) limits
    scen = limit_scenarios(tier)
    cases = [{"id": "lim-" + t, "src": src, "fuel": 50000000} for t, op, k, needed, src, want, allowed in scen]
    res = core.run_cases(cases, deadline_ms=900000, shards=min(len(cases), 8))
    for t, op, k, needed, src, want, allowed in scen:
        r = res["lim-" + t]
        result = -1
        o = r.get("obs")
        if r.get("how") == "ok" and o and o.get("k") == "arr" and len(o["v"]) == 1 and o["v"][0]["k"] == "int":
            v = o["v"][0]["v"]
            if all(b == 0 for b in v[4:]):
                result = v[0] + 256 * v[1] + 65536 * v[2] + 16777216 * v[3]
        recs.append({"id": "lim-" + t, "kind": "limit", "opname": op, "opn": vmtrace.opc()[op], "k": k, "needed": needed, "how": r.get("how"),
                     "result": result, "want": want, "allowed": allowed, "msg": r.get("msg") or ""})
    rl = repl_limits()
    recs += rl
    verdicts, tres = core.tlc_validate("CodecTrace", recs, workers=2)
    rep.add_tlc(tres)
    rep.cov["traces_validated_against_impl"] += len(recs)
    rep.cov["evaluations"] += total + len(scen) + len(rl)
    byid = {r["id"]: r for r in recs}
    for rid, v in verdicts.items():
        if v.get("drift"):
            rep.notes["model_drift"] = "the real encoder's width table differs from the design's (SpecWidths)"
        if v["v"] == "bad":
            r = byid[rid]
            if r["kind"] == "limit":
                sig = "limit %s needed=%d how=%s" % (rid[4:].split("=")[0], r["needed"], r["how"])
                rep.disagree(sig, {k: r[k] for k in ("opname", "k", "needed", "how", "result", "want", "msg")})
            elif r["kind"] == "sweep":
                bad = [p for p in sweep["per_op"] if p["op"] == r["op"]][0]
                rep.disagree("codec op=%d round-trip" % r["op"], bad)
            else:
                rep.disagree("codec %s op=%s" % (r["kind"], r.get("op")), r)
    # (b) the VM reads what the encoder wrote
    rnd = random.Random(seed)
    items = [{"id": "r%d" % i, "prog": random_program(rnd, depth=3, probes=False), "tag": "random"}
             for i in range(200 if tier == "quick" else 3000)]
    n = 0
    for tag, prog in loop_nests(2):
        if n % (6 if tier == "quick" else 1) == 0:
            items.append({"id": "l%d" % n, "prog": prog, "tag": "loop-nest"})
        n += 1
    trecs = vmtrace.record(items, widths, mode=1)
    tverd, vres = core.tlc_validate("VMTrace", trecs, timeout=1500)
    rep.add_tlc(vres)
    rep.cov["traces_validated_against_impl"] += len(trecs)
    rep.cov["evaluations"] += len(items)
    events = 0
    ops_seen = set()
    for it in items:
        v = tverd.get(it["id"])
        if not v:
            continue
        events += v["n"]
        for e in it["raw"]["trace"]:
            ops_seen.add(e[3])
        if v["ipok"] != "ok":
            raw = it["raw"]
            ev = raw["trace"][v["ipat"] - 1] if 0 < v["ipat"] <= len(raw["trace"]) else None
            rep.disagree("vm-fetch %s op-before=%s" % (v["ipok"], raw["trace"][v["ipat"] - 2][3] if v["ipat"] > 1 else None),
                         {"src": it["src"], "event": ev, "prev": raw["trace"][v["ipat"] - 2] if v["ipat"] > 1 else None})
    # the same executions in lock step with the machine specification: every operand-bearing instruction must have
    # the effect its encoded operand prescribes (constant / slot / jump target / element count actually used)
    from .. import vmrun
    mrecs = vmrun.from_raw([it for it in items if "raw" in it], widths, with_prog=False)
    mverd, mres = vmrun.validate(mrecs)
    rep.add_tlc(mres)
    rep.cov["traces_validated_against_impl"] += len(mrecs)
    mcounts = {}
    for it in items:
        v = mverd.get(it["id"])
        if not v:
            continue
        mcounts[v["v"]] = mcounts.get(v["v"], 0) + 1
        if v["v"] == "diverged" and v["why"] in ("ip", "opcode", "function of the current frame", "top of stack"):
            rep.disagree("vm-operand %s" % vmrun.describe(v, it["raw"]),
                         {"src": it["src"], "verdict": v, "events": it["raw"]["trace"][max(0, v["at"] - 3):v["at"]]})
        elif v["v"] == "invariant" and v["why"].startswith("FetchAligned"):
            rep.disagree("vm-fetch-aligned %s" % vmrun.describe(v, it["raw"]), {"src": it["src"], "verdict": v})
    rep.notes["machine_level_verdicts"] = mcounts
    rep.notes["vm_trace_events"] = events
    rep.notes["distinct_opcodes_executed_in_traces"] = len(ops_seen)
    rep.cov["distinct_nontrivial"] = len(sweep["sample"]) + len(scen) + len(trecs)
    rep.cov["rule"] = ("codec: every opcode x every operand tuple of its widths through the real make/read_operands "
                       "(counted in codec_tuples_swept_through_real_encoder), per-opcode totals and a stratified sample "
                       "validated by TLC; limits: programs at limit-1 / limit / limit+1 for locals, call arguments, "
                       "captured variables, constant pool, forward-jump distance (thorough: array elements), locals / call arguments "
                       "also from REPL lines; VM fetch: "
                       "instruction traces of random programs and loop nests; distinct = sample encodings + scenarios + traces")
    rep.cov["exhaustive"] = False
    rep.sample({"codec": sweep["sample"][1], "limit": {k: recs[-1][k] for k in ("id", "needed", "how")} if scen else None})
    rep.assumptions += ["global-index and REPL-accumulated constant limits are not instantiated (compile time of 65 536 "
                        "top-level definitions is quadratic); they go through the same emit check as the instantiated ones"]


def replay(rep, path):
    print(json.dumps(json.load(open(path)), indent=1)[:6000])
