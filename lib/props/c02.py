"""C02 - compiled programs behave as the reference semantics prescribe.

I->S: seeded random well-formed programs (lib/proggen.py) run through the real scanner,
parser, compiler and VM; each execution (observation sequence incl. probe order, final
value, failure or not) is validated by TLC against RefSem (spec/Conform.tla).
Ill-formed variants (undefined name, misplaced break / continue / return, unknown label,
return in a filter action, mixed-type match arms) must be rejected by the compiler.
S->I: a bounded-exhaustive family of small programs enumerated by TLC (spec/GenProg.tla)."""
import copy
import json
import random

from .. import core, progs
from ..past import (OBS_DECL, obs, lit, vint, vbool, vstr, vchar, bin_, un, let, ident, call, expr, I, if_, while_, brk,
                    cont, ret, block, filt, match, arm, plit, fndef)
from ..proggen import random_program

PROP = "C02"


def ill_formed(rnd, prog):
    """returns (fault tag, program)"""
    prog = copy.deepcopy(prog)
    pos = rnd.randint(2, len(prog))
    kind = rnd.choice(["undef", "undef-after-block", "break", "continue", "label", "return", "return-filter",
                       "matchtypes", "undef-in-fn", "return-in-block", "return-filter-in-fn",
                       "return-filter-in-closure", "lvalue"])
    if kind == "undef":
        ins = [obs(bin_("+", ident("nosuchname"), I(1)))]
    elif kind == "undef-after-block":
        ins = [block([let("qq", I(1)), obs(ident("qq"))]), obs(ident("qq"))]
    elif kind == "undef-in-fn":
        ins = [fndef("ff9", ["a"], [expr(bin_("+", ident("a"), ident("later9")))]), let("later9", I(1))]
    elif kind == "lvalue":
        # nowhere to store: a literal, a call, a container literal, a predefined name
        from ..past import asg, arr, call
        tg = rnd.choice([lit({"k": "null"}), call("len", arr()), arr(I(1)), ident("stdout"), ident("len"), I(3)])
        ins = [expr(if_(lit(vbool(False)), [expr(asg(tg, I(1)))]))]
    elif kind == "break":
        ins = [expr(if_(lit(vbool(False)), [brk()]))]
    elif kind == "continue":
        ins = [fndef("ff8", [], [cont()])]
    elif kind == "label":
        ins = [while_(lit(vbool(False)), [brk("NOPE")], lb="LL")]
    elif kind == "return":
        ins = [ret(I(1))]
    elif kind == "return-in-block":
        ins = [block([expr(if_(lit(vbool(False)), [ret()]))])]
    elif kind == "return-filter":
        ins = [filt(lit(vbool(True)), [ret(I(1))])]
    elif kind == "return-filter-in-fn":
        # a filter action is not a function body, wherever the filter statement is written
        ins = [fndef("ff7", ["a"], [filt(lit(vbool(True)), [ret(I(1))]), expr(I(0))])]
    elif kind == "return-filter-in-closure":
        ins = [let("ff6", {"t": "fn", "n": "", "ps": [], "body": [filt(lit(vbool(True)), [expr(if_(lit(vbool(False)), [ret()]))]), expr(I(0))]})]
    else:
        ins = [obs(match(I(1), [arm([plit(vint(1))], [expr(I(1))]), arm([plit(vchar("a"))], [expr(I(2))])]))]
    return kind, prog[:pos] + ins + prog[pos:]


def fn_in_block(items, inblock=False):
    """a function written inside a block / if body (its closure captures block-level bindings)"""
    for kind, ch in items:
        if kind == "F" and inblock:
            return True
        if kind in ("B", "I") and fn_in_block(ch, True):
            return True
    return False


def alias_matrix():
    """containers are shared by reference and operators build fresh ones: every way of obtaining an array / a map from
    existing ones x every way of changing the result, then all originals are observed"""
    from ..past import arr, map_, idx, asg
    out = []
    contents = {"empty": [], "one": [I(1)], "three": [I(3), I(1), I(2)]}
    producers = {
        "same": lambda: ident("a"),
        "a+empty": lambda: bin_("+", ident("a"), arr()),
        "empty+a": lambda: bin_("+", arr(), ident("a")),
        "a+b": lambda: bin_("+", ident("a"), ident("b")),
        "b+a": lambda: bin_("+", ident("b"), ident("a")),
        "a+a": lambda: bin_("+", ident("a"), ident("a")),
        "rest": lambda: call("rest", ident("a")),
        "through-array": lambda: idx(arr(ident("a")), I(0)),
        "through-map": lambda: idx(map_((I(1), ident("a"))), I(1)),
        "through-call": lambda: call("id", ident("a")),
        "through-if": lambda: if_(lit(vbool(True)), [expr(ident("a"))], [expr(ident("b"))]),
    }
    mutators = {
        "push": lambda: [expr(call("push", ident("c"), I(9)))],
        "set-index": lambda: [expr(asg(idx(ident("c"), I(0)), I(9)))],
        "sort": lambda: [expr(call("sort", ident("c")))],
        "pop": lambda: [expr(call("pop", ident("c")))],
        "push-twice": lambda: [expr(call("push", ident("c"), I(8))), expr(call("push", ident("c"), I(7)))],
    }
    for cn, ca in contents.items():
        for cbn, cb in (("empty", []), ("two", [I(5), I(4)])):
            for pn, mk in producers.items():
                for mn, mut in mutators.items():
                    prog = [OBS_DECL, fndef("id", ["x"], [expr(ident("x"))]), let("a", arr(*ca)), let("b", arr(*cb)),
                            let("c", mk())] + mut() + [obs(ident("a")), obs(ident("b")), obs(ident("c")),
                                                       obs(bin_("==", ident("a"), ident("c")))]
                    out.append(("alias array a=%s b=%s via=%s then=%s" % (cn, cbn, pn, mn), prog))
    # maps: shared by reference through variables, containers and calls
    for pn, mk in (("same", lambda: ident("m")), ("through-array", lambda: idx(arr(ident("m")), I(0))),
                   ("through-call", lambda: call("id", ident("m")))):
        for mn, mut in (("insert", lambda: [expr(call("insert", ident("c"), I(2), I(20)))]),
                        ("set-index", lambda: [expr(asg(idx(ident("c"), I(1)), I(11)))])):
            prog = [OBS_DECL, fndef("id", ["x"], [expr(ident("x"))]), let("m", map_((I(1), I(10)))), let("c", mk())] + mut() + \
                   [obs(call("len", ident("m"))), obs(call("get", ident("m"), I(1))), obs(call("get", ident("m"), I(2))),
                    obs(call("len", ident("c")))]
            out.append(("alias map via=%s then=%s" % (pn, mn), prog))
    return out


def structured_sample(tier):
    """a strided sample of the deterministic families the neighbouring properties enumerate (scope skeletons as
    function bodies, loop nests, control transfers in operand positions): whole-program behaviour is this
    property's business whatever construct carries it; skeletons with a function inside a block are all taken"""
    from . import c04, c05, c07
    out = []
    stride = 9 if tier == "quick" else 2
    k = 0
    seen = set()
    for sk in c04.skeletons(4, 2, False, False):
        key = repr(sk)
        if key in seen or not any(kd in ("U", "A", "F") for kd, _ in c04.flatten(sk)):
            continue
        seen.add(key)
        k += 1
        if k % stride and not fn_in_block(sk):
            continue
        en = c04.Enum()
        inner = c04.build(sk, en, 1, True)
        out.append(("skeleton-in-function", [OBS_DECL, fndef("w", [], inner + [expr(I(0))]), obs(call("w"))]))
    for n, (tag, prog) in enumerate(c05.loop_nests(2)):
        if n % stride == 0:
            out.append(("loop-nest", prog))
    for n, (tag, prog) in enumerate(c07.ctrl_programs()):
        if "ctrl=return" in tag and n % 2 == 0:
            out.append(("control-transfer-in-operand", prog))
    for n, (tag, prog) in enumerate(alias_matrix()):
        if tier != "quick" or n % 2 == 0 or "empty" in tag:
            out.append(("alias-matrix", prog))
    for n, (tag, prog) in enumerate(c05.value_positions()):
        if n % (3 if tier == "quick" else 1) == 0:
            out.append(("value-position", prog))
    # keys that are equal as values (1 and 1.0, 0.0 and -0.0, arrays of such) address one entry
    from ..past import vfloat, arr, map_, idx, asg
    pairs = [(I(1), lit(vfloat(1.0))), (lit(vfloat(2.0)), I(2)), (I(0), lit(vfloat("nzero"))), (lit(vfloat(0.0)), lit(vfloat("nzero"))),
             (arr(I(1), I(2)), arr(lit(vfloat(1.0)), I(2))), (arr(arr(I(0))), arr(arr(lit(vfloat(0.0))))), (I(7), I(7)), (I(1), I(2))]
    for k1, k2 in pairs:
        for how in ("literal", "index", "insert"):
            if how == "literal":
                mk = [let("m", map_((k1, I(10))))]
            elif how == "index":
                mk = [let("m", map_()), expr(asg(idx(ident("m"), k1), I(10)))]
            else:
                mk = [let("m", map_()), obs(call("insert", ident("m"), k1, I(10)))]
            out.append(("map-equal-keys", [OBS_DECL] + mk + [obs(call("contains", ident("m"), k2)), obs(call("get", ident("m"), k2)),
                                                               obs(call("insert", ident("m"), k2, I(20))), obs(call("len", ident("m"))),
                                                               obs(idx(ident("m"), k1))]))
    return out


def run(rep, tier, seed):
    core.build_harness()
    rnd = random.Random(seed)
    n = 2500 if tier == "quick" else 40000
    items = []
    for i, (tag, prog) in enumerate(structured_sample(tier)):
        items.append({"id": "s%d" % i, "prog": prog, "tag": tag})
    for i in range(n):
        prog = random_program(rnd, depth=rnd.choice([1, 2, 2, 3]))
        items.append({"id": "p%d" % i, "prog": prog, "tag": "random"})
        if i % 5 == 0:
            kind, bad_prog = ill_formed(rnd, prog)
            items.append({"id": "x%d" % i, "prog": bad_prog, "tag": "illformed:" + kind})
    bad, verdicts = progs.run_and_validate(rep, items, chk=("final",))
    hows = {}
    for it in items:
        h = verdicts[it["id"]]["how"]
        hows[h] = hows.get(h, 0) + 1
    rep.notes["expected_outcome_classes"] = hows
    rep.cov["distinct_nontrivial"] = len({it["src"] for it in items})
    rep.cov["rule"] = ("seeded random programs (3-8 top-level statements, expression depth <= 3, function nesting <= 2, "
                       "loop bounds <= 4, recursion depth <= 5) over literals incl. integer boundaries, operators, let / "
                       "assignment, arrays, maps, indexing, functions, closures, recursion, match, labelled loops, with "
                       "probe calls making evaluation order observable, plus a strided sample of the scope-skeleton, loop-nest "
                       "and control-transfer families of C04 / C05 / C07; every 5th program also in an ill-formed "
                       "variant; distinct = distinct source texts")
    rep.cov["exhaustive"] = False
    for it in items[:2]:
        rep.sample({"src": it["src"], "out": it["out"]})
    machine_level(rep, items, tier)
    for it, out, v in bad:
        delta = progs.outcome_delta(v["exp"], out)
        if it["tag"].startswith("illformed") or it["tag"] in ("skeleton-in-function", "loop-nest", "control-transfer-in-operand", "alias-matrix", "value-position", "map-equal-keys"):
            sig = "%s %s" % (it["tag"], delta)
        else:
            sig = "random-program %s" % delta
        rep.disagree(sig, {"src": it["src"], "expected": v["exp"], "got": it["raw"]})


def machine_level(rep, items, tier):
    """a part of the programs again, now instruction by instruction: the real VM in lock step with the machine
    specification (spec/VM.tla) on the code the real compiler emitted, and the machine's outcome on that code against
    RefSem on the source (spec/VMRun.tla): the compiler is validated program by program inside TLC"""
    from .. import vmrun, vmtrace
    widths, _ = vmtrace.real_widths()
    nr, ns = (250, 100) if tier == "quick" else (3000, 1000)
    pick = [it for it in items if it["tag"] == "random"][:nr] + \
           [it for it in items if it["tag"] in ("skeleton-in-function", "loop-nest", "control-transfer-in-operand")][::7][:ns]
    sub = [{"id": it["id"], "prog": it["prog"], "tag": it["tag"]} for it in pick]
    recs = vmrun.record(sub, widths, with_prog=True, max_events=2000)
    verdicts, res = vmrun.validate(recs)
    rep.add_tlc(res)
    rep.cov["traces_validated_against_impl"] += len(recs)
    counts = {}
    for it in sub:
        v = verdicts.get(it["id"])
        if not v:
            continue
        counts[v["v"]] = counts.get(v["v"], 0) + 1
        if v["v"] in ("diverged", "end", "refsem", "invariant"):
            rep.disagree("machine-level %s %s" % (it["tag"], vmrun.describe(v, it["raw"])),
                         {"src": it["src"], "verdict": v, "events": it["raw"]["trace"][max(0, v["at"] - 3):v["at"]]})
    rep.notes["machine_level_verdicts"] = counts
    rep.notes["machine_level_states"] = res.get("states", 0)


def replay(rep, path):
    print(json.dumps(json.load(open(path)), indent=1)[:6000])
