"""C01 - scanning, parsing and compiling are total on every source text.

In-process (catch_unwind, watchdog): every string over a 52-character class alphabet up to
length 3 (thorough 4), every token string over a 58-token alphabet up to length 2 (3),
random token soup, grammar-derived texts (rendered random programs) with random deletions /
insertions / duplications of tokens and characters, bracket nests up to depth 64.  Outcome
classes: compiled | parse diagnostics | compile diagnostics; a panic, abort or hang is a
violation.  End to end through the real binary (spec/PipelineTrace.tla, observations of
spec/Pipeline.tla): a text for which diagnostics were printed is not executed."""
import itertools
import json
import random
import re

from .. import core, e2e, progs
from ..past import render
from ..proggen import random_program

PROP = "C01"

CHARS = ["a", "b", "e", "x", "o", "_", "0", "1", "9", "f", ".", '"', "'", "#", "/", "\n", " ", ";", ",", ":", "(", ")",
         "{", "}", "[", "]", "+", "-", "*", "%", "^", "~", "$", "@", "!", "&", "|", "=", "<", ">", "é", "ß", "٣", "😀",
         "\0", "\\", "\t", "\r", "?", "E", "B", "X"]
TOKENS = ["let", "fn", "true", "null", "if", "else", "return", "map", "loop", "while", "break", "continue", "match", "_",
          "end", "stdin", "struct", "x", "y", "1", "0x1F", "0o7", "0b1", "1.5", "1e3", '"s"', "'c'", "b'c'", ";", ",", ":",
          "(", ")", "{", "}", "[", "]", "+", "-", "*", "/", "%", "!", "~", "$", "@", "=", "==", "=>", "<", "<=", "<<",
          "&&", "|", "..", "..=", ".", "eth"]


def chunks(it, n):
    buf = []
    for x in it:
        buf.append(x)
        if len(buf) == n:
            yield buf
            buf = []
    if buf:
        yield buf


def mutate(rnd, text):
    toks = re.findall(r"\w+|\s+|[^\w\s]", text)
    for _ in range(rnd.randint(1, 3)):
        if not toks:
            break
        r = rnd.random()
        i = rnd.randrange(len(toks))
        if r < 0.35:
            del toks[i]
        elif r < 0.6:
            toks.insert(i, rnd.choice(TOKENS + CHARS))
        elif r < 0.8:
            toks.insert(i, toks[i])
        elif r < 0.9:
            j = rnd.randrange(len(toks))
            toks[i], toks[j] = toks[j], toks[i]
        else:
            toks = toks[:i]
    return "".join(toks)


def nests(rnd, n):
    out = []
    pairs = [("(", ")"), ("[", "]"), ("{", "}"), ("if true {", "}"), ("fn() {", "}"), ("map {1: ", "}"), ("-(", ")"),
             ("f(", ")"), ("[1, ", "]"), ("match 1 { _ => ", "}")]
    inner = ["1", "x", "", "1 +", "let", 'len("abc")', "g0 + 1", "puts(g0)", "g0 = 2", "fn(a) { a }(g0)"]
    for _ in range(n):
        depth = rnd.choice([1, 2, 8, 32, 63, 64])
        ps = [rnd.choice(pairs) for _ in range(depth)]
        s = "".join(p[0] for p in ps) + rnd.choice(inner) + "".join(p[1] for p in reversed(ps))
        if rnd.random() < 0.3:
            k = rnd.randrange(len(s) + 1)
            s = s[:k] + s[k + rnd.randint(1, 3):]
        out.append("let g0 = 1;\n" + s if rnd.random() < 0.5 else s)
    # one kind of bracket all the way down, around every kind of innermost text (names are resolved through every
    # enclosing scope: the cost of that must stay bounded)
    for op, cl in pairs:
        for depth in (16, 40, 64):
            for text in inner:
                out.append("let g0 = 1;\n" + op * depth + text + cl * depth)
    return out


REP_CHARS = {"SEMI": ";", "PUNCT": ",:(){}[]*%^~$@", "PLUS": "+", "MINUS": "-", "SLASH": "/", "BANG": "!", "AMP": "&", "BAR": "|",
             "EQ": "=", "LT": "<", "GT": ">", "LB": "b", "LX": "xX", "LO": "oO", "LBU": "B", "LE": "eE", "HEXL": "acdfACDF",
             "ALPHA": "gzQ", "UALPHA": "\u00e9\u03bb", "NUL": "\0", "WS": " \t\r", "NL": "\n", "HASH": "#", "DQ": '"', "SQ": "'",
             "DOT": ".", "ZERO": "0", "DIG": "1379", "US": "_", "UNUM": "\u0663\u00b2", "OTHER": "\U0001F600\u20ac"}
KIND_OF = {"Illegal": "Illegal", "Decimal": "Decimal", "Octal": "Octal", "Hexadecimal": "Hex", "Binary": "Binary", "Float": "Float",
           "Char": "Char", "Byte": "Byte", "Str": "Str", "Assign": "Assign", "Plus": "PLUS", "Minus": "MINUS", "Slash": "SLASH",
           "Semicolon": "SEMI", "Bang": "Bang", "LogicalAnd": "AndAnd", "LogicalOr": "OrOr", "Less": "Lt", "LessEqual": "Le",
           "Greater": "Gt", "GreaterEqual": "Ge", "Equal": "EqEq", "BangEqual": "BangEq", "MatchArm": "Arm", "BitwiseAnd": "And",
           "BitwiseOr": "Or", "LeftShift": "Shl", "RightShift": "Shr", "RangeEx": "RangeEx", "RangeInc": "RangeInc", "Dot": "Dot"}
PUNCT_TYPES = {"Asterisk", "Modulo", "BitwiseXor", "BitwiseNot", "Comma", "Colon", "LeftParen", "RightParen", "LeftBrace",
               "RightBrace", "LeftBracket", "RightBracket", "Dollar", "Filter"}


def scan_all(texts, batch=4000, hang_budget=6):
    """token kinds of the real scanner for each text; a text the scanner does not return from (confirmed alone with a
    longer deadline) is ["HANG"]; after hang_budget hangs the remaining texts are not scanned (["SKIPPED"])"""
    import json as _json
    out = [None] * len(texts)
    todo = [(k, min(k + batch, len(texts))) for k in range(0, len(texts), batch)]
    hangs = 0
    rnd_id = 0
    while todo:
        cases = [{"id": "scan%d_%d" % (rnd_id, a), "kind": "scan", "srcs": texts[a:b]} for a, b in todo]
        res = core.run_cases(cases, deadline_ms=3000)
        nxt = []
        for (a, b), c in zip(todo, cases):
            r = res[c["id"]]
            if r.get("how") == "ok":
                out[a:b] = r["toks"]
                continue
            done = [_json.loads(x) for x in r.get("done_outs", [])] if r.get("how") == "timeout" else []
            out[a:a + len(done)] = done
            k = a + len(done)
            if hangs >= hang_budget:
                out[k:b] = [["SKIPPED"]] * (b - k)
                continue
            # the text that was running: alone, with a longer deadline
            one = core.run_cases([{"id": "scan1_%d" % k, "kind": "scan", "srcs": [texts[k]]}], deadline_ms=10000, shards=1, _confirm=False)["scan1_%d" % k]
            if one.get("how") == "ok":
                out[k] = one["toks"][0]
            else:
                out[k] = ["HANG"]
                hangs += 1
            if k + 1 < b:
                nxt.append((k + 1, b))
        todo = nxt
        rnd_id += 1
    return out


def scanner_model(rep, tier):
    """Scanner.tla: TLC checks IndexInBounds, Progress, Bounded and LineOK for every class string up to length 3 (4), and
    (ScanGen) writes the token kinds it prescribes; the real scanner's tokens on a concrete text of each shape are
    compared with them.  Agreement is evidence that the model is the implementation's; a difference is drift."""
    from .. import tlcrun
    cfg = "MC_Scanner" if tier == "quick" else "MC_Scanner4"
    rep.add_tlc(tlcrun.require_ok(tlcrun.run_tlc("Scanner", cfg=cfg, workers=core.TLC_WORKERS, timeout=3000), "Scanner"))
    cases, gres = progs.generate("ScanGen", timeout=1200)
    rep.add_tlc(gres)
    texts = []
    for c in cases:
        t = "".join(REP_CHARS[cl][(c["id"] + i) % len(REP_CHARS[cl])] for i, cl in enumerate(c["s"]))
        texts.append(t)
    real = scan_all(texts)
    drift = []
    for c, t, toks in zip(cases, texts, real):
        kinds = [("PUNCT" if x in PUNCT_TYPES else KIND_OF.get(x, "Word" if not x.startswith("PANIC") and x != "RUNAWAY" else x)) for x in toks]
        want = [k for k in c["toks"] if k != "Eof"]
        if kinds != want:
            drift.append({"classes": c["s"], "text": t, "model": want, "scanner": kinds})
        # the model ends on every text without reading outside it; so must the scanner
        for x in toks:
            if x.startswith("PANIC") or x in ("RUNAWAY", "HANG"):
                what = {"P": "panics", "R": "does not stop producing tokens", "H": "does not return"}[x[0]]
                rep.disagree("scanner %s where the model ends: %s" % (what, x.split("|")[0][:60] if x[0] == "P" else " ".join(c["s"][-2:])),
                             {"classes": c["s"], "text": t, "model": want, "scanner": kinds})
                break
    rep.notes["scanner_model_strings"] = len(cases)
    rep.notes["scanner_model_drift"] = len(drift)
    rep.notes["scanner_model_drift_samples"] = drift[:5]
    rep.cov["evaluations"] += len(cases)


def run(rep, tier, seed):
    core.build_harness()
    scanner_model(rep, tier)
    # the stage machine itself: every stage hands over or diagnoses, diagnosed => not executed, it ends
    from .. import tlcrun
    rep.add_tlc(tlcrun.require_ok(tlcrun.run_tlc("Pipeline", workers=2, timeout=300), "Pipeline"))
    rnd = random.Random(seed)
    families = []
    maxlen = 3 if tier == "quick" else 4
    families.append(("chars<=%d" % maxlen, ("".join(t) for n in range(0, maxlen + 1) for t in itertools.product(CHARS, repeat=n))))
    tl = 2 if tier == "quick" else 3
    families.append(("tokens<=%d" % tl, (" ".join(t) for n in range(1, tl + 1) for t in itertools.product(TOKENS, repeat=n))))
    nsoup = 30000 if tier == "quick" else 400000
    families.append(("token-soup", (" ".join(rnd.choice(TOKENS) for _ in range(rnd.randint(3, 12))) for _ in range(nsoup))))
    progs_src = [render(random_program(rnd, depth=2))[0] for _ in range(300 if tier == "quick" else 3000)]
    nmut = 20000 if tier == "quick" else 300000
    families.append(("mutated-programs", (mutate(rnd, rnd.choice(progs_src)) for _ in range(nmut))))
    families.append(("bracket-nests", iter(nests(rnd, 3000 if tier == "quick" else 40000))))
    special = ["'", "b'", "\"", "0x1=2", "0o1=", "0b1=1", "a: 1", "a:", "x: loop", "1e", "1e+", "0x", "0b", "0o", ".", "..", "..=",
               "1..", "'ab", "b'ab", "b'é'", "'é'", "''", "b''", "1.2.3", "@", "@ end", "@ {", "match", "match 1 {", "match 1 { 1 =>",
               "fn", "fn(", "fn f", "let", "let x", "let x =", "if", "if 1", "if 1 {", "map {", "map {1", "map {1:", "x.", "x.y.", "$",
               "$.", "return", "break x y", "continue 1", "loop", "while", "a: while", "a: b: loop {}", "1 = 2", "(1) = 2", "x = = 2",
               "/", "//", "/ /", "#", "\r", "\r\n", "\0", "x\0y", "😀", "é = 1", "_ = 1", "_", "let _ = 1;", "end", "struct", "stdin = 1",
               "9223372036854775808", "0xFFFFFFFFFFFFFFFFF", "1e999", "1.5e-999", "0b102", "0o8", "0xG", "12abc", "1_000"]
    families.append(("special", iter(special)))
    total = 0
    classes = {}
    distinct_fail = {}
    batch = 4000
    budget = {"hangs": 8}          # each hang costs a deadline; with this many found the verdict is settled
    skipped = 0

    def confirm(cid, text):
        """the outcome of one text run on its own with a long deadline (a stall of a busy machine is not a hang)"""
        c = {"id": cid + "!", "kind": "front", "srcs": [text]}
        r = core.run_cases([c], deadline_ms=10000, shards=1, _confirm=False)[c["id"]]
        if r.get("how") == "ok":
            return r["outs"][0]
        budget["hangs"] -= 1
        return "H" + str(r.get("how"))

    def run_batch(cid, part):
        """outcomes of the texts of one batch; a hang inside the batch costs one per-text deadline, the rest of
        the batch is resumed after it"""
        outs = []
        rest = part
        k = 0
        while rest:
            if budget["hangs"] <= 0:
                return outs + ["S"] * len(rest)
            c = {"id": "%s~%d" % (cid, k), "kind": "front", "srcs": rest}
            r = core.run_cases([c], deadline_ms=3000, shards=1)[c["id"]]
            k += 1
            if r.get("how") == "ok":
                return outs + r["outs"]
            if r.get("how") == "timeout" and "done_outs" in r:
                done = r["done_outs"]
                outs += done + [confirm(c["id"], rest[len(done)])]
                rest = rest[len(done) + 1:]
            else:
                # the process died (abort, stack overflow) without saying where: bisect by halves
                if len(rest) == 1:
                    outs.append(confirm(c["id"], rest[0]))
                    rest = []
                else:
                    half = len(rest) // 2
                    outs += run_batch("%s<%d" % (cid, k), rest[:half])
                    rest = rest[half:]
        return outs

    for fam, gen in families:
        cases = []
        keep = []
        for n, part in enumerate(chunks(gen, batch)):
            cases.append({"id": "%s#%d" % (fam, n), "kind": "front", "srcs": part})
            keep.append(part)
        res = core.run_cases(cases, deadline_ms=3000, shards=min(core.NCPU, max(1, len(cases))))
        for c, part in zip(cases, keep):
            r = res[c["id"]]
            if r.get("how") == "ok":
                outs = r["outs"]
            elif r.get("how") == "timeout" and "done_outs" in r:
                done = r["done_outs"]
                outs = done + [confirm(c["id"], part[len(done)])] + run_batch(c["id"], part[len(done) + 1:])
            else:
                outs = run_batch(c["id"], part)
            for s, o in zip(part, outs):
                k = o[0]
                if k == "S":
                    skipped += 1
                    continue
                total += 1
                classes[k] = classes.get(k, 0) + 1
                if k in ("P", "H"):
                    loc = o.split("|")[1] if "|" in o else o
                    sig = "front-end %s %s" % ("panic" if k == "P" else "hang/abort", loc)
                    if sig not in distinct_fail or len(s) < len(distinct_fail[sig]):
                        distinct_fail[sig] = s
    rep.notes["texts_skipped_after_hang_budget"] = skipped
    for sig, s in distinct_fail.items():
        rep.disagree(sig, {"shortest_witness": s, "witness_repr": repr(s)})
    rep.cov["evaluations"] += total
    rep.notes["outcome_classes"] = {"compiled": classes.get("o", 0), "parse_diagnosed": classes.get("p", 0),
                                    "compile_diagnosed": classes.get("c", 0), "panic": classes.get("P", 0), "hang": classes.get("H", 0)}
    n_e2e = end_to_end(rep, rnd, tier, progs_src, special)
    rep.cov["distinct_nontrivial"] = total
    rep.cov["rule"] = ("all strings over a 52-character class alphabet to length %d, all token strings over 58 tokens to "
                       "length %d, random token soup, rendered random programs with 1-3 random token / character "
                       "mutations, bracket nests to depth 64, hand-picked corner texts; every text is distinct by "
                       "enumeration (random families may repeat); a text is non-trivial if it is non-empty" % (maxlen, tl))
    rep.cov["exhaustive"] = False
    rep.sample({"text": "a: 1", "family": "special"})
    rep.sample({"text": mutate(rnd, progs_src[0])[:300], "family": "mutated-programs"})
    rep.assumptions.append("characters are covered by representatives of the predicates the scanner applies, not all scalars")


def end_to_end(rep, rnd, tier, progs_src, special):
    core.build_binary()
    texts = list(special)
    for _ in range(1500 if tier == "quick" else 12000):
        texts.append(mutate(rnd, rnd.choice(progs_src)))
    for _ in range(500 if tier == "quick" else 4000):
        texts.append(" ".join(rnd.choice(TOKENS) for _ in range(rnd.randint(1, 8))))
    texts = [t for t in texts if "\0" not in t and "exit" not in t and "sleep" not in t and "input" not in t
             and "read" not in t]
    jobs = []
    for t in texts:
        # (a text whose probe ran is a program that runs long: no second attempt for those)
        jobs.append((["-c", "puts(\"RAN-PROBE\");\n" + t], b"", {"timeout": 10, "retry_if": lambda r: b"RAN-PROBE" not in r["out"]}))
    results = e2e.run_many(jobs)
    recs = []
    for i, (t, r) in enumerate(zip(texts, results)):
        diag = b"parse errors" in r["err"] or b"compile error" in r["err"]
        ran = b"RAN-PROBE" in r["out"]
        how = r["how"]
        if how == "timeout" and ran and not diag:
            how = "exit"       # the front end finished and the (mutated) program is looping: not a front-end matter
        recs.append({"id": i, "how": how, "diag": diag, "ran": ran})
    verdicts, tres = core.tlc_validate("PipelineTrace", recs, cfg="PipelineTrace", workers=4)
    rep.add_tlc(tres)
    rep.cov["traces_validated_against_impl"] += len(recs)
    rep.cov["evaluations"] += len(recs)
    for r, t, res in zip(recs, texts, results):
        if verdicts[r["id"]]["v"] == "bad":
            what = "executed-despite-diagnostics" if (r["diag"] and r["ran"]) else \
                   ("neither-diagnosed-nor-run" if r["how"] == "exit" else r["how"])
            loc = ""
            m = re.search(rb"panicked at ([^\n]*)", res["err"])
            if m:
                loc = m.group(1).decode("utf8", "replace")[:80]
            rep.disagree("e2e front-end %s %s" % (what, loc), {"text": t, "stderr": res["err"].decode("utf8", "replace")[:400]})
    return len(recs)


def replay(rep, path):
    print(json.dumps(json.load(open(path)), indent=1)[:6000])
