"""C22 - operating-system I/O failures become error objects, not crashes.

Spec level: spec/IOFaults.tla - a program of I/O operations, the environment choosing (through
the target of each operation, table in spec/IOFaultOps.tla) whether the OS fails it; invariants
NeverAborts / ErrIffFault, and RunsToEnd, model-checked for all programs of up to 2 operations.
Conformance (S->I): TLC (GenFaults) enumerates every program of one or two operations (thorough:
plus every 29th of three); the driver prepares the targets in a private directory (regular file,
directory, file used as a path component, existing file for mode x, /dev/full, garbage / short /
empty pcap files, valid or garbage stdin), the real binary runs the script, which prints
is_error(result) after every operation and a final sentinel; spec/FaultTrace.tla validates:
error object iff failure, program ran to its end, no runtime error, normal exit."""
import json
import os
import shutil
import subprocess
from concurrent.futures import ThreadPoolExecutor

from .. import core, progs, tlcrun, pcapfmt

PROP = "C22"


def prepare(d):
    os.makedirs(os.path.join(d, "dir"))
    open(os.path.join(d, "ok.txt"), "w").write("hello\nworld\n")
    big = pcapfmt.simple_tcp_frame(b"z" * 9000)
    mid = pcapfmt.simple_tcp_frame(b"m" * 3000)
    open(os.path.join(d, "ok.pcap"), "wb").write(pcapfmt.pcap_file([pcapfmt.simple_tcp_frame(), big, mid]))
    import struct
    bad = struct.pack("<IIII", 1, 2, 70000, 70000) + b"\x55" * 64          # caplen beyond the snap length (65535)
    open(os.path.join(d, "badrec.pcap"), "wb").write(pcapfmt.global_header() + bad)
    good = pcapfmt.pcap_file([pcapfmt.simple_tcp_frame()])
    open(os.path.join(d, "nearmagic.pcap"), "wb").write(b"\x34\xcd" + good[2:])
    open(os.path.join(d, "halfmagic.pcap"), "wb").write(b"\x00\x00" + good[2:])
    open(os.path.join(d, "damaged.pcap"), "wb").write(pcapfmt.global_header() + pcapfmt.record(pcapfmt.simple_tcp_frame()) + bad +
                                                       pcapfmt.record(pcapfmt.simple_tcp_frame(b"behind")))
    open(os.path.join(d, "garbage.pcap"), "wb").write(b"this is not a pcap file at all, not even close......")
    open(os.path.join(d, "short.pcap"), "wb").write(pcapfmt.global_header()[:10])
    open(os.path.join(d, "empty.pcap"), "wb").write(b"")


PRELUDE = ('let BIG = "0123456789" * 1000;\n'
           'let PK = pcap_open("$D/ok.pcap"); let SMALLPKT = pcap_read_next(PK); let BIGPKT = pcap_read_next(PK); let MIDPKT = pcap_read_next(PK);\n'
           'let PDMG = pcap_open("$D/damaged.pcap"); pcap_read_next(PDMG);\n'
           'let PEND = pcap_open("$D/ok.pcap"); pcap_read_all(PEND);\n'
           'let WOK = open("$D/wok.txt", "w"); write(WOK, "abc");\n'
           'let WFULL = open("/dev/full", "w"); write(WFULL, "abc");\n'
           'fn FLUSHOUT() { write(stdout, "p"); flush(stdout) }\n'
           'fn PWOUT(p) { let s = pcap_stream(stdout); if is_error(s) { s } else { pcap_write(s, p) } }\n')


def script(ops, d):
    src = PRELUDE
    for j, op in enumerate(ops, 1):
        src += 'let r%d = %s;\neprintln("R{} {}", %d, is_error(r%d));\n' % (j, op["src"].replace("$N", str(j)), j, j)
    src += 'eprintln("DONE");\n'
    return src.replace("$D", d)


def run(rep, tier, seed):
    core.build_binary()
    mc = tlcrun.require_ok(tlcrun.run_tlc("IOFaults", workers=4, timeout=600), "IOFaults")
    rep.add_tlc(mc)
    cases, gres = progs.generate("GenFaults", cfg="GenFaults" if tier == "quick" else "GenFaults_thorough")
    rep.add_tlc(gres)
    base = core.workdir("c22")
    try:
        good_stdin = pcapfmt.pcap_file([pcapfmt.simple_tcp_frame()])

        devfull = open("/dev/full", "w")

        timeouts = [0]

        def runcase(c):
            d = os.path.join(base, "r%d" % c["id"])
            os.makedirs(d)
            prepare(d)
            garbage = any(op["name"] == "pcap_stream stdin garbage" for op in c["ops"])
            # stdin is read once: a second pcap_stream in the same program finds it empty -> that is a failure too
            streams = [j for j, op in enumerate(c["ops"]) if op["name"].startswith("pcap_stream")]
            src = script(c["ops"], d)
            try:
                p = subprocess.run([core.P2SH, "-c", src], input=(b"garbage-not-pcap" * 4 if garbage else good_stdin),
                                   stdout=devfull, stderr=subprocess.PIPE, timeout=60 if timeouts[0] < 6 else 8)
                c["err"] = p.stderr.decode("utf8", "replace")
                c["how"] = "exit" if p.returncode == 0 else ("panic" if p.returncode == 101 else "rc=%d" % p.returncode)
            except subprocess.TimeoutExpired:
                # (these programs take a fraction of a second; once six of them have hung for a minute the rest get less)
                timeouts[0] += 1
                c["err"] = ""
                c["how"] = "timeout"
            c["src"] = src
            c["streams"] = streams
            c["garbage"] = garbage
            shutil.rmtree(d, ignore_errors=True)
        with ThreadPoolExecutor(max_workers=12) as ex:
            list(ex.map(runcase, cases))
        recs = []
        for c in cases:
            seen = {}
            for line in c["err"].splitlines():
                if line.startswith("R") and " " in line:
                    a, b = line[1:].split(" ", 1)
                    if a.isdigit():
                        seen[int(a)] = b.strip()
            steps = []
            for j, op in enumerate(c["ops"], 1):
                fault = op["fault"]
                if op["name"].startswith("pcap_stream") and c["streams"] and ((j - 1) != c["streams"][0] or c["garbage"]):
                    fault = True          # stdin was already consumed by the first pcap_stream, or holds garbage
                fault = "yes" if fault else "no"
                if fault == "no" and "stdout" in op["name"] and any("stdout-stream" in o["name"] for o in c["ops"][:j - 1]):
                    fault = "either"      # the stream's buffer still holds what the failed record write left there
                steps.append({"name": op["name"], "fault": fault, "seen": seen.get(j, "missing")})
            recs.append({"id": c["id"], "steps": steps, "done": "DONE" in c["err"], "how": c["how"],
                         "rterror": "Runtime error" in c["err"] or "panicked" in c["err"]})
        verdicts, tres = core.tlc_validate("FaultTrace", recs, workers=2)
        rep.add_tlc(tres)
        rep.cov["traces_validated_against_impl"] += len(recs)
        rep.cov["evaluations"] += len(recs)
        for c, r in zip(cases, recs):
            v = verdicts[c["id"]]
            if v["v"] == "bad":
                if v["at"]:
                    st = r["steps"][v["at"] - 1]
                    outcome = "panic" if "panicked" in c["err"] else ("runtime-error" if "Runtime error" in c["err"] and st["seen"] == "missing"
                                                                       else "is_error=" + st["seen"])
                    sig = "io-fault %s fault=%s -> %s" % (st["name"], st["fault"], outcome)
                else:
                    sig = "io-fault program did not finish (%s)" % c["how"]
                rep.disagree(sig, {"script": c["src"], "stderr": c["err"][:600], "how": c["how"]})
        rep.cov["distinct_nontrivial"] = len(cases)
        rep.cov["fault_operations"] = sum(1 for c in cases for op in c["ops"] if op["fault"])
        rep.cov["rule"] = ("TLC-enumerated programs (spec/GenFaults.tla) of one or two operations from the 58-entry operation x "
                           "target table (thorough: plus every 29th program of three); distinct = distinct programs; non-trivial = "
                           "the program performs at least one I/O operation (all)")
        rep.cov["exhaustive"] = tier == "quick"
        rep.sample({"script": cases[60]["src"], "stderr": cases[60]["err"]})
        rep.assumptions.append("EACCES is not exercised: the checks run as root, which is never denied access")
    finally:
        shutil.rmtree(base, ignore_errors=True)


def replay(rep, path):
    print(json.dumps(json.load(open(path)), indent=1)[:6000])
