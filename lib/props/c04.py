"""C04 - names resolve to the innermost visible binding and closures capture it.

Bounded-exhaustive scope skeletons: all sequences / nestings of at most N items from
  L  let x = <fresh>         U  push(OBS, [x, x])     A  x = <fresh>
  B  { ... }                 F  fn f() { ... } + call now + call again at the end of the block
  I  if true { ... }
each at top level (bindings are globals) and as the body of a function (bindings are locals,
inner functions are closures; x is then also tried as a parameter),
with one contended name x (so every let shadows, every block end un-shadows, every use
picks a binding) plus seeded random programs with shadowing enabled.  A use with no visible
binding must be a compile error.  Every program runs through the real pipeline; TLC
validates the execution against RefSem (lexical scopes, by-reference globals, by-value
capture at closure creation)."""
import json
import random

from .. import core, progs
from ..past import (OBS_DECL, obs, let, ident, expr, I, asg, block, fndef, call, if_, lit, vbool, bin_, fn, ret)
from ..proggen import random_program

PROP = "C04"


class Enum:
    def __init__(self):
        self.k = 0
        self.f = 0

    def fresh(self):
        self.k += 1
        return self.k


def skeletons(n, depth, infn, own_x):
    """yields lists of item trees using exactly <= n nodes.  item = (kind, children)"""
    if n == 0:
        yield []
        return
    yield []
    kinds = ["L", "U", "A"] + (["B", "F", "I"] if depth > 0 else [])
    for kind in kinds:
        if kind in ("L", "U", "A"):
            for rest in skeletons(n - 1, depth, infn, own_x or kind == "L"):
                yield [(kind, [])] + rest
        else:
            for inner_n in range(0, n):
                for inner in skeletons(inner_n, depth - 1, infn or kind == "F", False if kind == "F" else own_x):
                    if len_nodes(inner) != inner_n:
                        continue
                    for rest in skeletons(n - 1 - inner_n, depth, infn, own_x):
                        yield [(kind, inner)] + rest


def len_nodes(items):
    return sum(1 + len_nodes(ch) for _, ch in items)


def build(items, en, fdepth, declared_here):
    """items -> statements; declared_here: x was declared in the current function (so assigning is fine)"""
    out = []
    tail = []
    for kind, ch in items:
        if kind == "L":
            out.append(let("x", I(en.fresh())))
            declared_here = True
        elif kind == "U":
            # two reads in one statement: each must pick the binding (a second read of a captured name
            # takes another path through the symbol table than the first)
            out.append(obs({"t": "arr", "es": [ident("x"), ident("x")]}))
        elif kind == "A":
            if fdepth > 0 and not declared_here:
                # assigning a captured variable inside a closure is unspecified: read it instead
                out.append(obs(bin_("+", ident("x"), I(1000))))
            else:
                out.append(expr(asg(ident("x"), I(en.fresh()))))
        elif kind == "B":
            out.append(block(build(ch, en, fdepth, declared_here)))
        elif kind == "I":
            out.append(expr(if_(lit(vbool(True)), build(ch, en, fdepth, declared_here))))
        elif kind == "F":
            en.f += 1
            name = "f%d" % en.f
            body = build(ch, en, fdepth + 1, False) + [expr(I(en.fresh()))]
            out.append(fndef(name, [], body))
            out.append(obs(call(name)))
            tail.append(obs(call(name)))
    return out + tail


def closure_programs():
    """closures returned from their defining activation and called later; mutation after capture;
    parameters; counters made by a factory; globals written by reference."""
    ps = []
    # capture at creation, later mutation of the captured local is not seen
    ps.append(("capture-then-mutate", [fndef("mk", ["a"], [let("b", bin_("+", ident("a"), I(1))),
                                                         let("c", fn([], [expr(bin_("+", ident("a"), ident("b")))])),
                                                         expr(asg(ident("b"), I(100))), expr(asg(ident("a"), I(200))),
                                                         expr(ident("c"))]),
                                       let("c1", call("mk", I(1))), let("c2", call("mk", I(10))),
                                       obs(call("c1")), obs(call("c2")), obs(call("c1"))]))
    # globals are shared by reference
    ps.append(("global-by-reference", [let("g", I(1)), fndef("inc", [], [expr(asg(ident("g"), bin_("+", ident("g"), I(1))))]),
                                       fndef("get", [], [expr(ident("g"))]), obs(call("inc")), obs(call("get")),
                                       expr(asg(ident("g"), I(50))), obs(call("get")), obs(call("inc")), obs(ident("g"))]))
    # nested closures: innermost sees parameters of both enclosing functions
    ps.append(("nested-params", [fndef("outer", ["a"], [expr(fn(["b"], [expr(fn(["c"], [
        expr(bin_("+", bin_("*", ident("a"), I(100)), bin_("+", bin_("*", ident("b"), I(10)), ident("c"))))]))]))]),
        obs(call(call(call("outer", I(1)), I(2)), I(3))), obs(call(call(call("outer", I(4)), I(5)), I(6)))]))
    # recursion through the function's own name, local and global
    ps.append(("recursion", [fndef("fact", ["n"], [expr(if_(bin_("<=", ident("n"), I(1)), [expr(I(1))],
                                                          [expr(bin_("*", ident("n"), call("fact", bin_("-", ident("n"), I(1)))))]))]),
                             obs(call("fact", I(10))),
                             fndef("w", [], [fndef("fib", ["n"], [expr(if_(bin_("<", ident("n"), I(2)), [expr(ident("n"))],
                                                                        [expr(bin_("+", call("fib", bin_("-", ident("n"), I(1))),
                                                                                   call("fib", bin_("-", ident("n"), I(2)))))]))]),
                                             expr(call("fib", I(12)))]),
                             obs(call("w")),
                             let("cd", fn(["n"], [expr(if_(bin_("==", ident("n"), I(0)), [expr(I(0))],
                                                           [expr(call("cd", bin_("-", ident("n"), I(1))))]))])),
                             obs(call("cd", I(20)))]))
    # block-local captured by a function defined in the block, used after the block's siblings
    ps.append(("block-local-capture", [let("h", I(0)), block([let("t", I(5)), fndef("rd", [], [expr(ident("t"))]),
                                                                expr(asg(ident("h"), ident("rd"))),
                                                                expr(asg(ident("t"), I(6)))]),
                                       block([let("t", I(70)), obs(ident("t"))]), obs(call("h"))]))
    # shadowing inside a function: inner binding hides the parameter only until its block ends
    ps.append(("param-shadow", [fndef("f", ["x"], [obs(ident("x")), block([let("x", I(2)), obs(ident("x")),
                                                                          block([let("x", I(3)), obs(ident("x"))]),
                                                                          obs(ident("x"))]), obs(ident("x")), expr(ident("x"))]),
                                obs(call("f", I(1)))]))
    # a closure created in a loop captures the value of that iteration
    ps.append(("loop-capture", [let("fs", {"t": "arr", "es": []}), fndef("mk", [], [
        let("i", I(0)), let("acc", {"t": "arr", "es": []}),
        {"t": "while", "lb": "", "c": bin_("<", ident("i"), I(3)), "b": [
            let("j", bin_("*", ident("i"), I(10))), expr(call("push", ident("acc"), fn([], [expr(bin_("+", ident("i"), ident("j")))]))),
            expr(asg(ident("i"), bin_("+", ident("i"), I(1))))]},
        expr(ident("acc"))]),
        let("cs", call("mk")), obs(call({"t": "idx", "a": ident("cs"), "i": I(0)})),
        obs(call({"t": "idx", "a": ident("cs"), "i": I(1)})), obs(call({"t": "idx", "a": ident("cs"), "i": I(2)}))]))
    return [(tag, [OBS_DECL] + p) for tag, p in ps]


def function_names():
    """what a function's own name denotes: inside its body, inside closures nested in it (one and two deep), when a
    parameter, a local or an inner function has the same name, for fn statements and for let-bound literals"""
    out = []
    le = lambda a, b: bin_("<=", a, b)
    sub1 = lambda x: bin_("-", ident(x), I(1))

    def define(kind, name, params, body):
        return fndef(name, params, body) if kind == "fn" else let(name, fn(params, body))

    for kind in ("fn", "let"):
        # recursion through the own name, directly and from closures nested one and two deep
        out.append(("%s direct" % kind, [define(kind, "f", ["n"], [expr(if_(le(ident("n"), I(0)), [expr(I(100))],
                    [expr(bin_("+", I(1), call("f", sub1("n"))))]))]), obs(call("f", I(3)))]))
        out.append(("%s via-closure" % kind, [define(kind, "f", ["n"], [
            let("h", fn(["k"], [expr(if_(le(ident("k"), I(0)), [expr(I(50))], [expr(call("f", sub1("k")))]))])),
            expr(if_(le(ident("n"), I(0)), [expr(I(7))], [expr(bin_("+", I(1), call("h", ident("n"))))]))]),
            obs(call("f", I(2))), obs(call("f", I(0)))]))
        out.append(("%s via-closure-2-deep" % kind, [define(kind, "f", ["n"], [
            let("h", fn(["k"], [let("g", fn(["j"], [expr(if_(le(ident("j"), I(0)), [expr(I(50))], [expr(call("f", sub1("j")))]))])),
                                expr(call("g", ident("k")))])),
            expr(if_(le(ident("n"), I(0)), [expr(I(7))], [expr(bin_("+", I(1), call("h", ident("n"))))]))]),
            obs(call("f", I(2)))]))
        out.append(("%s returned-closure-calls-maker" % kind, [define(kind, "mk", ["n"], [
            expr(fn([], [expr(if_(le(ident("n"), I(0)), [expr(I(9))], [expr(call(call("mk", sub1("n"))))]))]))]),
            obs(call(call("mk", I(2)))), obs(call(call("mk", I(0))))]))
        # a parameter / local / inner function with the function's own name hides it
        out.append(("%s param-same-name" % kind, [define(kind, "pick", ["pick", "other"], [
            expr(if_(ident("pick"), [expr(ident("other"))], [expr(I(0))]))]),
            obs(call("pick", lit(vbool(False)), I(7))), obs(call("pick", lit(vbool(True)), I(7))), obs(call("pick", I(5), I(8)))]))
        out.append(("%s param-same-name-arith" % kind, [define(kind, "w", ["w"], [expr(bin_("+", ident("w"), I(1)))]),
                    obs(call("w", I(41)))]))
        out.append(("%s param-same-name-captured" % kind, [define(kind, "q", ["q"], [expr(fn([], [expr(bin_("*", ident("q"), I(2)))]))]),
                    obs(call(call("q", I(21))))]))
        out.append(("%s local-same-name" % kind, [define(kind, "v", ["n"], [let("v", bin_("+", ident("n"), I(1))), expr(ident("v"))]),
                    obs(call("v", I(1))), obs(call("v", I(2)))]))
        out.append(("%s inner-fn-same-name" % kind, [define(kind, "u", ["n"], [
            fndef("u", ["m"], [expr(bin_("*", ident("m"), I(10)))]), expr(call("u", ident("n")))]), obs(call("u", I(3)))]))
        out.append(("%s sibling-sees-both" % kind, [define(kind, "a1", ["n"], [expr(bin_("+", ident("n"), I(1)))]),
                    define(kind, "a2", ["n"], [expr(bin_("+", call("a1", ident("n")), call("a1", I(10))))]), obs(call("a2", I(1)))]))
    return [("fn-name " + t, [OBS_DECL] + p) for t, p in out]


def run(rep, tier, seed):
    core.build_harness()
    nmax = 4 if tier == "quick" else 5
    items = []
    n = 0
    seen = set()
    for sk in skeletons(nmax, 2, False, False):
        key = repr(sk)
        if key in seen:
            continue
        seen.add(key)
        if not any(k in ("U", "A", "F") for k, _ in flatten(sk)):
            continue
        en = Enum()
        prog = [OBS_DECL, let("x", I(900))] if n % 2 == 0 else [OBS_DECL]
        prog = prog + build(sk, en, 0, True)
        items.append({"id": "s%d" % n, "prog": prog, "tag": "skeleton"})
        n += 1
        # the same skeleton as the body of a function: the bindings are locals of an activation, blocks are
        # nested local scopes and the functions inside are closures capturing them
        en = Enum()
        inner = build(sk, en, 1, True)
        pre = [OBS_DECL, let("x", I(900))] if n % 3 == 0 else [OBS_DECL]
        params = ["x"] if n % 3 == 1 else []
        wprog = pre + [fndef("w", params, inner + [expr(I(0))]), obs(call("w", *([I(800)] if params else [])))]
        items.append({"id": "s%d" % n, "prog": wprog, "tag": "skeleton-in-function"})
        n += 1
    for tag, prog in closure_programs() + function_names():
        items.append({"id": "c%d" % n, "prog": prog, "tag": tag})
        n += 1
    rnd = random.Random(seed)
    for i in range(600 if tier == "quick" else 8000):
        items.append({"id": "r%d" % i, "prog": random_program(rnd, features={"shadow": True}, depth=3), "tag": "random-shadow"})
    bad, verdicts = progs.run_and_validate(rep, items, chk=("final",))
    hows = {}
    for it in items:
        h = verdicts[it["id"]]["how"]
        hows[h] = hows.get(h, 0) + 1
    rep.notes["expected_outcome_classes"] = hows
    rep.cov["distinct_nontrivial"] = len({it["src"] for it in items})
    rep.cov["rule"] = ("all scope skeletons with at most %d items from {let x, use x, assign x, block, function (called "
                       "at once and again at the end of its block), if-block} nested to depth 2, with and without an "
                       "outer binding of x, that contain at least one use / assignment / function, each at top level and as "
                       "the body of a function (x unbound outside / global / parameter); what a function's own name denotes (recursion "
                       "through nested closures, parameters / locals / inner functions of the same name; fn and let forms); hand-written closure "
                       "families; seeded random programs with shadowing; distinct = distinct source texts" % nmax)
    rep.cov["exhaustive"] = False
    for it in items[5:7]:
        rep.sample({"src": it["src"], "out": it["out"]})
    for it, out, v in bad:
        sig = "scope %s %s" % (it["tag"], progs.outcome_delta(v["exp"], out))
        rep.disagree(sig, {"src": it["src"], "expected": v["exp"], "got": it["raw"]})


def flatten(items):
    for k, ch in items:
        yield k, ch
        for x in flatten(ch):
            yield x


def replay(rep, path):
    print(json.dumps(json.load(open(path)), indent=1)[:6000])
