"""C21 - file reads return the file's bytes exactly once, in order, however chunked.

Spec level: spec/FileIO.tla (cursor / arrived / closed; environment actions Deliver(chunk) and
CloseWriter interleaved with blocking Read(n) / ReadAll / ReadLine) is model-checked for
PrefixExactlyOnce and ShortOnlyAtEOF under all delivery schedules (contents with and without
newlines).  Conformance: random contents (binary and UTF-8, sizes around the 4096-byte loop
buffer and the 8192-byte BufReader, up to 3 * 8192 + 1) x random call sequences of read(f, n),
read(f), read_line(f), read_to_string(f) on a file (in-process) and on stdin fed through a pipe
in random chunk schedules with pauses (through the real binary); every result is validated by
spec/FileIOTrace.tla.  Open modes: mode x {missing, existing} x 0-3 writes x flush or not,
through the binary, file content compared after exit (AfterExit / OpenFails)."""
import json
import os
import random
import shutil
import subprocess
import time
from concurrent.futures import ThreadPoolExecutor

from .. import core, tlcrun

PROP = "C21"
SIZES = [0, 1, 2, 100, 4095, 4096, 4097, 8191, 8192, 8193, 12288, 16384, 16385, 24576, 24577]


def content(rnd, utf8):
    n = rnd.choice(SIZES + [rnd.randint(0, 300)] * 4)
    if utf8:
        alphabet = "ab \n\n\ncdé€😀xyz\t"
        s = "".join(rnd.choice(alphabet) for _ in range(n))
        b = s.encode("utf8")[:n]
        # cut only at a character boundary
        while True:
            try:
                b.decode("utf8")
                break
            except UnicodeDecodeError:
                b = b[:-1]
        return b
    return bytes(rnd.choice([10, 0, 255, rnd.randrange(256)]) if rnd.random() < 0.2 else rnd.randrange(256) for _ in range(n))


def on_boundaries(data, calls):
    """for UTF-8 contents that are also read as strings: shorten byte counts so that no read ends inside a
    character (a string-returning call cannot return half a character)"""
    cur = 0
    for c in calls:
        if c["op"] == "read":
            n = min(c["n"], len(data) - cur)
            while n > 0 and cur + n < len(data) and 0x80 <= data[cur + n] <= 0xBF:
                n -= 1
            if cur + c["n"] < len(data):
                c["n"] = n
            cur += n
        elif c["op"] == "line":
            p = data.find(b"\n", cur)
            cur = len(data) if p < 0 else p + 1
        else:
            cur = len(data)
    return calls


def calls_for(rnd, utf8, size):
    out = []
    for _ in range(rnd.randint(1, 6)):
        r = rnd.random()
        if r < 0.5:
            out.append({"op": "read", "n": rnd.choice([0, 1, 2, 100, 4095, 4096, 4097, 8192, 8193, 10000, size, size + 1])})
        elif r < 0.75 and (utf8 or rnd.random() < 0.3):
            out.append({"op": "line", "n": 0})
        elif r < 0.87:
            out.append({"op": "readall", "n": 0})
        elif utf8 or rnd.random() < 0.5:
            out.append({"op": "tostring", "n": 0})
        else:
            out.append({"op": "read", "n": rnd.randint(0, 50)})
    out.append({"op": rnd.choice(["readall", "read"]), "n": 7})
    return out


def script(handle_expr, base, calls):
    src = "let f = %s;\n" % handle_expr
    for j, c in enumerate(calls, 1):
        call = {"read": "read(f, %d)" % c["n"], "readall": "read(f)", "line": "read_line(f)", "tostring": "read_to_string(f)"}[c["op"]]
        src += ('let r%d = %s; let w%d = open("%s.%d", "w");\nif is_error(r%d) { write(w%d, "E"); } else { write(w%d, "K"); write(w%d, r%d); }\nflush(w%d);\n'
                % (j, call, j, base, j, j, j, j, j, j, j))
    return src


def collect(base, calls):
    out = []
    for j, c in enumerate(calls, 1):
        p = "%s.%d" % (base, j)
        if not os.path.exists(p):
            break
        data = open(p, "rb").read()
        if data[:1] == b"K":
            res = {"k": "bytes", "v": list(data[1:])}
        else:
            res = {"k": "err"}
        out.append({"op": c["op"], "n": c["n"], "res": res})
    return out


def feed(args, data, schedule):
    """runs the binary feeding stdin in chunks with pauses; returns (rc, stderr)"""
    p = subprocess.Popen(args, stdin=subprocess.PIPE, stdout=subprocess.PIPE, stderr=subprocess.PIPE)
    try:
        off = 0
        for size, pause in schedule:
            if off >= len(data):
                break
            try:
                p.stdin.write(data[off:off + size])
                p.stdin.flush()
            except BrokenPipeError:
                break
            off += size
            if pause:
                time.sleep(pause)
        try:
            if off < len(data):
                p.stdin.write(data[off:])
            p.stdin.close()
        except BrokenPipeError:
            pass
        out, err = b"", b""
        try:
            p.wait(timeout=180)
            err = p.stderr.read()
        except subprocess.TimeoutExpired:
            p.kill()
            return None, b"timeout"
        return p.returncode, err
    finally:
        if p.poll() is None:
            p.kill()


def run(rep, tier, seed):
    # PrefixExactlyOnce / ShortOnlyAtEOF / "answered only from bytes that have arrived" as an inductive invariant
    # (Apalache, spec/FileIOInd.tla: contents of up to 8 arbitrary bytes, every schedule, histories of every length)
    core.apalache_inductive("FileIOInd")
    rep.notes["inductive_invariant_FileIO"] = "discharged by Apalache (base and step), contents of up to 8 arbitrary bytes"
    core.build_harness()
    core.build_binary()
    for c in ("C1", "C2", "C3", "C4"):
        r = tlcrun.require_ok(tlcrun.run_tlc("MC_FileIO", cfg="MC_FileIO_" + c, workers=4, timeout=600), "MC_FileIO")
        rep.add_tlc(r)
    rnd = random.Random(seed)
    d = core.workdir("c21")
    try:
        recs = []
        metas = {}
        # (1) files, in-process
        items = []
        for i in range(500 if tier == "quick" else 6000):
            utf8 = rnd.random() < 0.5
            data = content(rnd, utf8)
            path = os.path.join(d, "in%d" % i)
            open(path, "wb").write(data)
            calls = calls_for(rnd, utf8, len(data))
            if utf8:
                on_boundaries(data, calls)
            base = os.path.join(d, "fo%d" % i)
            items.append({"id": "f%d" % i, "src": script('open("%s")' % path, base, calls), "calls": calls, "base": base,
                          "content": data, "how": "file"})
        res = core.run_cases([{"id": it["id"], "src": it["src"]} for it in items])
        for it in items:
            it["run"] = {k: res[it["id"]].get(k) for k in ("how", "msg", "line")}
        # (2) stdin through a pipe, chunk schedules, through the binary
        pipes = []
        for i in range(240 if tier == "quick" else 1500):
            utf8 = rnd.random() < 0.5
            data = content(rnd, utf8)
            calls = calls_for(rnd, utf8, len(data))
            if utf8:
                on_boundaries(data, calls)
            base = os.path.join(d, "po%d" % i)
            sched = []
            for _ in range(rnd.randint(1, 8)):
                sched.append((rnd.choice([1, 7, 100, 4095, 4096, 4097, 8192, 10000]), rnd.choice([0, 0, 0.001, 0.02])))
            by_path = (i % 4 == 3)       # the same pipe, reached through open("/dev/stdin")
            pipes.append({"id": "p%d" % i, "src": script('open("/dev/stdin")' if by_path else "stdin", base, calls), "calls": calls, "base": base,
                          "content": data, "how": "pipe-by-path" if by_path else "pipe", "sched": sched})

        # text asked of input that is not text (a stray byte, a sequence cut short at the end, an overlong form, a surrogate)
        odd = [b"abc\xff def\n", b"caf\xc3\xa9 \xe2\x82", b"x\xc0\x80y\n", b"ok\n\xed\xa0\x80\n", b"\xf5\x80\x80\x80", b"plain ascii\n"]
        for k, data in enumerate(odd):
            for calls in ([{"op": "tostring", "n": 0}], [{"op": "line", "n": 0}, {"op": "tostring", "n": 0}], [{"op": "read", "n": 2}, {"op": "tostring", "n": 0}]):
                base = os.path.join(d, "podd%d_%d" % (k, len(pipes)))
                pipes.append({"id": "p%d" % len(pipes), "src": script("stdin", base, calls), "calls": calls, "base": base, "content": data,
                              "how": "pipe", "sched": [(rnd.choice([1, 3, 100]), 0)]})
                # the same through a file handle
                path = os.path.join(d, "oddfile%d_%d" % (k, len(pipes)))
                open(path, "wb").write(data)
                base2 = base + "f"
                pipes.append({"id": "p%d" % len(pipes), "src": script('open("%s")' % path, base2, calls), "calls": calls, "base": base2,
                              "content": data, "how": "file-through-binary", "sched": [(100, 0)]})

        def runpipe(it):
            rc, err = feed([core.P2SH, "-c", it["src"]], it["content"], it["sched"])
            it["run"] = {"how": "ok" if rc == 0 and b"error" not in err.lower() else "rc=%s" % rc, "msg": err.decode("utf8", "replace")[:200]}
        with ThreadPoolExecutor(max_workers=8) as ex:
            list(ex.map(runpipe, pipes))
        for it in items + pipes:
            obs = collect(it["base"], it["calls"])
            if len(obs) < len(it["calls"]):
                obs.append({"op": it["calls"][len(obs)]["op"], "n": it["calls"][len(obs)]["n"], "res": {"k": "missing:" + str(it["run"]["how"])}})
            it["obs"] = obs
            recs.append({"id": it["id"], "kind": "read", "content": list(it["content"]), "calls": obs})
            metas[it["id"]] = it
        # (3) open modes through the binary
        modes = []
        n = 0
        for mode in ("r", "w", "a", "x"):
            for existed in (False, True):
                for nwrites in (0, 1, 2, 3):
                    for flush, ending in [(False, "end"), (True, "end")] + ([(False, e) for e in ("exit0", "exit3", "rterror")] +
                                                                              [(True, "exit0")] if mode != "r" and nwrites else []):
                        path = os.path.join(d, "m%d" % n)
                        before = b"OLD-CONTENT\n" if existed else b""
                        if existed:
                            open(path, "wb").write(before)
                        # a write is a text, a single byte or an array of bytes (every byte value is a legal content)
                        writes = []
                        wsrc = []
                        for k in range(nwrites):
                            kind = rnd.choice(["text", "text", "byte", "bytes"])
                            if kind == "text":
                                w = ("w%d-%s;" % (k, "x" * (rnd.choice([1, 5000, 9000]) if k == 1 else 3))).encode()
                                wsrc.append('write(f, "%s");' % w.decode())
                            elif kind == "byte":
                                b = rnd.choice([0, 10, 65, 127, 128, 200, 255])
                                w = bytes([b])
                                wsrc.append("write(f, byte(%d));" % b)
                            else:
                                bs = [rnd.choice([0, 10, 65, 127, 128, 233, 255]) for _ in range(rnd.randint(1, 5))]
                                w = bytes(bs)
                                wsrc.append("write(f, [%s]);" % ", ".join("byte(%d)" % b for b in bs))
                            writes.append(w)
                        src = 'let f = open("%s", "%s");\nif is_error(f) { eprintln("OPEN-ERR"); } else {\n' % (path, mode)
                        if mode != "r":
                            src += "\n".join(wsrc) + "\n"
                            if flush:
                                # what is in the file right after the flush, seen through a second handle
                                src += ('flush(f);\nlet g = open("%s");\nlet t = read(g);\nlet mi = 0;\neprint("MID");\n'
                                        'while mi < len(t) { eprint(" {}", int(t[mi])); mi = mi + 1; }\neprintln("");\n' % path)
                        # the program's end: its last statement, exit(n), or a runtime error - what was written is in the
                        # file in every case ("closed at program end")
                        src += 'eprintln("OPENED");\n' + {"end": "", "exit0": "exit(0);\n", "exit3": "exit(3);\n", "rterror": "let z = 1 / 0;\n"}[ending] + "}\n"
                        modes.append({"id": "m%d" % n, "mode": mode, "existed": existed, "before": before, "ending": ending,
                                      "writes": writes if mode != "r" else [], "flush": flush, "path": path, "src": src})
                        n += 1

        # several writers open at the same time, written to in turns, the program ending in every way: each file holds what
        # was written to it
        for ending in ("end", "exit0", "exit3", "rterror"):
            for nfiles in (2, 3):
                for order in (0, 1):
                    paths = [os.path.join(d, "mw%d_%d" % (n, k)) for k in range(nfiles)]
                    mds = ["w", "x", "a"][:nfiles] if order == 0 else ["a", "w", "x"][:nfiles]
                    src = "".join('let f%d = open("%s", "%s");\n' % (k, paths[k], mds[k]) for k in range(nfiles))
                    writes = [[] for _ in range(nfiles)]
                    for r in range(3):
                        for k in range(nfiles):
                            w = ("f%d-r%d;" % (k, r)).encode() * (1 if r != 1 else 300)
                            writes[k].append(w)
                            src += 'write(f%d, "%s");\n' % (k, w.decode())
                    src += 'eprintln("OPENED");\n' + {"end": "", "exit0": "exit(0);\n", "exit3": "exit(3);\n", "rterror": "let z = 1 / 0;\n"}[ending]
                    for k in range(nfiles):
                        modes.append({"id": "m%d" % n, "mode": mds[k], "existed": False, "before": b"", "ending": ending + " several-writers",
                                      "writes": writes[k], "flush": False, "path": paths[k], "src": src if k == 0 else None, "shared": "m%d" % (n - k)})
                        n += 1

        def runmode(m):
            if m["src"] is None:
                return
            p = subprocess.run([core.P2SH, "-c", m["src"]], stdin=subprocess.DEVNULL, stdout=subprocess.PIPE, stderr=subprocess.PIPE, timeout=180)
            m["stderr"] = p.stderr.decode("utf8", "replace")
            m["rc"] = p.returncode
        with ThreadPoolExecutor(max_workers=8) as ex:
            list(ex.map(runmode, modes))
        byid = {m["id"]: m for m in modes}
        for m in modes:
            if m["src"] is None:        # one program, several files: the run is recorded with the first of them
                m["stderr"], m["rc"], m["src"] = byid[m["shared"]]["stderr"], byid[m["shared"]]["rc"], byid[m["shared"]]["src"]
        for m in modes:
            opened = "err" if "OPEN-ERR" in m["stderr"] else ("ok" if "OPENED" in m["stderr"] else "crash")
            exists = os.path.exists(m["path"])
            after = open(m["path"], "rb").read() if exists else b""
            mid = [-1]
            for l in m["stderr"].splitlines():
                if l.startswith("MID"):
                    mid = [int(x) for x in l.split()[1:]]
            recs.append({"id": m["id"], "kind": "modes", "mode": m["mode"], "existed": m["existed"], "before": list(m["before"]),
                         "writes": [list(w) for w in m["writes"]], "opened": opened, "after": list(after), "exists_after": exists,
                         "mid": mid})
            metas[m["id"]] = m
        verdicts, tres = core.tlc_validate("FileIOTrace", recs, timeout=2400)
        rep.add_tlc(tres)
        rep.cov["traces_validated_against_impl"] += len(recs)
        rep.cov["evaluations"] += len(recs)
        for rec in recs:
            v = verdicts[rec["id"]]
            if v["v"] != "bad":
                continue
            m = metas[rec["id"]]
            if rec["kind"] == "modes":
                sig = "open-mode %s existed=%s writes=%d flush=%s ending=%s" % (m["mode"], m["existed"], len(m["writes"]), m["flush"], m["ending"])
                rep.disagree(sig, {"script": m["src"], "stderr": m["stderr"][:300], "after_len": len(rec["after"]), "opened": rec["opened"]})
            else:
                c = m["obs"][v["at"] - 1]
                cur = sum(len(x["res"].get("v", [])) for x in m["obs"][:v["at"] - 1])
                boundary = "at-buffer-boundary" if cur % 4096 == 0 and cur else ("after-line" if any(x["op"] == "line" for x in m["obs"][:v["at"] - 1]) else "plain")
                got = c["res"]["k"] if c["res"]["k"] != "bytes" else "len=%d" % len(c["res"]["v"])
                sig = "read %s call=%s %s got=%s" % (m["how"], c["op"], boundary, "short-or-wrong" if c["res"]["k"] == "bytes" else got)
                rep.disagree(sig, {"script": m["src"][:1500], "content_len": len(m["content"]), "cursor_before": cur, "call": c["op"], "n": c["n"],
                                   "got": got, "schedule": m.get("sched"), "run": m["run"], "content_hex": bytes(m["content"][:600]).hex()})
        rep.cov["distinct_nontrivial"] = len({(m["how"], len(m["content"]), tuple((c["op"], c["n"]) for c in m["calls"]))
                                              for m in items + pipes}) + len(modes)
        rep.cov["rule"] = ("contents (binary / UTF-8; sizes 0, 1, 2, 100 and around 4096 / 8192 / 12288 / 16384 / 24576) x call sequences "
                           "of 2-7 read(f, n) / read(f) / read_line(f) / read_to_string(f) on files and on stdin under random chunk "
                           "schedules (chunks 1..10000 bytes, pauses 0 / 1 / 20 ms); open-mode matrix mode x existed x 0-3 writes x "
                           "flush x the way the program ends (last statement, exit(n), runtime error); distinct = distinct (source, content size, call sequence) + matrix cells")
        rep.cov["exhaustive"] = False
        rep.sample({"script": items[0]["src"][:600], "content_len": len(items[0]["content"]),
                    "results": [(c["op"], c["n"], len(c["res"].get("v", []))) for c in items[0]["obs"]]})
    finally:
        shutil.rmtree(d, ignore_errors=True)


def replay(rep, path):
    print(json.dumps(json.load(open(path)), indent=1)[:6000])
