"""C08 - execution never crashes: failures surface as runtime errors.

In-process (under catch_unwind, watchdog for hangs): TLC-enumerated builtin calls
(GenCalls: every builtin x arity 0..3 x boundary arguments), TLC-enumerated operator table
(GenOps, thorough), resource-bound scenarios (recursion around MAX_FRAMES, many locals, big
literals near STACK_SIZE), hostile random programs; all validated by Conform.tla, where a
panic / abort / hang is never an allowed outcome.
End to end through the binary with packet input (spec/Total.tla): exit(n), runtime errors
in filter patterns and actions, break / continue / return in filter actions, filters inside
functions and blocks, non-boolean patterns, stack overflow then -c echo."""
import json
import random

from .. import core, progs, e2e, pcapfmt
from ..past import (OBS_DECL, obs, lit, vint, vbool, vstr, vfloat, bin_, un, let, ident, call, idx, arr, map_, expr, I,
                    if_, while_, loop, brk, cont, block, fndef, fn, ret, filt, asg)
from ..proggen import random_program

PROP = "C08"
CRASH = ("panic", "abort", "timeout", "fuel")


def scenarios():
    out = []
    # unbounded recursion with 0, 1 and 3 parameters, and mutual recursion through a global
    out.append(("recursion-unbounded-0", [fndef("f", [], [expr(call("f"))]), obs(call("f"))]))
    out.append(("recursion-unbounded-1", [fndef("f", ["n"], [expr(call("f", bin_("+", ident("n"), I(1))))]), obs(call("f", I(0)))]))
    out.append(("recursion-unbounded-3", [fndef("f", ["a", "b", "c"], [let("t", bin_("+", ident("a"), I(1))),
                                                                      expr(call("f", ident("t"), ident("b"), ident("c")))]),
                                          obs(call("f", I(0), I(1), I(2)))]))
    out.append(("recursion-mutual", [let("g", lit({"k": "null"})), fndef("f", ["n"], [expr(call("g", ident("n")))]),
                                     expr(asg(ident("g"), fn(["n"], [expr(call("f", bin_("+", ident("n"), I(1))))]))),
                                     obs(call("f", I(0)))]))
    # recursion to a depth around MAX_FRAMES (4096)
    for depth in (50, 1000, 4000, 4093, 4094, 4095, 4096, 4097, 5000):
        out.append(("recursion-depth-%d" % depth,
                    [fndef("f", ["n"], [expr(if_(bin_("==", ident("n"), I(0)), [expr(I(0))],
                                                 [expr(bin_("+", I(1), call("f", bin_("-", ident("n"), I(1)))))]))]),
                     obs(call("f", I(depth)))]))
    # functions with many locals called at increasing stack heights
    for nl in (0, 1, 100, 255, 256, 300):
        body = [let("l%d" % i, I(i)) for i in range(nl)] + [expr(I(7))]
        for depth in (1, 10, 13, 16, 40):
            out.append(("locals-%d-depth-%d" % (nl, depth),
                        [fndef("leaf", [], body),
                         fndef("f", ["n"], [let("a", I(1)), let("b", I(2)),
                                            expr(if_(bin_("==", ident("n"), I(0)), [expr(call("leaf"))],
                                                     [expr(bin_("+", I(1), call("f", bin_("-", ident("n"), I(1)))))]))]),
                         obs(call("f", I(depth * 100)))]))
    # operands piled on the stack: long array / map literals and call argument lists
    for n in (100, 4000, 4095, 4096, 4097, 5000):
        out.append(("array-literal-%d" % n, [let("a", arr(*[I(i % 7) for i in range(n)])), obs(call("len", ident("a")))]))
    for n in (2047, 2048, 2049):
        out.append(("map-literal-%d" % n, [let("m", map_(*[(I(i), I(i)) for i in range(n)])), obs(call("len", ident("m")))]))
    for n in (10, 200, 254, 255):
        out.append(("call-args-%d" % n, [fndef("f", ["p%d" % i for i in range(n)], [expr(ident("p0") if n else I(0))]),
                                         obs(call("f", *[I(i) for i in range(n)]))]))
    # nested expressions to the nesting bound
    e = I(1)
    for i in range(64):
        e = bin_("+", e, I(1))
    out.append(("nested-expr-64", [obs(e)]))
    e = I(1)
    for i in range(60):
        e = arr(e)
    out.append(("nested-array-60", [obs(call("len", e))]))
    # hostile operator and builtin arguments in loops and functions
    out.append(("loop-div0", [let("i", I(3)), while_(lit(vbool(True)), [obs(bin_("/", I(10), ident("i"))),
                                                                          expr(asg(ident("i"), bin_("-", ident("i"), I(1))))])]))
    out.append(("shift-huge", [obs(bin_("<<", I(1), I((1 << 63) - 1))), obs(bin_(">>", I(-1), I(-1))), obs(bin_("<<", I(1), I(-(1 << 63))))]))
    out.append(("neg-min", [obs(un("-", I(-(1 << 63)))), obs(bin_("/", I(-(1 << 63)), I(-1))), obs(bin_("%", I(-(1 << 63)), I(-1))),
                            obs(bin_("*", I(-(1 << 63)), I(-1)))]))
    out.append(("repeat-negative", [obs(bin_("*", lit(vstr("ab")), I(-(1 << 63))))]))
    out.append(("index-huge", [let("a", arr(I(1))), obs(call("get", ident("a"), I((1 << 63) - 1))), obs(call("get", ident("a"), I(-1))),
                               obs(idx(ident("a"), I(1 << 62)))]))
    out.append(("call-null", [obs(call(lit({"k": "null"})))]))
    out.append(("wrong-arity-closure", [let("f", fn(["a", "b"], [expr(ident("a"))])), obs(call("f")), obs(I(1))]))
    return [(t, [OBS_DECL] + p) for t, p in out]


def run(rep, tier, seed):
    core.build_harness()
    items = []
    cases, gres = progs.generate("GenCalls", cfg="GenCalls" if tier == "quick" else "GenCalls_thorough", timeout=900)
    rep.add_tlc(gres)
    for c in cases:
        items.append({"id": "b%d" % c["id"], "prog": c["prog"],
                      "tag": "builtin %s/%d (%s)" % (c["b"], c["ar"], ",".join(t.split(":")[0] for t in c["tags"]))})
    ops, ores = progs.generate("GenOps")
    rep.add_tlc(ores)
    big = ("int:MAX", "int:2^32", "int:2^62")
    if tier != "thorough":
        # quick: the operator table thinned out - every 9th case, and every case that pairs a byte with another kind
        ops = [c for c in ops if c["id"] % 9 == 0 or (("byte" in c["ta"]) != ("byte" in c["tb"]))]
    if True:
        for c in ops:
            if c["op"] == "*" and (c["ta"] in big or c["tb"] in big) and ("str" in c["ta"] or "str" in c["tb"]):
                continue
            items.append({"id": "o%d" % c["id"], "prog": [OBS_DECL, obs(c["e"])],
                          "tag": "op %s %s %s" % (c["op"], c["ta"].split(":")[0], c["tb"].split(":")[0])})
    for tag, prog in scenarios():
        items.append({"id": "s" + tag, "prog": prog, "tag": "scenario " + tag})
    for k, (tag, prog) in enumerate(format_strings(tier)):
        items.append({"id": "f%d" % k, "prog": prog, "tag": tag})
    rnd = random.Random(seed)
    for i in range(800 if tier == "quick" else 20000):
        items.append({"id": "r%d" % i, "prog": random_program(rnd, depth=3, features={"shadow": True}), "tag": "random-program"})
    bad, verdicts = progs.run_and_validate(rep, items, chk=(), case_opts={"fuel": 20000000})
    ncrash = 0
    for it, out, v in bad:
        if out["how"] in CRASH:
            ncrash += 1
            loc = (it["raw"].get("msg") or "").split("|")[0]
            rep.disagree("crash %s %s at %s" % (it["tag"], out["how"], loc),
                         {"src": it["src"][:3000], "got": {k: it["raw"].get(k) for k in ("how", "msg", "stage")}})
    at_the_limits(rep, tier)
    rep.notes["non_crash_disagreements_left_to_other_properties"] = len(bad) - ncrash
    rep.notes["non_crash_disagreement_tags"] = sorted({it["tag"] + " " + progs.outcome_delta(v["exp"], out)
                                                       for it, out, v in bad if out["how"] not in CRASH})[:60]
    machine_model_check(rep, [it for it in items if it["tag"] == "random-program"][:150 if tier == "quick" else 1500]
                        + [it for it in items if it["tag"].startswith("builtin")][::(40 if tier == "quick" else 8)])
    n_e2e = end_to_end(rep, tier, rnd) + packet_totality(rep, tier, rnd)
    rep.cov["distinct_nontrivial"] = len({it["tag"] for it in items}) + n_e2e
    rep.cov["rule"] = ("in-process: TLC-enumerated builtin calls (and operator table in thorough), resource-bound scenarios "
                       "(recursion depth around MAX_FRAMES, locals, literals around STACK_SIZE, 255 call arguments), hostile "
                       "boundary operations, every format string over the mini-language's characters up to length 4 (5), seeded random "
                       "programs; structure-aware random frames cut at every boundary through filter-mode programs that print "
                       "and write every layer; the machine specification model-checked on the compiled code of a "
                       "part of them; end to end: exit(n), filter-mode families with packet "
                       "input; distinct = distinct case tags; a case is non-trivial if it executes at least one operator, "
                       "builtin or call (all do)")
    rep.cov["exhaustive"] = False
    for it in items[:1]:
        rep.sample({"src": it["src"], "out": it["out"]})


def at_the_limits(rep, tier):
    """programs that sit exactly on, just under and just over the limits of the instruction format (C14's scenarios:
    locals, call arguments, captured variables): whatever the front end decides, nothing crashes"""
    from .c14 import limit_scenarios
    # (the big-program scenarios - constant pool, jump distances, globals - stay with C14: they take minutes)
    scs = [sc for sc in limit_scenarios(tier) if sc[0].split("=")[0] in ("locals", "call-args", "captured", "captured-direct")]
    cases = [{"id": "lim%d" % k, "src": sc[4], "fuel": 20000000} for k, sc in enumerate(scs)]
    res = core.run_cases(cases, deadline_ms=60000, shards=4)
    for c, sc in zip(cases, scs):
        out = core.norm_out(res[c["id"]])
        rep.cov["evaluations"] += 1
        if out["how"] in CRASH:
            loc = (res[c["id"]].get("msg") or "").split("|")[0]
            rep.disagree("crash at-the-limit %s %s at %s" % (sc[0].split("~")[0], out["how"], loc),
                         {"src_head": sc[4][:300], "src_len": len(sc[4]), "got": {k: res[c["id"]].get(k) for k in ("how", "msg", "stage")}})


def format_strings(tier):
    """every string over the characters of the format mini-language up to length 4 (thorough: 5) as the format of
    format / println with 0-2 arguments: whatever the string, the call ends in a value or a runtime error"""
    import itertools
    alphabet = "{}:<>05xa "
    out = []
    argsets = [[], [I(7)], [lit(vstr("s")), I(-3)]]
    n = 0
    for k in range(0, (5 if tier == "quick" else 6)):
        for t in itertools.product(alphabet, repeat=k):
            text = "".join(t)
            args = argsets[n % 3]
            fn_ = "format" if n % 5 else "eprint"
            out.append(("format-string len=%d args=%d via=%s" % (k, len(args), fn_),
                        [OBS_DECL, obs(call(fn_, lit(vstr(text)), *args))]))
            n += 1
    return out


def machine_model_check(rep, its):
    """spec level: TLC runs the bytecode machine of spec/VM.tla by itself (spec/MC_VM.tla) on what the real compiler
    emitted for these programs: no reachable state lacks a defined step (the real VM would index out of bounds there),
    no instruction pops an empty stack, frames nest, a normal end leaves the stack empty; deadlock checking on"""
    from .. import vmrun, vmtrace
    widths, _ = vmtrace.real_widths()
    sub = [{"id": it["id"], "prog": it["prog"], "tag": it["tag"]} for it in its]
    recs = vmrun.record(sub, widths, with_prog=False, max_events=1500)
    bad, pid, res = vmrun.model_check(recs)
    rep.add_tlc(res)
    rep.notes["machine_model_checked_programs"] = len(recs)
    rep.notes["machine_model_states"] = res.get("states", 0)
    if bad:
        it = [x for x in sub if x["id"] == pid]
        rep.disagree("machine-model %s" % bad, {"invariant": bad, "src": it[0]["src"] if it else None,
                                                  "tlc_tail": "\n".join(res["out"].splitlines()[-60:])})


FILTER_PROGS = [
    ("rterror-in-pattern", "@ 1 / 0 == 1 { eprintln(\"A\"); }\n", "rterror"),
    ("rterror-in-action", "@ true { let x = [1][5]; }\n", "rterror"),
    ("rterror-in-end", "@ true { }\n@ end { 1 % 0; }\n", "rterror"),
    ("break-in-action", "@ true { break; }\n", "terminal"),
    ("continue-in-action", "@ true { continue; }\n", "terminal"),
    ("return-in-action", "@ true { return 1; }\n", "terminal"),
    ("loop-break-in-action", "@ true { let i = 0; while true { i = i + 1; if i > 3 { break; } } }\n", "clean"),
    ("filter-in-function", "fn f() { @ true { eprintln(\"in f\"); } }\nf();\n", "terminal"),
    ("filter-in-block", "{ @ true { eprintln(\"in block\"); } }\n", "terminal"),
    ("filter-in-loop", "let i = 0; while i < 3 { i = i + 1; @ true { eprintln(i); } }\n", "terminal"),
    ("non-boolean-pattern", "@ 5\n", "terminal"),
    ("null-pattern", "@ null\n", "terminal"),
    ("string-pattern-action", "@ \"x\" { eprintln(\"hit\"); }\n", "clean"),
    ("pattern-only-true", "@ true\n", "clean"),
    ("many-locals-action", "@ true { " + " ".join("let v%d = %d;" % (i, i) for i in range(300)) + " }\n", "terminal"),
    ("recursion-in-action", "fn f(n) { f(n + 1) }\n@ true { f(0); }\n", "rterror"),
    ("deep-dollar", "@ true { eprintln($11); }\n", "terminal"),
    ("dollar-beyond", "@ true { eprintln($5.src); }\n", "terminal"),
    ("assign-bad-value", "@ true { $1.ttl = \"x\"; }\n", "terminal"),
    ("closure-in-action", "let fs = [];\n@ true { let k = NP; push(fs, fn() { k }); }\n@ end { eprintln(\"{}\", fs[0]()); }\n", "clean"),
    ("exit-in-action", "@ true { exit(3); }\n", ("status", 3)),
    ("stack-leak-action", "@ true { let i = 0; loop { i = i + 1; if i > 5000 { break; } 1 + (if true { continue; 1 } else { 2 }); } }\n", "terminal"),
]


def filter_matrix():
    """where a filter statement is written x what its pattern / action does: every combination must end in a
    terminal outcome (compile diagnostics, runtime error, exit status) - never a crash"""
    places = {
        "top": "let g0 = 7;\n%s\n",
        "function": "let g0 = 7;\nfn f(a) { let k = 5; %s }\nf(1);\n",
        "function-not-called": "let g0 = 7;\nfn f(a) { let k = 5; %s }\n",
        "block": "let g0 = 7;\n{ let k = 5; let a = 1; %s }\n",
        "loop": "let g0 = 7;\nlet i = 0; while i < 2 { i = i + 1; let k = i; let a = 1; %s }\n",
        "if": "let g0 = 7;\nif true { let k = 5; let a = 1; %s }\n",
        "nested-function": "let g0 = 7;\nfn f(a) { fn g(k) { %s } g(2); }\nf(1);\n",
        "closure": "let g0 = 7;\nlet h = fn(a) { let k = 5; %s };\nh(1);\n",
        "match-arm": "let g0 = 7;\nmatch 1 { 1 => { let k = 5; let a = 1; %s } }\n",
        "filter-action": "let g0 = 7;\n@ true { let k = 5; let a = 1; %s }\n",
    }
    filters = {
        "plain": "@ true { eprintln(\"hit\"); }",
        "pattern-only": "@ true",
        "return": "@ true { return; }",
        "return-value": "@ true { return 1; }",
        "break": "@ true { break; }",
        "continue": "@ true { continue; }",
        "read-param": "@ true { eprintln(\"{}\", a); }",
        "read-local": "@ true { eprintln(\"{}\", k); }",
        "read-global": "@ true { eprintln(\"{}\", g0); }",
        "pattern-reads-param": "@ a == 1 { eprintln(\"hit\"); }",
        "pattern-reads-local": "@ k > 0",
        "write-local": "@ true { k = 9; }",
        "write-global": "@ true { g0 = g0 + 1; }",
        "closure-over-action-local": "@ true { let z = NP; let c = fn() { z }; eprintln(\"{}\", c()); }",
        "closure-over-param": "@ true { let c = fn() { a }; eprintln(\"{}\", c()); }",
        "rterror": "@ true { let x = [1][5]; }",
        "exit": "@ true { exit(3); }",
        "end": "@ end { eprintln(\"{}\", NP); }",
        "end-reads-local": "@ end { eprintln(\"{}\", k); }",
        "end-return": "@ end { return 2; }",
        "recursive-call": "@ true { f(0); }",
        "packet-field": "@ $1.type == 2048 { $2.ttl = 1; }",
        "loop-in-action": "@ true { let i = 0; while i < 3 { i = i + 1; if i == 2 { continue; } } }",
    }
    out = []
    for pn, pt in places.items():
        for fname, ft in filters.items():
            out.append(("matrix place=%s filter=%s" % (pn, fname), pt % ft, "terminal"))
    return out


def packet_totality(rep, tier, rnd):
    """structure-aware random frames, cut at every layer boundary +-1 and inside every header, through filter mode with a
    program that touches, prints and writes every layer: no frame makes the interpreter crash"""
    from .. import pkt
    frames = []
    for _ in range(60 if tier == "quick" else 600):
        frame, layers = pkt.build_frame(rnd)
        for cut in sorted(pkt.truncations(frame, layers)):
            frames.append(frame[:cut])
    progs_ = {
        "print-layers": '@ true { eprintln("{} {} {} {} {}", $0, $1, $2, $3, $4); }\n',
        "print-reverse": '@ true { eprintln("{}", $4); eprintln("{}", $3); eprintln("{}", $2); eprintln("{}", $1); }\n',
        "touch-then-write": "@ $3 != 0 || true\n",
        "named-paths": '@ true { let e = $1; eprintln("{} {} {}", e.ipv4, e.ipv6, e.vlan); let i = e.ipv4; '
                       'if i != null && !is_error(i) { eprintln("{} {} {}", i.tcp, i.udp, i.payload); } }\n@ true\n',
        "payloads": '@ true { let a = $2; if a != null && !is_error(a) { eprintln("{}", len(a.payload)); } '
                    'let b = $3; if b != null && !is_error(b) { eprintln("{}", len(b.payload)); } }\n@ true\n',
    }
    jobs = []
    tags = []
    per = 150
    for name, src in progs_.items():
        for k in range(0, len(frames), per):
            cap = pcapfmt.pcap_file(frames[k:k + per])
            jobs.append((["-c", src], cap))
            tags.append("%s frames %d-%d" % (name, k, k + per))
    n = 0
    for tag, (args, cap), r in zip(tags, jobs, e2e.run_many(jobs)):
        n += 1
        rep.cov["evaluations"] += 1
        if r["how"] != "exit":
            loc = ""
            import re as _re
            m = _re.search(rb"panicked at ([^\n]*)", r["err"])
            if m:
                loc = m.group(1).decode("utf8", "replace")[:80]
            rep.disagree("e2e packet-totality %s %s %s" % (tag.split(" ")[0], r["how"], loc),
                         {"program": args[1], "frames": tag, "stderr": r["err"].decode("utf8", "replace")[-400:]})
    rep.notes["packet_totality_frames"] = len(frames)
    return n


def end_to_end(rep, tier, rnd):
    core.build_binary()
    frames = [pcapfmt.simple_tcp_frame(b"x" * n) for n in (0, 1, 40)]
    cap = pcapfmt.pcap_file(frames)
    jobs = []
    recs = []

    def add(tag, args, stdin, want):
        jobs.append((args, stdin))
        if isinstance(want, tuple):
            w = {"kind": want[0], "rc": want[1]}
        else:
            w = {"kind": want, "rc": 0}
        recs.append({"id": len(recs), "tag": tag, "want": w})

    for n in (0, 1, 3, 255, 256, -1, 1000):
        add("exit(%d)" % n, ["-c", "exit(%d);" % n if n >= 0 else "exit(0 - %d);" % -n], b"", ("status", n % 256))
    add("exit-in-fn", ["-c", "fn f() { exit(7); } f(); puts(1);"], b"", ("status", 7))
    add("exit-wrong-kind", ["-c", "exit(\"a\"); puts(1);"], b"", "rterror")
    add("overflow-then-echo", ["-c", "let i = 0; loop { i = i + 1; 1 + (if true { continue; 1 } else { 2 }); }"], b"", "rterror")
    add("rterror-exits-normally", ["-c", "1 / 0"], b"", "rterror")
    matrix = filter_matrix()
    for tag, src, want in matrix:
        add("filter %s" % tag, ["-s", "-c", src], cap, want)
    for tag, src, want in FILTER_PROGS:
        for skip in (False, True):
            add("filter %s%s" % (tag, " -s" if skip else ""), (["-s"] if skip else []) + ["-c", src], cap, want)
        add("filter %s empty-input" % tag, ["-c", src], pcapfmt.pcap_file([]), "terminal")
        add("filter %s garbage-input" % tag, ["-c", src], b"not a pcap at all", "terminal")
        add("filter %s no-input" % tag, ["-c", src], b"", "terminal")
    results = e2e.run_many(jobs)
    # a standard output that fails (full device, reader gone) is an input like any other: no builtin that prints, and
    # no echo of a final value, may abort the interpreter over it
    printers = {"puts": 'puts("x"); puts(1, [2], "s"); puts();', "print": 'print("a{}", 1); println("b"); println("{:>4}", 7);',
                "write-stdout": 'write(stdout, "abc"); write(stdout, byte(65)); write(stdout, [byte(66), byte(10)]); write(stdout, "0123456789" * 500);',
                "echo-final-value": '"a final value"', "flush": 'print("pending"); flush(stdout); 5',
                "loop-of-puts": 'let i = 0; while i < 3000 { i = i + 1; puts(i); }',
                "filter-mode-output": '@ true'}
    import os
    import shutil
    import tempfile
    wd = core.workdir("c08s")
    for name, src in printers.items():
        for sink in ("full", "closed"):
            for mode in ("-c", "file"):
                if mode == "file":
                    fd, path = tempfile.mkstemp(suffix=".p2", dir=wd)
                    os.write(fd, src.encode())
                    os.close(fd)
                    args = [path]
                else:
                    args = ["-c", src]
                r = e2e.run_bin_failing_stdout(args, sink, stdin=cap if name == "filter-mode-output" else b"")
                rep.cov["evaluations"] += 1
                if r["how"] != "exit":
                    rep.disagree("e2e stdout-failure %s %s want=terminal got=%s rc=%s" % (name, "closed-pipe" if sink == "closed" else "full-device", r["how"], r["rc"]),
                                 {"args": args, "mode": mode, "stderr": r["err"].decode("utf8", "replace")[:300]})
    shutil.rmtree(wd, ignore_errors=True)
    for r, res in zip(recs, results):
        r["out"] = {"how": res["how"], "rc": res["rc"] if res["rc"] is not None else -1,
                    "rterr": b"Runtime error" in res["err"]}
        r["stderr"] = res["err"].decode("utf8", "replace")[:300]
    verdicts, tres = core.tlc_validate("Total", [{"id": r["id"], "want": r["want"], "out": r["out"]} for r in recs],
                                       workers=4)
    rep.add_tlc(tres)
    rep.cov["traces_validated_against_impl"] += len(recs)
    rep.cov["evaluations"] += len(recs)
    for r, j in zip(recs, jobs):
        if verdicts[r["id"]]["v"] == "bad":
            rep.disagree("e2e %s want=%s got=%s rc=%s" % (r["tag"], r["want"]["kind"], r["out"]["how"], r["out"]["rc"]),
                         {"args": j[0], "out": r["out"], "stderr": r["stderr"]})
    return len(recs)


def replay(rep, path):
    print(json.dumps(json.load(open(path)), indent=1)[:6000])
