"""C16 - header accessors decode the RFC-defined fields and layers.

Random structure-aware frames (every truncation class) x random reads (named paths and $n,
along the structure and astray, scalar fields, addresses, payload, layer objects), and field
tables: every scalar field x boundary and walking-one values (all values for fields of at
most 8 bits) embedded in all-zero, all-one and alternating surroundings; all dispatch values
around the supported EtherTypes / protocols / next headers; $0..$11.  Each script runs through
the real interpreter; spec/PacketTrace.tla validates every value against the layouts of
spec/Packet.tla (pcap record header, Ethernet, 802.1Q, RFC 791 / 8200 / 9293 / 768), the
addresses through the reference parsers of spec/Addr.tla."""
import json
import random
import shutil
import struct

from .. import core, pkt, pcapfmt
from .c15 import make_items

PROP = "C16"

BASE_PATH = {"eth": ["eth"], "vlan": ["eth", "vlan"], "ipv4": ["eth", "ipv4"], "ipv6": ["eth", "ipv6"],
             "tcp": ["eth", "ipv4", "tcp"], "udp": ["eth", "ipv4", "udp"]}
HDR_OFF = {"eth": 0, "vlan": 14, "ipv4": 14, "ipv6": 14, "tcp": 34, "udp": 34}
# (byte offset in header, bit offset, width)
FIELD_POS = {("eth", "type"): (12, 0, 16), ("vlan", "priority"): (0, 0, 3), ("vlan", "dei"): (0, 3, 1), ("vlan", "id"): (0, 4, 12),
             ("vlan", "type"): (2, 0, 16), ("ipv4", "version"): (0, 0, 4), ("ipv4", "ihl"): (0, 4, 4), ("ipv4", "dscp"): (1, 0, 6),
             ("ipv4", "ecn"): (1, 6, 2), ("ipv4", "totlen"): (2, 0, 16), ("ipv4", "id"): (4, 0, 16), ("ipv4", "flags"): (6, 0, 3),
             ("ipv4", "fragoff"): (6, 3, 13), ("ipv4", "ttl"): (8, 0, 8), ("ipv4", "proto"): (9, 0, 8), ("ipv4", "checksum"): (10, 0, 16),
             ("ipv6", "version"): (0, 0, 4), ("ipv6", "trafficclass"): (0, 4, 8), ("ipv6", "flowlabel"): (1, 4, 20),
             ("ipv6", "len"): (4, 0, 16), ("ipv6", "nextheader"): (6, 0, 8), ("ipv6", "hoplimit"): (7, 0, 8),
             ("tcp", "srcport"): (0, 0, 16), ("tcp", "dstport"): (2, 0, 16), ("tcp", "seq"): (4, 0, 32), ("tcp", "ack"): (8, 0, 32),
             ("tcp", "dataoff"): (12, 0, 4), ("tcp", "len"): (12, 0, 4), ("tcp", "flags"): (13, 0, 8), ("tcp", "winsize"): (14, 0, 16),
             ("tcp", "checksum"): (16, 0, 16), ("tcp", "urgent"): (18, 0, 16), ("udp", "srcport"): (0, 0, 16),
             ("udp", "dstport"): (2, 0, 16), ("udp", "len"): (4, 0, 16), ("udp", "checksum"): (6, 0, 16)}


def base_frame(kind, fill):
    """a frame whose bytes are all `fill` pattern except the selectors needed to reach `kind`"""
    n = 80
    if fill == "zeros":
        b = bytearray(n)
    elif fill == "ones":
        b = bytearray([255] * n)
    else:
        b = bytearray([0xAA if i % 2 == 0 else 0x55 for i in range(n)])
    if kind == "vlan":
        b[12:14] = struct.pack(">H", 0x8100)
        b[16:18] = struct.pack(">H", 0x0800)
    elif kind in ("ipv4", "tcp", "udp"):
        b[12:14] = struct.pack(">H", 0x0800)
        b[14] = (b[14] & 0xF0) | 5
        if kind == "tcp":
            b[23] = 6
            b[34 + 12] = (5 << 4) | (b[34 + 12] & 15)
        if kind == "udp":
            b[23] = 17
    elif kind == "ipv6":
        b[12:14] = struct.pack(">H", 0x86DD)
    return b


def set_bits(b, off, bit, width, v):
    nbytes = (bit + width + 7) // 8
    win = int.from_bytes(b[off:off + nbytes], "big")
    shift = nbytes * 8 - bit - width
    mask = ((1 << width) - 1) << shift
    win = (win & ~mask) | ((v << shift) & mask)
    b[off:off + nbytes] = win.to_bytes(nbytes, "big")


def field_values(width, tier):
    if width <= 8 or (tier == "thorough" and width <= 12):
        return list(range(1 << width))
    vs = {0, 1, 2, (1 << width) - 1, (1 << width) - 2, 1 << (width - 1), (1 << (width - 1)) - 1, 0x5555 & ((1 << width) - 1),
          0xAAAA & ((1 << width) - 1), 255, 256, 257}
    for i in range(width):
        vs.add(1 << i)
        vs.add(((1 << width) - 1) ^ (1 << i))
    return sorted(v for v in vs if v < (1 << width))


def table_items(tier, start_id):
    items = []
    for (kind, prop), (o, bit, w) in FIELD_POS.items():
        for fill in ("zeros", "ones", "alt"):
            for v in field_values(w, tier):
                # structural fields at values that change the structure are validated by the spec all the same
                b = base_frame(kind, fill)
                set_bits(b, HDR_OFF[kind] + o, bit, w, v)
                path = [{"t": "name", "n": n} for n in BASE_PATH[kind]]
                hist = [{"op": "read", "path": path, "prop": prop}]
                raw = bytes(b)
                items.append({"id": start_id + len(items), "hdr": struct.pack("<IIII", 1, 2, len(raw), len(raw)), "raw": raw,
                              "hist": hist, "via_dollar": False, "tag": "field %s.%s %s" % (kind, prop, fill), "check": ["read"]})
    # dispatch tables
    for et in (0x0800, 0x0801, 0x07FF, 0x8100, 0x8101, 0x9100, 0x86DD, 0x86DC, 0x0806, 0, 0xFFFF, 0x88A8):
        for nm in ("vlan", "ipv4", "ipv6"):
            b = base_frame("eth", "alt")
            b[12:14] = struct.pack(">H", et)
            raw = bytes(b)
            hist = [{"op": "read", "path": [{"t": "name", "n": "eth"}, {"t": "name", "n": nm}], "prop": ""},
                    {"op": "read", "path": [{"t": "dollar", "n": 2}], "prop": ""}]
            items.append({"id": start_id + len(items), "hdr": struct.pack("<IIII", 1, 2, len(raw), len(raw)), "raw": raw,
                          "hist": hist, "via_dollar": True, "tag": "dispatch ethertype=%#x .%s" % (et, nm), "check": ["read"]})
    for proto in (6, 17, 41, 0, 1, 5, 7, 16, 18, 40, 42, 255):
        for l3 in ("ipv4", "ipv6"):
            for nm in ("tcp", "udp", "ipv6"):
                if l3 == "ipv6" and nm == "ipv6":
                    continue
                b = base_frame(l3, "zeros")
                if l3 == "ipv4":
                    b[23] = proto
                else:
                    b[14 + 6] = proto
                raw = bytes(b)
                hist = [{"op": "read", "path": [{"t": "name", "n": "eth"}, {"t": "name", "n": l3}, {"t": "name", "n": nm}], "prop": ""},
                        {"op": "read", "path": [{"t": "dollar", "n": 3}], "prop": ""}]
                items.append({"id": start_id + len(items), "hdr": struct.pack("<IIII", 1, 2, len(raw), len(raw)), "raw": raw,
                              "hist": hist, "via_dollar": True, "tag": "dispatch %s proto=%d .%s" % (l3, proto, nm), "check": ["read"]})
    # $0 .. $11 on stacks of different depth
    for shape in ((0, "ipv4"), (2, "ipv4"), (1, "ipv6"), (0, "other"), (2, "qinq")):
        rnd = random.Random(7)
        frame, layers = pkt.build_frame(rnd, shape=shape)
        hist = [{"op": "read", "path": [{"t": "dollar", "n": n}], "prop": ""} for n in range(0, 12)]
        items.append({"id": start_id + len(items), "hdr": struct.pack("<IIII", 1, 2, len(frame), len(frame)), "raw": frame,
                      "hist": hist, "via_dollar": True, "tag": "dollar 0..11 vlan=%d l3=%s" % shape, "check": ["read"]})
    # pcap record header fields incl. values above 2^31 and the documented aliases
    for sec, sub in ((0, 0), (0x7FFFFFFF, 999999), (0x80000000, 0xFFFFFFFF), (0xFFFFFFFF, 1), (123456789, 987654321)):
        raw = bytes(base_frame("eth", "alt"))
        hist = [{"op": "read", "path": [], "prop": p} for p in ("sec", "usec", "nsec", "caplen", "wirelen")]
        items.append({"id": start_id + len(items), "hdr": struct.pack("<IIII", sec, sub, len(raw), 0xFFFFFFF0), "raw": raw,
                      "hist": hist, "via_dollar": False, "tag": "record-header", "check": ["read"]})
    raw = bytes(base_frame("eth", "alt"))
    items.append({"id": start_id + len(items), "hdr": struct.pack("<IIII", 5, 6, len(raw), len(raw)), "raw": raw,
                  "hist": [{"op": "read", "path": [], "prop": "msec"}], "via_dollar": False, "tag": "record-header msec (documented name)",
                  "check": ["read"]})
    return items


def capture_header_fields(rep, tier, rnd, d):
    """the seven properties of the pcap object against the 24 bytes of the global header (spec/PcapHdrTrace.tla):
    boundary and random values of every field, microsecond and nanosecond magic (little-endian files: the only kind
    the reader accepts)"""
    import os
    bounds32 = [0, 1, 6, 255, 256, 65535, 65536, 262144, 0x7fffffff, 0x80000000, 0xfffffffe, 0xffffffff]
    bounds16 = [0, 1, 2, 4, 255, 256, 0x7fff, 0x8000, 0xffff]
    zones = [0, 1, -1, -3600, 19800, -43200, 0x7fffffff, -0x80000000, -0x7fffffff]
    hdrs = []
    for z in zones:
        hdrs.append(dict(thiszone=z))
    for v in bounds32:
        hdrs += [dict(sigfigs=v), dict(snaplen=v), dict(linktype=v)]
    for v in bounds16:
        hdrs += [dict(vmaj=v), dict(vmin=v)]
    for _ in range(40 if tier == "quick" else 600):
        hdrs.append(dict(vmaj=rnd.randrange(65536), vmin=rnd.randrange(65536), thiszone=rnd.randrange(-2 ** 31, 2 ** 31),
                         sigfigs=rnd.randrange(2 ** 32), snaplen=rnd.randrange(2 ** 32), linktype=rnd.randrange(2 ** 32)))
    cases = []
    raws = []
    names = ["magic", "major", "minor", "thiszone", "sigfigs", "snaplen", "linktype"]
    for k, h in enumerate(hdrs):
        h = dict(h)
        h["magic"] = 0xa1b23c4d if k % 3 == 2 else 0xa1b2c3d4
        raw = pcapfmt.global_header(**h)
        path = os.path.join(d, "gh%d.pcap" % k)
        # (every other file also holds a record: the header is the same object either way)
        open(path, "wb").write(raw + (pcapfmt.record(pcapfmt.simple_tcp_frame()) if k % 2 else b""))
        src = "let OBS = [];\nlet f = pcap_open(\"%s\");\n" % path + "".join("push(OBS, f.%s);\n" % n for n in names)
        cases.append({"id": "gh%d" % k, "src": src})
        raws.append(raw)
    res = core.run_cases(cases)
    recs = []
    for c, raw in zip(cases, raws):
        r = res[c["id"]]
        obs = {}
        vals = ((r.get("obs") or {}).get("v") or [])
        for i, n in enumerate(names):
            o = vals[i] if i < len(vals) else {"k": "missing"}
            if o.get("k") == "int":
                word = int.from_bytes(bytes(o["v"]), "little", signed=True)
                obs[n] = {"k": "int", "neg": word < 0, "mag": list(abs(word).to_bytes(9, "little"))[:8]}
            else:
                obs[n] = {"k": o.get("k", "missing"), "neg": False, "mag": []}
        recs.append({"id": c["id"], "raw": list(raw), "obs": obs, "how": r.get("how")})
    verdicts, tres = core.tlc_validate("PcapHdrTrace", recs, workers=2)
    rep.add_tlc(tres)
    rep.cov["traces_validated_against_impl"] += len(recs)
    rep.cov["evaluations"] += len(recs) * len(names)
    for c, raw, rec in zip(cases, raws, recs):
        v = verdicts[c["id"]]
        if v["v"] == "bad":
            rep.disagree("decode capture-header %s got=%s" % (v["first"], rec["obs"][v["first"]]["k"] if v["first"] else rec["how"]),
                         {"header_hex": raw.hex(), "field": v["first"], "observed": res[c["id"]].get("obs"), "how": rec["how"],
                          "msg": res[c["id"]].get("msg")})
    return len(recs)


def run(rep, tier, seed):
    core.build_harness()
    rnd = random.Random(seed)
    d = core.workdir("c16")
    try:
        nhdr = capture_header_fields(rep, tier, rnd, d)
        items = make_items(rnd, 5000 if tier == "quick" else 30000, every_offset=False, checks=("read",))
        for it in items:
            it["tag"] = "random " + "/".join(k for k, _ in it["layers"])
            it["hist"] = [h for h in it["hist"] if h["op"] == "read"]
        items += table_items(tier, len(items))
        recs = pkt.run_histories(items, d)
        for it, r in zip(items, recs):
            r["check"] = it["check"]
        verdicts, tres = core.tlc_validate("PacketTrace", recs, timeout=2400)
        rep.add_tlc(tres)
        rep.cov["traces_validated_against_impl"] += len(recs)
        rep.cov["evaluations"] += sum(len(it["steps"]) for it in items)
        free = 0
        for it in items:
            v = verdicts[it["id"]]
            if v["v"] == "bad":
                st = it["steps"][v["at"] - 1]
                desc = pkt.describe_step(st)
                got = st.get("res", {})
                if it["tag"].startswith("random"):
                    kinds = it["tag"].split(" ")[1]
                    last = (st["path"][-1]["n"] if st["path"] and st["path"][-1]["t"] == "name" else "$") if st["path"] else "pkt"
                    sig = "decode random layer=%s prop=%s got=%s" % (last, st["prop"] or "<layer>", got.get("k"))
                else:
                    sig = "decode %s got=%s" % (it["tag"], got.get("k"))
                rep.disagree(sig, {"step": desc, "frame_hex": bytes(it["raw"]).hex(), "got": got, "script": it["src"],
                                   "run": it["run"], "why": v["why"]})
        rep.cov["distinct_nontrivial"] = len({(it["tag"], bytes(it["raw"])) for it in items}) + nhdr
        rep.cov["rule"] = ("random structure-aware frames x truncations x random reads; field tables: 36 scalar fields x "
                           "(all values up to 8 bits [thorough 12], boundary + walking-one/zero otherwise) x 3 surroundings; "
                           "dispatch values around every supported selector for named and $n access; $0..$11; record-header "
                           "fields above 2^31 and documented aliases; the seven properties of the pcap object over boundary and random "
                           "global headers (spec/PcapHdrTrace.tla); distinct = distinct (case tag, frame)")
        rep.cov["exhaustive"] = False
        rep.sample({"frame_hex": bytes(items[-1]["raw"]).hex(), "script": items[-1]["src"], "steps": items[-1]["steps"]})
    finally:
        shutil.rmtree(d, ignore_errors=True)


def replay(rep, path):
    print(json.dumps(json.load(open(path)), indent=1)[:6000])
