"""C20 - filter mode emits exactly the selected packets with correct per-packet state.

Spec level: spec/FilterMode.tla (the stream loop as a deterministic step function over main /
header / packet / filter / end phases) is model-checked over a library of filter programs x 0-3
packets x -s (MainOnceFirst, Ordered, VarsMatchRecord, EndOnceLast, OutputShape, WritesBounded,
termination; 14 k states).  Conformance (I->S): random pcap streams (0-40 packets, both magics,
varied snaplen / linktype / version / zone) x generated filter programs in the same vocabulary
(patterns over NP, PL, WL, TSS, TSU, a global counter, $1.type, $2.ttl; actions that bump the
counter, assign $2.ttl, define a local; several filters; with and without end; with and without
-s) run through the real binary; stderr probes and stdout bytes are validated by
spec/FilterTrace.tla against the machine's run."""
import json
import random
import struct

from .. import core, tlcrun, e2e, pcapfmt

PROP = "C20"


def rand_pat(rnd):
    r = rnd.random()
    if r < 0.12:
        return {"t": "true"}
    if r < 0.2:
        return {"t": "false"}
    if r < 0.35:
        m = rnd.choice([2, 3])
        return {"t": "npmod", "m": m, "r": rnd.randrange(m)}
    if r < 0.6:
        v = rnd.choice(["NP", "PL", "WL", "TSS", "TSU", "cnt"])
        k = {"NP": rnd.randint(0, 6), "PL": rnd.choice([34, 40, 50, 60]), "WL": rnd.choice([34, 60, 100, 1000]),
             "TSS": rnd.choice([0, 10, 1000]), "TSU": rnd.choice([0, 500000]), "cnt": rnd.randint(0, 4)}[v]
        return {"t": "cmp", "v": v, "op": rnd.choice(["<", ">=", "==", ">"]), "k": k}
    if r < 0.75:
        return {"t": "ethtype", "k": rnd.choice([2048, 2048, 34525])}
    return {"t": "ttl", "op": rnd.choice(["<", ">=", "=="]), "k": rnd.choice([9, 64, 100])}


def rand_prog(rnd):
    fs = []
    for _ in range(rnd.choice([0, 1, 1, 2, 2, 3, 4])):
        r = rnd.random()
        if r < 0.4:
            act = {"t": "none"}
            pat = rand_pat(rnd)
        else:
            act = rnd.choice([{"t": "count"}, {"t": "setttl", "k": rnd.choice([9, 64, 255, 0])}, {"t": "local"}])
            pat = rand_pat(rnd) if rnd.random() < 0.8 else {"t": "none"}
        fs.append({"pat": pat, "act": act, "style": rnd.randrange(4)})
    if fs and rnd.random() < 0.2:
        # a pattern that is not a boolean - only in the last filter (see spec/FilterMode.tla)
        fs[-1]["pat"] = rnd.choice([{"t": "npint", "m": rnd.choice([2, 3])}, {"t": "cntval"}])
    has_end = rnd.random() < 0.6
    if not fs and not has_end:
        has_end = True          # without any filter the program is an ordinary script, not filter mode
    return {"filters": fs, "hasEnd": has_end}


def pat_src(p):
    t = p["t"]
    if t == "none":
        return ""
    if t in ("true", "false"):
        return t
    if t == "npmod":
        return "NP %% %d == %d" % (p["m"], p["r"])
    if t == "cmp":
        return "%s %s %d" % (p["v"], p["op"], p["k"])
    if t == "npint":
        return "NP %% %d" % p["m"]
    if t == "cntval":
        return "cnt"
    if t == "ethtype":
        return "($1).type == %d" % p["k"]
    return "($2).ttl %s %d" % (p["op"], p["k"])


def prog_src(prog, skip=False):
    src = "let cnt = 0;\neprintln(\"MAIN\");\n"
    for j, f in enumerate(prog["filters"], 1):
        pat = pat_src(f["pat"])
        a = f["act"]["t"]
        probe = 'eprintln("A {} {} {} {} {} {} {}", %d, NP, PL, WL, TSS, TSU, cnt);' % j
        if a == "none":
            src += "@ %s\n" % pat
        elif a == "count":
            # with -s stdout carries only what the program prints: make it print something.
            # The same action is written in several equivalent ways: with locals (more of them than the program has
            # globals), in nested blocks, through a function - what it does to cnt is the same
            bump = ["cnt = cnt + 1;",
                    "let a = PL; let b = WL; let c = a + b; cnt = cnt + 1 + c - a - b;",
                    "let a = NP; { let b = a + 1; { let c = b + 1; cnt = cnt + c - a - 1; } }",
                    "let a = TSS; let b = TSU; let g = fn(x, y) { let z = x + y; z - y }; cnt = g(cnt + 1, a + b);"][f.get("style", 0)]
            src += "@ %s { %s %s%s }\n" % (pat, bump, probe, ' println("T");' if skip else "")
        elif a == "setttl":
            src += "@ %s { ($2).ttl = %d; %s }\n" % (pat, f["act"]["k"], probe)
        else:
            extra = ["", "let l2 = PL; let l3 = WL; let l4 = l2 + l3; "][f.get("style", 0) % 2]
            locx = ["loc", "loc + l4 - l2 - l3"][f.get("style", 0) % 2]
            src += '@ %s { let loc = NP * 2; %seprintln("A {} {} {} {} {} {} {} {}", %d, NP, PL, WL, TSS, TSU, cnt, %s); }\n' % (pat, extra, j, locx)
    if prog["hasEnd"]:
        src += '@ end { eprintln("END {} {}", NP, cnt); }\n'
    return src


def rand_stream(rnd):
    n = rnd.choice([0, 0, 1, 2, 3, 5, 8, rnd.randint(0, 40)])
    pk = []
    for i in range(n):
        # mostly small frames; some large ones full of line-feed bytes (standard output is a line-buffered stream)
        psize = rnd.choice([0, 6, 16, 26, 0, 6, 16, 26, 1100, 1460])
        if psize > 1000:
            # line feeds in different places: everywhere, one early with a long run without any behind it, one in the middle
            style = rnd.randrange(3)
            nolf = lambda: rnd.choice([0, 1, 9, 11, 65, 255, rnd.randrange(11, 256)])
            if style == 0:
                payload = bytes(rnd.choice([10, 10, rnd.randrange(256)]) for _ in range(psize))
            elif style == 1:
                payload = bytes([nolf(), 10]) + bytes(nolf() for _ in range(psize - 2))
            else:
                payload = bytes(nolf() for _ in range(psize // 2)) + b"\n" + bytes(nolf() for _ in range(psize - psize // 2 - 1))
        else:
            payload = bytes(rnd.randrange(256) for _ in range(psize))
        ip = pcapfmt.ipv4(payload_len=len(payload), ttl=rnd.choice([9, 64, 100, 255, 1]), proto=rnd.choice([6, 17, 1]))
        et = 0x0800     # FilterMode.tla reads $2 as IPv4
        raw = pcapfmt.eth(etype=et) + ip + payload
        hdr = struct.pack("<IIII", rnd.choice([0, 5, 10, 1000, 2000000000]), rnd.randrange(1000000), len(raw),
                          rnd.choice([len(raw), len(raw) + rnd.randrange(1500)]))
        pk.append({"hdr": hdr, "raw": raw})
    # a capture made with a small snaplen holds packets of exactly that captured length
    longest = max([len(p["raw"]) for p in pk] or [0])
    snap = rnd.choice([x for x in (65535, 262144, 1500, 96) if x >= longest])
    if pk and rnd.random() < 0.35:
        snap = longest
    gh = pcapfmt.global_header(magic=rnd.choice([pcapfmt.MAGIC_US, pcapfmt.MAGIC_NS]), vmaj=rnd.choice([2, 2, 1]), vmin=rnd.choice([4, 4, 0]),
                               thiszone=rnd.choice([0, 0, -3600]), sigfigs=rnd.choice([0, 6]), snaplen=snap,
                               linktype=rnd.choice([1, 1, 1, 101]))
    return gh, pk


def run(rep, tier, seed):
    core.build_binary()
    mc = tlcrun.require_ok(tlcrun.run_tlc("MC_FilterMode", workers=core.TLC_WORKERS, timeout=900), "MC_FilterMode")
    rep.add_tlc(mc)
    rnd = random.Random(seed)
    jobs = []
    metas = []
    for i in range(2400 if tier == "quick" else 15000):
        prog = rand_prog(rnd)
        gh, pk = rand_stream(rnd)
        skip = rnd.random() < 0.25
        stdin = gh + b"".join(p["hdr"] + p["raw"] for p in pk)
        src = prog_src(prog, skip)
        jobs.append(((["-s"] if skip else []) + ["-c", src], stdin))
        metas.append({"prog": prog, "gh": gh, "pk": pk, "skip": skip, "src": src})
    res = e2e.run_many(jobs)
    recs = []
    for i, (m, r) in enumerate(zip(metas, res)):
        log = []
        bad_line = None
        for line in r["err"].decode("utf8", "replace").splitlines():
            parts = line.split()
            if not parts:
                continue
            if parts[0] in ("MAIN", "A", "END") and all(p.lstrip("-").isdigit() for p in parts[1:]):
                log.append([parts[0]] + [int(x) for x in parts[1:]])
            elif "filter expression must evaluate to a boolean" in line:
                log.append(["FAULT"])
            else:
                bad_line = line
        out = r["out"]
        if m["skip"]:
            ncount = sum(1 for e in log if e[0] == "A" and m["prog"]["filters"][e[1] - 1]["act"]["t"] == "count") \
                if all(e[0] != "A" or 1 <= e[1] <= len(m["prog"]["filters"]) for e in log) else -1
            out_hdr, out_recs = ([], []) if out == b"T\n" * max(ncount, 0) and ncount >= 0 else ([-1], [])
        else:
            out_hdr = list(out[:24])
            out_recs = []
            # split the records with the expected lengths taken from their own headers
            off = 24
            while off + 16 <= len(out):
                cap = struct.unpack("<I", out[off + 8:off + 12])[0]
                out_recs.append(list(out[off:off + 16 + cap]))
                off += 16 + cap
            if off != len(out):
                out_recs.append([-1])
        m["observed"] = {"log": log, "how": r["how"], "stray_stderr": bad_line}
        if r["how"] != "exit" or bad_line is not None:
            log = log + [["CRASH-OR-STRAY"]]
        recs.append({"id": i, "cfg": {"prog": m["prog"], "in": [{"hdr": list(p["hdr"]), "raw": list(p["raw"])} for p in m["pk"]],
                                      "inhdr": list(m["gh"]), "skip": m["skip"]},
                     "log": log, "outHdr": out_hdr, "out": out_recs})
    verdicts, tres = core.tlc_validate("FilterTrace", recs, timeout=2400)
    rep.add_tlc(tres)
    rep.cov["traces_validated_against_impl"] += len(recs)
    rep.cov["evaluations"] += len(recs)
    for i, m in enumerate(metas):
        v = verdicts[i]
        if v["v"] == "bad":
            shape = ",".join("%s/%s" % (f["pat"]["t"], f["act"]["t"]) for f in m["prog"]["filters"])
            sig = "filter-mode %s%s (%s)" % (v["why"], " -s" if m["skip"] else "", shape if len(shape) < 60 else shape[:60])
            rep.disagree(sig, {"program": m["src"], "packets": len(m["pk"]), "observed": m["observed"], "expected": v.get("want"),
                               "input_header_hex": m["gh"].hex()})
    rep.cov["distinct_nontrivial"] = len({(m["src"], len(m["pk"]), m["skip"]) for m in metas if m["prog"]["filters"] or m["prog"]["hasEnd"]})
    rep.cov["rule"] = ("random streams (0-40 Ethernet/IPv4 packets, both magics, snaplen 96..262144 or exactly the longest captured length, linktype 1/101, versions, zone) x "
                       "random programs of 0-4 filters over the FilterMode vocabulary (a fifth ending in a filter whose pattern is not a boolean), with / without end filter and -s; distinct = "
                       "distinct (program, packet count, -s); non-trivial = the program has a filter or an end filter")
    rep.cov["exhaustive"] = False
    rep.sample({"program": metas[0]["src"], "packets": len(metas[0]["pk"]), "observed": metas[0]["observed"]})


def replay(rep, path):
    print(json.dumps(json.load(open(path)), indent=1)[:6000])
