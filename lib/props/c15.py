"""C15 - reading packet fields never alters the bytes written back out.

Structure-aware random frames (Ethernet, 0-2 VLAN tags, QinQ, IPv4 with every IHL and options,
IPv6, IPv6-in-IPv4, TCP with every data offset, UDP, unknown EtherTypes / protocols) truncated
at every layer boundary +-1 and inside every header (thorough: every byte offset), combined
with random histories of 1-8 property reads and $n accesses (along the real structure and
astray); after the reads the packet is written with pcap_write and with write(file, packet),
also between reads.  The script runs through the real interpreter; spec/PacketTrace.tla
validates the history: reads leave the state (hdr, raw) unchanged, so every write must be
hdr \\o raw.  Filter-mode output is covered end to end."""
import json
import random
import shutil

from .. import core, pkt, e2e, pcapfmt

PROP = "C15"


def make_items(rnd, n, every_offset=False, checks=("write",)):
    items = []
    while len(items) < n:
        frame, layers = pkt.build_frame(rnd)
        cuts = list(range(len(frame) + 1)) if every_offset else pkt.truncations(frame, layers)
        rnd.shuffle(cuts)
        for cut in cuts[:(len(cuts) if every_offset else 6)]:
            raw = frame[:cut]
            via_dollar = rnd.random() < 0.35
            hist = [pkt.rand_read(rnd, layers, dollar=via_dollar) for _ in range(rnd.randint(1, 8))]
            # writes: after the reads (both sinks), sometimes also in between
            if rnd.random() < 0.3:
                hist.insert(rnd.randint(1, len(hist)), {"op": "write", "sink": "pcap_write"})
            hist.append({"op": "write", "sink": "pcap_write"})
            hist.append({"op": "write", "sink": "write"})
            items.append({"id": len(items), "hdr": pkt.record_header(rnd, len(raw), big=rnd.random() < 0.3), "raw": raw,
                          "hist": hist, "via_dollar": via_dollar, "layers": layers, "cut": cut, "check": list(checks)})
            if len(items) >= n:
                break
    return items


def deepest_touched(it):
    d = 0
    for st in it["hist"]:
        if st["op"] == "read":
            p = st["path"]
            d = max(d, p[0]["n"] if p and p[0]["t"] == "dollar" else len(p))
    return d


def run(rep, tier, seed):
    core.build_harness()
    rnd = random.Random(seed)
    d = core.workdir("c15")
    try:
        items = make_items(rnd, 5000 if tier == "quick" else 30000, every_offset=(tier == "thorough"))
        recs = pkt.run_histories(items, d)
        for it, r in zip(items, recs):
            r["check"] = it["check"]
        verdicts, tres = core.tlc_validate("PacketTrace", recs, timeout=1500)
        rep.add_tlc(tres)
        rep.cov["traces_validated_against_impl"] += len(recs)
        rep.cov["evaluations"] += len(recs)
        for it in items:
            v = verdicts[it["id"]]
            if v["v"] == "bad":
                kinds = "/".join(k for k, _ in it["layers"])
                trunc = "full" if it["cut"] >= len(it["raw"]) and it["cut"] == sum(1 for _ in it["raw"]) and False else ""
                # truncation class: which layer's header the cut falls into
                where = "complete"
                for k, off in it["layers"]:
                    if it["cut"] < off + {"eth": 14, "vlan": 4, "ipv4": 20, "ipv6": 40, "tcp": 20, "udp": 8}[k]:
                        where = "cut-in-" + k if it["cut"] > off else "cut-before-" + k
                        break
                step = it["steps"][v["at"] - 1] if 0 < v["at"] <= len(it["steps"]) else {}
                got = step.get("bytes", [])
                want = v.get("want", [])
                if v["why"] == "write":
                    delta = "len%+d" % (len(got) - len(want)) if len(got) != len(want) else "bytes-changed"
                    if got == [-1]:
                        delta = "no-output"
                else:
                    delta = v["why"] + ":" + str(it["run"].get("how"))
                sig = "readonly %s %s touched=%d %s" % (kinds, where, deepest_touched(it), delta)
                rep.disagree(sig, {"script": it["src"], "frame_hex": bytes(it["raw"]).hex(), "violated_step": v["at"],
                                   "why": v["why"], "written_hex": bytes(b for b in got if 0 <= b < 256).hex(),
                                   "expected_hex": bytes(want).hex(), "run": it["run"]})
        nfm = filter_mode(rep, rnd, tier)
        rep.cov["distinct_nontrivial"] = len({(bytes(it["raw"]), it["src"]) for it in items}) + nfm
        rep.cov["rule"] = ("structure-aware random frames x truncation (layer boundaries +-1 and inside headers; thorough: "
                           "every byte offset) x random histories of 1-8 reads ($n and named paths, along the structure "
                           "and astray) with writes through pcap_write and write(file, packet), packet obtained by "
                           "pcap_read_next or as current packet; plus filter-mode runs; distinct = distinct (frame, script); "
                           "non-trivial = at least one read before a write (all)")
        rep.cov["exhaustive"] = False
        rep.sample({"frame_hex": bytes(items[0]["raw"]).hex(), "script": items[0]["src"], "steps": items[0]["steps"][:3]})
    finally:
        shutil.rmtree(d, ignore_errors=True)


def filter_mode(rep, rnd, tier):
    """filter-mode output: a reading filter followed by an action-less `@ true`"""
    core.build_binary()
    jobs = []
    metas = []
    for i in range(150 if tier == "quick" else 2000):
        frame, layers = pkt.build_frame(rnd)
        cuts = pkt.truncations(frame, layers)
        raw = frame[:rnd.choice(cuts)]
        hdr = pkt.record_header(rnd, len(raw))
        reads = [pkt.rand_read(rnd, layers) for _ in range(rnd.randint(1, 5))]
        body = "fn chk(x) { if is_error(x) { \"E\" } else if x == null { \"N\" } else { \"\" } }\nlet OBS = [];\n@ true {\nlet p = $0;\n"
        for j, st in enumerate(reads, 1):
            body += pkt.step_src(j, st) + "\n"
        body += "}\n@ true\n"
        cap = pcapfmt.global_header(snaplen=262144) + hdr + raw
        jobs.append((["-c", body], cap))
        metas.append((hdr, raw, body, layers))
    res = e2e.run_many(jobs)
    recs = []
    for i, ((hdr, raw, body, layers), r) in enumerate(zip(metas, res)):
        out = r["out"]
        written = list(out[24:]) if len(out) >= 24 else [-1]
        how = r["how"]
        steps = [{"op": "write", "path": [], "prop": "", "bytes": written}]
        if how != "exit" or b"Runtime error" in r["err"]:
            # a runtime error in the reading filter (e.g. a property the layer does not have) stops the loop
            # before the packet is written: not a C15 matter unless the interpreter crashed
            if how == "exit":
                continue
            steps = [{"op": "read", "path": [], "prop": "", "res": {"k": how}}]
        recs.append({"id": i, "hdr": list(hdr), "raw": list(raw), "steps": steps, "check": ["write"]})
    if not recs:
        return 0
    verdicts, tres = core.tlc_validate("PacketTrace", recs, timeout=600)
    rep.add_tlc(tres)
    rep.cov["traces_validated_against_impl"] += len(recs)
    rep.cov["evaluations"] += len(recs)
    for r in recs:
        v = verdicts[r["id"]]
        if v["v"] == "bad":
            hdr, raw, body, layers = metas[r["id"]]
            got = r["steps"][0].get("bytes", [])
            want = v.get("want", [])
            delta = ("len%+d" % (len(got) - len(want))) if v["why"] == "write" else v["why"]
            rep.disagree("readonly filter-mode %s %s" % ("/".join(k for k, _ in layers), delta),
                         {"script": body, "frame_hex": bytes(raw).hex()})
    return len(recs)


def replay(rep, path):
    print(json.dumps(json.load(open(path)), indent=1)[:6000])
