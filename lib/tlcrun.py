"""Running TLC (and parsing its statistics)."""
import os
import re
import shutil
import subprocess
import tempfile
import time

VERIF = os.path.dirname(os.path.dirname(os.path.abspath(__file__)))
SPEC = os.path.join(VERIF, "spec")
WORK = os.path.join(VERIF, "work")


class ToolError(Exception):
    pass


def run_tlc(module, cfg=None, workers=8, env=None, timeout=900, simulate=None, depth=None, coverage=False,
            xss="1g", xmx="8g", deque=False, extra=None, seed=None):
    """Runs TLC on spec/<module>.tla with spec/<cfg>.cfg. Returns dict(out, states, distinct, ok, wall)."""
    os.makedirs(WORK, exist_ok=True)
    meta = tempfile.mkdtemp(prefix="tlc_", dir=WORK)
    cfg = cfg or module
    cmd = ["timeout", str(timeout), "tlc", "-workers", str(workers), "-metadir", meta, "-cleanup",
           "-noGenerateSpecTE", "-config", cfg + ".cfg"]
    if coverage:
        cmd += ["-coverage", "1"]
    if simulate:
        cmd += ["-simulate", "num=%d" % simulate]
        if depth:
            cmd += ["-depth", str(depth)]
    if seed is not None and simulate:
        cmd += ["-seed", str(seed)]
    if extra:
        cmd += extra
    cmd += [module + ".tla"]
    e = dict(os.environ)
    opts = "-Xss%s -Xmx%s" % (xss, xmx)
    if deque:
        opts += " -Dtlc2.tool.queue.IStateQueue=StateDeque"
    e["JAVA_TOOL_OPTIONS"] = opts
    if env:
        e.update(env)
    t0 = time.time()
    try:
        p = subprocess.run(cmd, cwd=SPEC, env=e, stdout=subprocess.PIPE, stderr=subprocess.STDOUT, text=True)
    finally:
        shutil.rmtree(meta, ignore_errors=True)
    wall = time.time() - t0
    out = p.stdout
    res = {"out": out, "rc": p.returncode, "wall": wall, "cmd": " ".join(cmd)}
    m = re.search(r"(\d+) states generated, (\d+) distinct states found", out)
    if m:
        res["states"] = int(m.group(2))
        res["transitions"] = int(m.group(1))
    res["ok"] = (p.returncode == 0 and "No error has been found" in out) or \
                (simulate and p.returncode == 0)
    res["violation"] = "is violated" in out or "Invariant" in out and "violated" in out
    if p.returncode == 124:
        raise ToolError("TLC timed out after %ds: %s" % (timeout, " ".join(cmd)))
    return res


def require_ok(res, what):
    if not res["ok"]:
        tail = "\n".join(res["out"].splitlines()[-40:])
        raise ToolError("TLC failed (%s), rc=%s\n%s" % (what, res["rc"], tail))
    return res
