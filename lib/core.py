"""Shared machinery of the checks: building and driving the harness / the hooked binary,
trace validation through TLC, verdict classification against known findings, evidence."""
import glob
import json
import os
import shutil
import subprocess
import sys
import tempfile
import time

from . import tlcrun
from .tlcrun import ToolError, VERIF, WORK

HARNESS = os.path.join(VERIF, "harness")
P2H = os.path.join(HARNESS, "target", "debug", "p2h")
BIN_DIR = os.path.join(HARNESS, "target", "p2sh")
P2SH = os.path.join(BIN_DIR, "debug", "p2sh")
# (development runs against seeded changes redirect both, so that committed evidence stays that of the real tree)
REPLAYS = os.environ.get("VERIF_REPLAY_DIR") or os.path.join(VERIF, "replays")
EVIDENCE = os.environ.get("VERIF_EVIDENCE_DIR") or os.path.join(VERIF, "evidence")
NCPU = min(16, os.cpu_count() or 4)
TLC_WORKERS = int(os.environ.get("VERIF_TLC_WORKERS", "8"))


def log(*a):
    print(*a, file=sys.stderr, flush=True)


def workdir(prefix):
    os.makedirs(WORK, exist_ok=True)
    return tempfile.mkdtemp(prefix=prefix + "_", dir=WORK)


# ------------------------------------------------------------------ builds
def _run(cmd, cwd=None, env=None, timeout=1800):
    p = subprocess.run(cmd, cwd=cwd, env=env, stdout=subprocess.PIPE, stderr=subprocess.STDOUT, text=True,
                       timeout=timeout)
    return p.returncode, p.stdout


def cargo_env():
    e = dict(os.environ)
    e["CARGO_NET_OFFLINE"] = "true"
    e.pop("RUSTFLAGS", None)
    return e


def build_harness():
    """(Re)builds the harness; the repository's modules are mounted by path, so this always
    reflects /repo's working tree."""
    rc, out = _run(["cargo", "build", "--offline", "-q"], cwd=HARNESS, env=cargo_env())
    if rc != 0:
        raise ToolError("harness build failed:\n" + out[-4000:])
    return P2H


def build_binary():
    """Builds the real p2sh binary from /repo with the hooks enabled (dev profile)."""
    e = cargo_env()
    e["RUSTFLAGS"] = "--cfg p2sh_verif -Awarnings"
    rc, out = _run(["cargo", "build", "--offline", "-q", "--manifest-path", "/repo/Cargo.toml",
                    "--target-dir", BIN_DIR], env=e)
    if rc != 0:
        raise ToolError("p2sh build failed:\n" + out[-4000:])
    return P2SH


# ------------------------------------------------------------------ harness driver
def run_cases(cases, deadline_ms=10000, shards=None, _confirm=True):
    """Runs cases (list of dicts with unique 'id') through the in-process harness.
    Returns dict id -> result. Hangs are reported as how='timeout', harness crashes
    (abort, stack overflow) as how='abort'."""
    if not cases:
        return {}
    shards = shards or (NCPU if len(cases) >= 2000 else 1)
    d = workdir("cases")
    try:
        procs = []
        per = (len(cases) + shards - 1) // shards
        for s in range(shards):
            part = cases[s * per:(s + 1) * per]
            if not part:
                continue
            cf = os.path.join(d, "c%d.ndjson" % s)
            rf = os.path.join(d, "r%d.ndjson" % s)
            with open(cf, "w") as f:
                for c in part:
                    f.write(json.dumps(c) + "\n")
            procs.append([part, cf, rf, 0, None])
        results = {}
        # run shards concurrently, restarting after a timeout / crash
        active = []
        for p in procs:
            p[4] = subprocess.Popen([P2H, "run", p[1], p[2], "0", str(deadline_ms)], stdout=subprocess.DEVNULL,
                                    stderr=subprocess.DEVNULL)
            active.append(p)
        while active:
            p = active.pop(0)
            part, cf, rf, skip, proc = p
            rc = proc.wait()
            done = 0
            if os.path.exists(rf):
                with open(rf) as f:
                    lines = [l for l in f if l.strip()]
                done = len(lines)
            if rc == 0:
                continue
            if rc == 2:
                raise ToolError("harness rejected its input")
            # rc 3: timeout reported by the watchdog (result line already written);
            # anything else: the process died on case number `done`
            if rc != 3 and done < len(part):
                with open(rf, "a") as f:
                    f.write(json.dumps({"id": part[done]["id"], "how": "abort", "rc": rc}) + "\n")
                done += 1
            if done < len(part):
                p[3] = done
                p[4] = subprocess.Popen([P2H, "run", cf, rf, str(done), str(deadline_ms)],
                                        stdout=subprocess.DEVNULL, stderr=subprocess.DEVNULL)
                active.append(p)
        for part, cf, rf, skip, proc in procs:
            with open(rf) as f:
                for l in f:
                    if l.strip():
                        r = json.loads(l)
                        results[r["id"]] = r
        missing = [c["id"] for c in cases if c["id"] not in results]
        if missing:
            raise ToolError("harness lost %d cases (first: %r)" % (len(missing), missing[0]))
        # a deadline miss is confirmed by running the case again on its own with three times the deadline
        # (a busy machine must not turn into a verdict); batch cases report partial progress and are resumed by
        # their callers instead
        if _confirm:
            late = [c for c in cases if results[c["id"]].get("how") == "timeout" and c.get("kind") not in ("front", "scan")]
            still = 0
            for k, c in enumerate(late[:40]):
                if k >= 6 and still == k:
                    break       # six out of six hang on their own as well: the rest are taken as reported
                r2 = run_cases([c], deadline_ms=max(30000, 3 * deadline_ms), shards=1, _confirm=False)[c["id"]]
                r2["confirmed_after_timeout"] = True
                still += r2.get("how") == "timeout"
                results[c["id"]] = r2
        return results
    finally:
        shutil.rmtree(d, ignore_errors=True)


NONE = {"k": "none"}


def norm_out(r):
    """harness result -> the record shape Conform.tla expects"""
    msg = r.get("msg") or ""
    return {"how": r.get("how", "none"), "obs": r.get("obs") or NONE, "final": r.get("final") or NONE,
            "line": r.get("line") or 0, "msg": msg, "mname": msg.split(":")[0] if ":" in msg else "",
            "sp": r.get("sp") if r.get("sp") is not None else -1}


# ------------------------------------------------------------------ TLC validation
def tlc_validate(module, records, cfg=None, timeout=1500, workers=None, env=None):
    """Writes records as an ndjson trace, runs the trace-validation module, returns
    (verdicts by id, tlc result)."""
    d = workdir("val")
    try:
        tf = os.path.join(d, "trace.ndjson")
        with open(tf, "w") as f:
            for r in records:
                f.write(json.dumps(r) + "\n")
        e = {"TRACE": tf, "OUTDIR": d}
        if env:
            e.update(env)
        res = tlcrun.run_tlc(module, cfg=cfg, workers=workers or TLC_WORKERS, env=e, timeout=timeout)
        tlcrun.require_ok(res, module)
        verdicts = {}
        for vf in glob.glob(os.path.join(d, "v*.ndjson")):
            with open(vf) as f:
                for l in f:
                    if l.strip():
                        v = json.loads(l)
                        verdicts[v["id"]] = v
        missing = [r["id"] for r in records if r["id"] not in verdicts]
        if missing:
            raise ToolError("%s produced no verdict for %d records (first %r)" % (module, len(missing), missing[0]))
        return verdicts, res
    finally:
        shutil.rmtree(d, ignore_errors=True)


# ------------------------------------------------------------------ verdicts
def load_known():
    p = os.path.join(VERIF, "known_findings.json")
    if not os.path.exists(p):
        return []
    with open(p) as f:
        return json.load(f)["findings"]


class Report:
    """Collects disagreements, classifies them against known_findings.json, prints the
    KNOWN-FINDING / VIOLATION lines, writes evidence and replay files."""

    def __init__(self, prop, tier, seed, level="model_checking"):
        self.prop = prop
        self.tier = tier
        self.seed = seed
        self.level = level
        self.t0 = time.time()
        self.cov = {"states": 0, "transitions": 0, "traces_validated_against_impl": 0, "samples": [],
                    "evaluations": 0, "distinct_nontrivial": 0, "unspecified": 0, "rule": ""}
        self.assumptions = []
        self.disagreements = []     # (signature, detail dict)
        self.notes = {}
        self.known = [k for k in load_known() if k["property"] == prop]

    def add_tlc(self, res):
        self.cov["states"] += res.get("states", 0)
        self.cov["transitions"] += res.get("transitions", 0)

    def sample(self, x, limit=4):
        if len(self.cov["samples"]) < limit:
            self.cov["samples"].append(x)

    def disagree(self, signature, detail):
        self.disagreements.append((signature, detail))

    def finish(self):
        open_known = {k["signature"]: k for k in self.known if k.get("status", "open") == "open"}
        seen_known = {}
        violations = {}
        for sig, detail in self.disagreements:
            if sig in open_known:
                seen_known.setdefault(sig, detail)
            else:
                violations.setdefault(sig, detail)
        for sig in sorted(seen_known):
            print("KNOWN-FINDING: property=%s %s [%s]" % (self.prop, open_known[sig]["what"], sig))
        paths = []
        if violations:
            os.makedirs(REPLAYS, exist_ok=True)
            for n, sig in enumerate(sorted(violations)):
                if n >= 80:
                    break
                import hashlib
                safe = "".join(c if c.isalnum() or c in "-_." else "_" for c in sig)[:60]
                path = os.path.join(REPLAYS, "%s_%s_%s_%d.json" % (self.prop, safe,
                                                                  hashlib.md5(sig.encode()).hexdigest()[:6], self.seed))
                with open(path, "w") as f:
                    json.dump({"property": self.prop, "signature": sig, "seed": self.seed, "tier": self.tier,
                               "detail": violations[sig]}, f, indent=1, default=str)
                paths.append(path)
                print("VIOLATION property=%s replay=%s" % (self.prop, path))
                log("  signature: %s" % sig)
        stale = [s for s in open_known if s not in seen_known]
        self.cov["known_findings_seen"] = sorted(seen_known)
        self.cov["known_findings_not_reproduced"] = sorted(stale)
        self.cov["violation_signatures"] = sorted(violations)[:400]
        self.cov.update(self.notes)
        ev = {"property_id": self.prop, "tier": self.tier, "seed": self.seed, "level": self.level,
              "coverage": self.cov, "assumptions": self.assumptions, "wall_s": round(time.time() - self.t0, 2),
              "violations": len(violations)}
        os.makedirs(EVIDENCE, exist_ok=True)
        with open(os.path.join(EVIDENCE, "%s.json" % self.prop), "w") as f:
            json.dump(ev, f, indent=1, default=str)
        log("%s %s: %d evaluations, %d disagreements (%d known signatures, %d new), %.1fs" % (
            self.prop, self.tier, self.cov["evaluations"], len(self.disagreements), len(seen_known),
            len(violations), time.time() - self.t0))
        return 1 if violations else 0


# ------------------------------------------------------------------ Apalache
def apalache_invariant(module, inv="Inv", timeout=900):
    """checks `inv` in every initial state of spec/<module>.tla with Apalache (symbolic: all values at once)"""
    d = workdir("apa")
    try:
        shutil.copy(os.path.join(tlcrun.SPEC, module + ".tla"), d)
        cmd = ["timeout", str(timeout), "apalache-mc", "check", "--init=Init", "--inv=" + inv, "--length=0",
               "--out-dir=" + os.path.join(d, "out"), module + ".tla"]
        p = subprocess.run(cmd, cwd=d, stdout=subprocess.PIPE, stderr=subprocess.STDOUT, text=True)
        if "The outcome is: NoError" not in p.stdout:
            raise ToolError("Apalache did not establish %s.%s:\n%s" % (module, inv, p.stdout[-1500:]))
    finally:
        shutil.rmtree(d, ignore_errors=True)


def apalache_inductive(module, inv="IndInv", timeout=900):
    """Discharges `inv` of spec/<module>.tla as an inductive invariant with Apalache: Init => inv (length 0) and
    IndInit /\\ Next => inv' (length 1), constants initialised by ConstInit.  A failure is a tool error: it would be a
    statement about the specification, not about the implementation."""
    d = workdir("apa")
    try:
        shutil.copy(os.path.join(tlcrun.SPEC, module + ".tla"), d)
        for name, extra in (("base", ["--init=Init", "--length=0"]), ("step", ["--init=IndInit", "--length=1"])):
            cmd = ["timeout", str(timeout), "apalache-mc", "check", "--cinit=ConstInit", "--inv=" + inv,
                   "--out-dir=" + os.path.join(d, "out")] + extra + [module + ".tla"]
            p = subprocess.run(cmd, cwd=d, stdout=subprocess.PIPE, stderr=subprocess.STDOUT, text=True)
            if "The outcome is: NoError" not in p.stdout:
                raise ToolError("Apalache did not discharge the %s case of %s.%s:\n%s" % (name, module, inv, p.stdout[-1500:]))
    finally:
        shutil.rmtree(d, ignore_errors=True)
