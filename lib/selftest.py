"""./check selftest - demonstrates that the specifications are bound to the implementation: recorded executions are
accepted as they are and rejected as soon as one recorded field is corrupted or one hook event is missing.
Not a registered check (it says nothing about p2sh); exit 0 iff every corruption below is rejected."""
import copy
import random

from . import core, vmtrace, vmrun, progs
from .past import OBS_DECL, obs, let, ident, bin_, I, call, fndef, expr, while_, asg, arr
from .proggen import random_program


def main():
    core.build_harness()
    widths, _ = vmtrace.real_widths()
    rnd = random.Random(7)
    prog = [OBS_DECL, fndef("f", ["a", "b"], [let("t", bin_("*", ident("a"), ident("b"))), expr(bin_("+", ident("t"), I(1)))]),
            let("i", I(0)), let("acc", arr()),
            while_(bin_("<", ident("i"), I(3)), [expr(asg(ident("i"), bin_("+", ident("i"), I(1)))),
                                                  expr(call("push", ident("acc"), call("f", ident("i"), I(7))))]),
            obs(ident("acc")), obs(call("len", ident("acc")))]
    items = [{"id": "base", "prog": prog}] + [{"id": "r%d" % k, "prog": random_program(rnd, depth=2)} for k in range(4)]
    recs = vmrun.record(items, widths, with_prog=True)
    base = [r for r in recs if r["id"] == "base"][0]
    n = len(base["trace"])
    asrec = copy.deepcopy(base)
    asrec["id"] = "as-recorded"
    variants = {"as-recorded": (asrec, "ok")}

    def corrupt(name, want, fn):
        r = copy.deepcopy(base)
        r["id"] = name
        fn(r)
        variants[name] = (r, want)

    corrupt("sp-off-by-one", "diverged", lambda r: r["trace"][n // 2].__setitem__(4, r["trace"][n // 2][4] + 1))
    corrupt("ip-changed", "diverged", lambda r: r["trace"][n // 3].__setitem__(2, r["trace"][n // 3][2] + 1))
    corrupt("top-of-stack-digest-changed", "diverged", lambda r: r["trace"][n - 2].__setitem__(6, r["trace"][n - 2][6] ^ 1))
    corrupt("one-hook-event-missing", "diverged", lambda r: r["trace"].pop(n // 2))
    corrupt("frame-depth-changed", "diverged", lambda r: r["trace"][5].__setitem__(0, r["trace"][5][0] + 1))
    corrupt("recorded-final-sp-changed", "end", lambda r: r["out"].__setitem__("sp", r["out"]["sp"] + 1))
    corrupt("recorded-observations-changed", "end", lambda r: r["out"]["obs"]["v"][1]["v"].__setitem__(0, 9))
    corrupt("operand-width-table-changed", "diverged", lambda r: r["widths"].__setitem__(0, [1]))
    verdicts, res = vmrun.validate([v[0] for v in variants.values()] + [r for r in recs if r["id"] != "base"])
    ok = True
    for name, (r, want) in variants.items():
        got = verdicts[name]["v"]
        good = got == want
        ok = ok and good
        print("VMRun   %-34s expected %-9s got %-9s %s  (%s)" % (name, want, got, "ok" if good else "NOT REJECTED", verdicts[name]["why"][:60]))
    for r in recs:
        if r["id"] != "base":
            print("VMRun   %-34s expected ok        got %s" % ("random program " + r["id"], verdicts[r["id"]]["v"]))
            ok = ok and verdicts[r["id"]]["v"] in ("ok", "unspec")
    # whole-program level (Conform): a changed observation, a changed outcome class
    from .past import render
    src, ap = render(prog)
    out = core.norm_out(core.run_cases([{"id": "c", "src": src}])["c"])
    recs2 = [{"id": "as-recorded", "prog": ap, "out": out, "chk": ["final"]}]
    o2 = copy.deepcopy(out)
    o2["obs"]["v"][1]["v"][0] = 9
    recs2.append({"id": "observation-changed", "prog": ap, "out": o2, "chk": ["final"]})
    o3 = copy.deepcopy(out)
    o3["how"] = "rterror"
    recs2.append({"id": "outcome-class-changed", "prog": ap, "out": o3, "chk": ["final"]})
    o4 = copy.deepcopy(out)
    o4["how"] = "panic"
    recs2.append({"id": "crash-instead-of-result", "prog": ap, "out": o4, "chk": ["final"]})
    v2, _ = core.tlc_validate("Conform", recs2)
    for r in recs2:
        want = "ok" if r["id"] == "as-recorded" else "bad"
        got = v2[r["id"]]["v"]
        ok = ok and got == want
        print("Conform %-34s expected %-9s got %-9s %s" % (r["id"], want, got, "ok" if got == want else "NOT REJECTED"))
    # the small relation / layout modules: a recorded answer changed, a field read with the wrong signedness
    good = {"id": "as-recorded", "lt": "F", "gt": "F", "le": "F", "ge": "F", "eq": "F", "ne": "T",
            "sw": {"lt": "F", "gt": "F", "le": "F", "ge": "F", "eq": "F", "ne": "T"}}
    bad1 = dict(good, id="ge-answer-changed", ge="T")
    bad2 = dict(good, id="refused-one-way-only", sw={"lt": "E", "gt": "E", "le": "E", "ge": "E", "eq": "F", "ne": "T"})
    v3, _ = core.tlc_validate("OpLawTrace", [good, bad1, bad2], workers=1)
    for r in (good, bad1, bad2):
        want = "ok" if r["id"] == "as-recorded" else "bad"
        got = v3[r["id"]]["v"]
        ok = ok and got == want
        print("OpLaw   %-34s expected %-9s got %-9s %s" % (r["id"], want, got, "ok" if got == want else "NOT REJECTED"))
    import struct
    raw = list(struct.pack("<IHHiIII", 0xa1b2c3d4, 2, 4, -3600, 0, 65535, 1))

    def field(n, signed=False):
        return {"k": "int", "neg": n < 0, "mag": list(abs(n).to_bytes(8, "little"))}
    hobs = {"magic": field(0xa1b2c3d4), "major": field(2), "minor": field(4), "thiszone": field(-3600), "sigfigs": field(0),
           "snaplen": field(65535), "linktype": field(1)}
    recs4 = [{"id": "as-recorded", "raw": raw, "obs": hobs, "how": "ok"},
             {"id": "thiszone-read-unsigned", "raw": raw, "obs": dict(hobs, thiszone=field(4294963696)), "how": "ok"},
             {"id": "snaplen-off-by-one", "raw": raw, "obs": dict(hobs, snaplen=field(65534)), "how": "ok"}]
    v4, _ = core.tlc_validate("PcapHdrTrace", recs4, workers=1)
    for r in recs4:
        want = "ok" if r["id"] == "as-recorded" else "bad"
        got = v4[r["id"]]["v"]
        ok = ok and got == want
        print("PcapHdr %-34s expected %-9s got %-9s %s" % (r["id"], want, got, "ok" if got == want else "NOT REJECTED"))
    print("selftest %s" % ("passed" if ok else "FAILED"))
    return 0 if ok else 1
