"""./check setup: build the harness and the hooked binary, parse every specification module."""
import glob
import os
import subprocess

from . import core
from .tlcrun import SPEC, ToolError


def main():
    core.build_harness()
    core.build_binary()
    bad = []
    for f in sorted(glob.glob(os.path.join(SPEC, "*.tla"))):
        if "EXTENDS Integers, Sequences, Apalache" in open(f).read():
            # typed modules for Apalache are parsed and type-checked by Apalache itself
            import shutil
            import tempfile
            d = tempfile.mkdtemp(prefix="apa_", dir=core.workdir("setup"))
            shutil.copy(f, d)
            p = subprocess.run(["timeout", "600", "apalache-mc", "typecheck", "--out-dir=" + os.path.join(d, "out"), os.path.basename(f)],
                               cwd=d, stdout=subprocess.PIPE, stderr=subprocess.STDOUT, text=True)
            shutil.rmtree(os.path.dirname(d), ignore_errors=True)
            if "Type checker [OK]" not in p.stdout and "EXITCODE: OK" not in p.stdout:
                bad.append(os.path.basename(f))
            continue
        p = subprocess.run(["tla-sany", os.path.basename(f)], cwd=SPEC, stdout=subprocess.PIPE,
                           stderr=subprocess.STDOUT, text=True)
        if p.returncode != 0 or "*** Errors" in p.stdout or "Could not parse" in p.stdout:
            bad.append(os.path.basename(f))
    if bad:
        raise ToolError("SANY rejects: %s" % ", ".join(bad))
    print("setup ok")
    return 0
