"""./check setup: build the harness and the hooked binary, parse every specification module."""
import glob
import os
import subprocess

from . import core
from .tlcrun import SPEC, ToolError


def main():
    core.build_harness()
    core.build_binary()
    bad = []
    for f in sorted(glob.glob(os.path.join(SPEC, "*.tla"))):
        p = subprocess.run(["tla-sany", os.path.basename(f)], cwd=SPEC, stdout=subprocess.PIPE,
                           stderr=subprocess.STDOUT, text=True)
        if p.returncode != 0 or "*** Errors" in p.stdout or "Could not parse" in p.stdout:
            bad.append(os.path.basename(f))
    if bad:
        raise ToolError("SANY rejects: %s" % ", ".join(bad))
    print("setup ok")
    return 0
