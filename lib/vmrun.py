"""Machine-level trace validation (spec/VM.tla + spec/VMRun.tla): the real VM's instruction
trace (hook H2 with top-of-stack digests) is replayed step by step against the bytecode machine
specification executing the real compiler's output; the machine's outcome is compared with the
recorded one and with RefSem on the source program."""
import json
import os
import re
import shutil

from . import core, tlcrun
from .past import render

NONE = {"k": "none"}


def record(items, widths, fuel=200000, max_events=2500, with_prog=True):
    """items: dicts with id and prog (AST). Runs them with full instruction tracing; returns VMRun records."""
    cases = []
    for it in items:
        if "src" not in it or "ap" not in it:
            it["src"], it["ap"] = render(it["prog"])
        cases.append({"id": it["id"], "src": it["src"], "trace": 1, "funcs": True, "fuel": fuel})
    res = core.run_cases(cases)
    for it in items:
        it["raw"] = res[it["id"]]
    return from_raw(items, widths, max_events=max_events, with_prog=with_prog)


def from_raw(items, widths, max_events=2500, with_prog=True):
    """VMRun records from items already run with full tracing (it["raw"]) and rendered (it["ap"])"""
    recs = []
    for it in items:
        r = it["raw"]
        if "trace" not in r or "funcs" not in r or "bnames" not in r:
            it["skipped"] = "no trace (%s)" % r.get("how")
            continue
        if len(r["trace"]) > max_events:
            it["skipped"] = "trace too long"
            continue
        out = {"how": r.get("how", "none"), "sp": r.get("sp", -1), "line": r.get("line") or 0,
               "final": r.get("final") or NONE, "obs": r.get("obs") or NONE}
        from . import vmtrace
        rec = {"id": it["id"], "funcs": r["funcs"], "consts": r["consts"], "widths": widths, "bnames": r["bnames"],
               "opnames": list(vmtrace.OPNAMES) or OPNAMES, "opc": vmtrace.opc(),
               "obsidx": r.get("obsidx", -1), "trace": r["trace"], "out": out}
        if with_prog and "ap" in it:
            rec["prog"] = it["ap"]
        recs.append(rec)
    return recs


OPNAMES = ["Constant", "Pop", "Add", "Sub", "Mul", "Div", "Mod", "True", "False", "Equal", "NotEqual", "Greater",
           "GreaterEq", "Minus", "Bang", "Jump", "JumpIfFalse", "JumpIfFalseNoPop", "Null", "DefineGlobal",
           "GetGlobal", "SetGlobal", "Array", "Map", "GetIndex", "SetIndex", "Call", "ReturnValue", "Return",
           "DefineLocal", "GetLocal", "SetLocal", "GetBuiltinFn", "GetBuiltinVar", "Closure", "GetFree", "SetFree",
           "CurrClosure", "Not", "And", "Or", "Xor", "ShiftLeft", "ShiftRight", "Dup", "GetProp", "SetProp", "Dollar"]


def describe(v, raw):
    """one-line description of a non-ok verdict: what diverged, after which instruction"""
    tr = raw.get("trace") or []
    at = v.get("at", 0)
    prev = tr[at - 2] if 2 <= at <= len(tr) + 1 else None
    from . import vmtrace
    names = vmtrace.OPNAMES or OPNAMES
    opn = names[prev[3]] if prev and prev[3] < len(names) else "start"
    return "%s: %s after %s" % (v["v"], v["why"], opn)


def validate(recs, timeout=1500, workers=None):
    """runs VMRun over the records; returns (verdicts by id, tlc result)"""
    if not recs:
        return {}, {"states": 0, "transitions": 0}
    d = core.workdir("vmrun")
    try:
        tf = os.path.join(d, "trace.ndjson")
        with open(tf, "w") as f:
            for r in recs:
                f.write(json.dumps(r) + "\n")
        res = tlcrun.run_tlc("VMRun", workers=workers or core.TLC_WORKERS, env={"TRACE": tf}, timeout=timeout)
        tlcrun.require_ok(res, "VMRun")
        verdicts = {}
        for m in re.finditer(r'<<"VMV", "(.*)">>', res["out"]):
            v = json.loads(m.group(1).replace('\\"', '"').replace("\\\\", "\\"))
            verdicts[v["id"]] = v
        missing = [r["id"] for r in recs if r["id"] not in verdicts]
        if missing:
            raise tlcrun.ToolError("VMRun gave no verdict for %d executions (first %r)\n%s" % (
                len(missing), missing[0], "\n".join(res["out"].splitlines()[-30:])))
        return verdicts, res
    finally:
        shutil.rmtree(d, ignore_errors=True)


def model_check(recs, timeout=1200, workers=None):
    """MC_VM: TLC runs the machine specification by itself on the compiled programs of recs and checks the machine
    invariants in every reachable state.  Returns (violated invariant or None, id of the program, tlc result)."""
    if not recs:
        return None, None, {"states": 0, "transitions": 0}
    d = core.workdir("mcvm")
    try:
        tf = os.path.join(d, "lib.ndjson")
        with open(tf, "w") as f:
            for r in recs:
                r2 = dict(r)
                r2["trace"] = []
                r2.pop("prog", None)
                f.write(json.dumps(r2) + "\n")
        res = tlcrun.run_tlc("MC_VM", workers=workers or core.TLC_WORKERS, env={"TRACE": tf}, timeout=timeout)
        if res["ok"]:
            return None, None, res
        m = re.search(r"Invariant (\w+) is violated", res["out"])
        dead = "Deadlock reached" in res["out"]
        if not m and not dead:
            tlcrun.require_ok(res, "MC_VM")
        pis = re.findall(r"/\\ pi = (\d+)", res["out"])
        pid = recs[int(pis[-1]) - 1]["id"] if pis else None
        return (m.group(1) if m else "Deadlock"), pid, res
    finally:
        shutil.rmtree(d, ignore_errors=True)
