"""Instruction-level trace validation (spec/VMTrace.tla): marker insertion, width table of
the real encoder, trace recording through the harness."""
import copy

from . import core
from .past import render, expr, lit, vstr


def derive_widths(probe):
    """width table (list indexed by opcode of lists of widths) from the encodings of the probe
    operands 0x0102, 0x0304, 0x0506"""
    table = []
    for p in probe:
        if not p.get("defined"):
            continue
        enc = p["enc"][1:]
        ws = []
        for hi, lo in ((1, 2), (3, 4), (5, 6)):
            if len(enc) >= 2 and enc[0] == hi and enc[1] == lo:
                ws.append(2)
                enc = enc[2:]
            elif len(enc) >= 1 and enc[0] == lo:
                ws.append(1)
                enc = enc[1:]
            else:
                break
        if enc:
            raise core.ToolError("cannot derive operand widths of opcode %d from %r" % (p["op"], p["enc"]))
        table.append(ws)
    return table


OPNAMES = []      # names of the real opcodes by number (measured together with the widths)


def real_widths():
    r = core.run_cases([{"id": "probe", "kind": "codec_probe"}])["probe"]
    if r.get("how") != "ok":
        raise core.ToolError("codec probe failed: %r" % r)
    del OPNAMES[:]
    OPNAMES.extend(p.get("name", "?") for p in r["probe"] if p.get("defined"))
    return derive_widths(r["probe"]), r["probe"]


def opc():
    """opcode numbers by name, as the real code numbers them"""
    if not OPNAMES:
        real_widths()
    return {n: i for i, n in enumerate(OPNAMES)}


class Marker:
    def __init__(self):
        self.n = 0

    def block(self, stmts):
        """inserts a marker statement before every statement of the block (never after the last)"""
        self.n += 1
        bid = "§%d" % self.n
        out = []
        for s in stmts:
            out.append(expr(lit(vstr(bid))))
            out.append(self.stmt(s))
        return out

    def stmt(self, s):
        s = dict(s)
        t = s["t"]
        if t in ("let", "expr"):
            s["e"] = self.e(s["e"])
        elif t == "block":
            s["b"] = self.block(s["b"])
        elif t in ("while", "loop"):
            if t == "while":
                s["c"] = self.e(s["c"])
            s["b"] = self.block(s["b"])
        elif t == "fndef":
            s["body"] = self.block(s["body"])
        elif t == "ret" and s["e"]["t"] != "none":
            s["e"] = self.e(s["e"])
        return s

    def e(self, x):
        x = dict(x)
        t = x["t"]
        if t in ("un", "dot"):
            x["e"] = self.e(x["e"])
        elif t == "bin":
            x["l"] = self.e(x["l"])
            x["r"] = self.e(x["r"])
        elif t == "asg":
            x["tg"] = self.e(x["tg"])
            x["e"] = self.e(x["e"])
        elif t == "idx":
            x["a"] = self.e(x["a"])
            x["i"] = self.e(x["i"])
        elif t == "call":
            x["f"] = self.e(x["f"])
            x["as"] = [self.e(a) for a in x["as"]]
        elif t == "arr":
            x["es"] = [self.e(a) for a in x["es"]]
        elif t == "map":
            x["kvs"] = [[self.e(k), self.e(v)] for k, v in x["kvs"]]
        elif t == "fn":
            x["body"] = self.block(x["body"])
        elif t == "if":
            x["c"] = self.e(x["c"])
            x["th"] = self.block(x["th"])
            if x["el"]["t"] == "blk":
                x["el"] = {"t": "blk", "b": self.block(x["el"]["b"])}
            elif x["el"]["t"] == "if":
                x["el"] = self.e(x["el"])
        elif t == "match":
            x["e"] = self.e(x["e"])
            x["arms"] = [{"pats": a["pats"], "body": self.block(a["body"])} for a in x["arms"]]
        return x


def add_markers(prog):
    return Marker().block(copy.deepcopy(prog))


def record(items, widths, mode=1, fuel=200000, max_events=6000):
    """items: dicts with id, prog (AST) [or src]; runs them with instruction tracing and returns
    the VMTrace records (items whose trace is too long for full validation are dropped in mode 1)"""
    cases = []
    for it in items:
        if "src" not in it:
            it["src"], it["ap"] = render(it["prog"])
        cases.append({"id": it["id"], "src": it["src"], "trace": mode, "funcs": True, "fuel": fuel})
    res = core.run_cases(cases)
    recs = []
    for it in items:
        r = res[it["id"]]
        it["raw"] = r
        if "trace" not in r or "funcs" not in r:
            it["skipped"] = "no trace (%s)" % r.get("how")
            continue
        if len(r["trace"]) > max_events:
            it["skipped"] = "trace too long"
            continue
        recs.append({"id": it["id"], "funcs": r["funcs"], "consts": r["consts"], "widths": widths, "mode": mode,
                     "opnames": list(OPNAMES), "opc": opc(),
                     "trace": r["trace"], "end": {"how": r.get("how"), "sp": r.get("sp", -1), "fi": r.get("fi", -1)}})
    return recs
