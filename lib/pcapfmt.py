"""pcap file and frame construction / parsing (independent of the implementation)."""
import struct

MAGIC_US = 0xA1B2C3D4
MAGIC_NS = 0xA1B23C4D


def global_header(magic=MAGIC_US, vmaj=2, vmin=4, thiszone=0, sigfigs=0, snaplen=65535, linktype=1):
    return struct.pack("<IHHiIII", magic, vmaj, vmin, thiszone, sigfigs, snaplen, linktype)


def record(data, ts_sec=0, ts_sub=0, caplen=None, wirelen=None):
    if caplen is None:
        caplen = len(data)
    if wirelen is None:
        wirelen = len(data)
    return struct.pack("<IIII", ts_sec & 0xFFFFFFFF, ts_sub & 0xFFFFFFFF, caplen, wirelen) + data


def pcap_file(records, **hdr):
    """records: list of bytes (frames) or dicts(data, ts_sec, ts_sub, caplen, wirelen)"""
    out = global_header(**hdr)
    for r in records:
        if isinstance(r, (bytes, bytearray)):
            out += record(bytes(r))
        else:
            out += record(r["data"], r.get("ts_sec", 0), r.get("ts_sub", 0), r.get("caplen"), r.get("wirelen"))
    return out


def parse_pcap(buf):
    """returns (header dict | None, list of record dicts, trailing bytes)"""
    if len(buf) < 24:
        return None, [], buf
    magic, vmaj, vmin, zone, sig, snap, link = struct.unpack("<IHHiIII", buf[:24])
    hdr = {"magic": magic, "vmaj": vmaj, "vmin": vmin, "thiszone": zone, "sigfigs": sig, "snaplen": snap,
           "linktype": link, "raw": buf[:24]}
    recs = []
    off = 24
    while off + 16 <= len(buf):
        ts, sub, cap, wire = struct.unpack("<IIII", buf[off:off + 16])
        if off + 16 + cap > len(buf):
            break
        recs.append({"ts_sec": ts, "ts_sub": sub, "caplen": cap, "wirelen": wire, "data": buf[off + 16:off + 16 + cap],
                     "raw": buf[off:off + 16 + cap]})
        off += 16 + cap
    return hdr, recs, buf[off:]


# ------------------------------------------------------------------ frames
def mac(s):
    return bytes(int(x, 16) for x in s.split(":"))


def eth(dst=b"\x02\x00\x00\x00\x00\x01", src=b"\x02\x00\x00\x00\x00\x02", etype=0x0800):
    return dst + src + struct.pack(">H", etype)


def vlan(pcp=0, dei=0, vid=1, etype=0x0800):
    return struct.pack(">HH", (pcp << 13) | (dei << 12) | vid, etype)


def ipv4(payload_len=0, ihl=5, dscp=0, ecn=0, ident=0x1234, flags=2, frag=0, ttl=64, proto=6, csum=0,
         src=b"\x0a\x00\x00\x01", dst=b"\x0a\x00\x00\x02", options=b"", total_len=None, version=4):
    if total_len is None:
        total_len = ihl * 4 + payload_len
    h = struct.pack(">BBHHHBBH", (version << 4) | ihl, (dscp << 2) | ecn, total_len & 0xFFFF, ident,
                    (flags << 13) | frag, ttl, proto, csum) + src + dst
    return h + options


def ipv6(payload_len=0, tc=0, flow=0, nh=6, hop=64, src=bytes(range(16)), dst=bytes(range(16, 32)), version=6):
    return struct.pack(">IHBB", (version << 28) | (tc << 20) | flow, payload_len & 0xFFFF, nh, hop) + src + dst


def tcp(sport=1234, dport=80, seq=1, ack=2, dataoff=5, flags=0x18, win=1024, csum=0, urg=0, options=b"", reserved=0):
    return struct.pack(">HHIIHHHH", sport, dport, seq, ack, (dataoff << 12) | (reserved << 9) | flags, win, csum,
                       urg) + options


def udp(sport=53, dport=5353, length=8, csum=0):
    return struct.pack(">HHHH", sport, dport, length, csum)


def simple_tcp_frame(payload=b"hello"):
    return eth() + ipv4(payload_len=20 + len(payload)) + tcp() + payload
