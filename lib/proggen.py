"""Seeded random program generator (ASTs) for the whole-program properties.

Programs are well formed by construction (every name used has a visible binding, loops are
bounded, recursion is bounded) and stay inside what the property-level semantics decides:
no self-reference in a let initialiser, no assignment to a captured variable inside a
closure, no bare block in value position, no self-containing containers.  Operands are
wrapped in probe calls P(tag, v) so that evaluation order is observable."""
from .past import (OBS_DECL, obs, lit, vint, vbool, vstr, vnull, vfloat, vchar, vbyte, bin_, un, let, ident, call,
                   idx, asg, arr, map_, expr, I, if_, while_, loop, brk, cont, block, fndef, fn, ret, match, arm, plit,
                   prange, pdef)

# fn P(t, v) { push(OBS, t); v }
PROBE = fndef("P", ["t", "v"], [obs(ident("t")), expr(ident("v"))])

INT_BOUNDS = [0, 1, -1, 2, 3, 7, 10, 63, 64, 255, 256, -128, (1 << 63) - 1, -(1 << 63), (1 << 62), -(1 << 31), 1 << 32]
STRS = ["", "a", "ab", "é", "zz", "héllo", " "]
FLOATS = [0.0, 1.0, -1.0, 0.5, 1.5, -2.5, 2.0, 100.0, 0.25]


class Var:
    def __init__(self, name, typ, fdepth, arity=0):
        self.name = name
        self.typ = typ
        self.fdepth = fdepth
        self.arity = arity


class Gen:
    def __init__(self, rnd, features=None, max_expr_depth=3, probes=True):
        self.rnd = rnd
        self.scopes = [[]]
        self.fdepth = 0
        self.loops = [[]]          # per function: stack of labels ("" for unlabelled)
        self.n = 0
        self.probe_n = 0
        self.max_expr_depth = max_expr_depth
        self.probes = probes
        self.features = features or {}
        self.in_closure_body = False
        self.hidden = set()

    # ------------------------------------------------------------ helpers
    def fresh(self, prefix="v"):
        self.n += 1
        return "%s%d" % (prefix, self.n)

    def visible(self, typ=None):
        seen = set()
        out = []
        for sc in reversed(self.scopes):
            for v in reversed(sc):
                if v.name in seen:
                    continue
                seen.add(v.name)
                if v.name in self.hidden:
                    continue
                if typ is None or v.typ == typ:
                    out.append(v)
        return out

    def declare(self, name, typ, arity=0):
        v = Var(name, typ, self.fdepth, arity)
        self.scopes[-1].append(v)
        return v

    def chance(self, p):
        return self.rnd.random() < p

    def probe(self, e):
        if not self.probes or not self.chance(0.25):
            return e
        self.probe_n += 1
        return call("P", I(1000 + self.probe_n), e)

    # ------------------------------------------------------------ expressions
    def int_lit(self):
        r = self.rnd.random()
        if r < 0.6:
            return I(self.rnd.randint(0, 9))
        if r < 0.85:
            return I(self.rnd.choice(INT_BOUNDS))
        return I(self.rnd.randint(-1000, 1000))

    def e_int(self, d):
        rnd = self.rnd
        vs = self.visible("int")
        if d <= 0 or self.chance(0.2):
            if vs and self.chance(0.6):
                return ident(rnd.choice(vs).name)
            return self.int_lit()
        r = rnd.random()
        if r < 0.35:
            op = rnd.choice(["+", "-", "*", "+", "-"])
            return bin_(op, self.probe(self.e_int(d - 1)), self.probe(self.e_int(d - 1)))
        if r < 0.45:
            op = rnd.choice(["/", "%"])
            divisor = I(rnd.choice([1, 2, 3, 7, -1, -3])) if self.chance(0.85) else self.e_int(d - 1)
            return bin_(op, self.probe(self.e_int(d - 1)), divisor)
        if r < 0.55:
            op = rnd.choice(["&", "|", "^", "<<", ">>"])
            right = I(rnd.choice([0, 1, 3, 8, 63, 64, 65])) if op in ("<<", ">>") else self.e_int(d - 1)
            return bin_(op, self.e_int(d - 1), right)
        if r < 0.62:
            return un(rnd.choice(["-", "~"]), self.e_int(d - 1))
        if r < 0.70:
            arrs = self.visible("arr")
            if arrs:
                a = rnd.choice(arrs)
                if self.chance(0.5):
                    return call("len", ident(a.name))
                return idx(ident(a.name), I(rnd.randint(0, 2)) if self.chance(0.9) else self.e_int(d - 1))
            return call("len", self.e_str(d - 1))
        if r < 0.80:
            fns = [v for v in self.visible("fn")]
            if fns:
                f = rnd.choice(fns)
                return call(f.name, *[self.probe(self.e_int(d - 1)) for _ in range(f.arity)])
        if r < 0.90:
            return if_(self.e_bool(d - 1), [expr(self.e_int(d - 1))], [expr(self.e_int(d - 1))])
        if r < 0.95:
            return self.e_match_int(d - 1)
        ms = self.visible("map")
        if ms:
            return call("len", ident(rnd.choice(ms).name))
        return self.int_lit()

    def e_match_int(self, d):
        rnd = self.rnd
        arms = []
        used = set()
        for _ in range(rnd.randint(1, 3)):
            r = rnd.random()
            if r < 0.5:
                k = rnd.randint(0, 6)
                pats = [plit(vint(k))]
                if self.chance(0.3):
                    pats.append(plit(vint(rnd.randint(0, 6))))
            else:
                lo = rnd.randint(0, 5)
                pats = [prange(vint(lo), vint(lo + rnd.randint(0, 3)), self.chance(0.5))]
            arms.append(arm(pats, [expr(self.e_int(d))]))
        if self.chance(0.6):
            arms.append(arm([pdef()], [expr(self.e_int(d))]))
        return match(self.probe(self.e_int(d)), arms)

    def e_bool(self, d):
        rnd = self.rnd
        if d <= 0 or self.chance(0.15):
            vs = self.visible("bool")
            if vs and self.chance(0.5):
                return ident(rnd.choice(vs).name)
            return lit(vbool(self.chance(0.5)))
        r = rnd.random()
        if r < 0.45:
            op = rnd.choice(["<", ">", "<=", ">=", "==", "!="])
            return bin_(op, self.probe(self.e_int(d - 1)), self.probe(self.e_int(d - 1)))
        if r < 0.55:
            op = rnd.choice(["<", ">", "<=", ">=", "==", "!="])
            return bin_(op, self.e_str(d - 1), self.e_str(d - 1))
        if r < 0.62:
            op = rnd.choice(["<", ">", "<=", ">=", "==", "!="])
            return bin_(op, self.e_float(d - 1), self.e_num(d - 1))
        if r < 0.72:
            return un("!", self.e_any(d - 1))
        if r < 0.92:
            return bin_(rnd.choice(["&&", "||"]), self.probe(self.e_bool(d - 1)), self.probe(self.e_bool(d - 1)))
        return bin_(rnd.choice(["==", "!="]), self.e_arr(d - 1), self.e_arr(d - 1))

    def e_str(self, d):
        rnd = self.rnd
        if d <= 0 or self.chance(0.3):
            vs = self.visible("str")
            if vs and self.chance(0.5):
                return ident(rnd.choice(vs).name)
            return lit(vstr(rnd.choice(STRS)))
        r = rnd.random()
        if r < 0.5:
            return bin_("+", self.probe(self.e_str(d - 1)), self.probe(self.e_str(d - 1)))
        if r < 0.65:
            return bin_("*", self.e_str(d - 1), I(rnd.randint(0, 3)))
        if r < 0.8:
            return call("str", self.e_int(d - 1))
        return if_(self.e_bool(d - 1), [expr(self.e_str(d - 1))], [expr(self.e_str(d - 1))])

    def e_float(self, d):
        rnd = self.rnd
        if d <= 0 or self.chance(0.4):
            vs = self.visible("float")
            if vs and self.chance(0.4):
                return ident(rnd.choice(vs).name)
            return lit(vfloat(rnd.choice(FLOATS)))
        op = rnd.choice(["+", "-", "*", "/"])
        if op == "/":
            return bin_(op, self.e_float(d - 1), lit(vfloat(rnd.choice([2.0, 4.0, 0.5, -2.0]))))
        return bin_(op, self.e_float(d - 1), self.e_num(d - 1))

    def e_num(self, d):
        if self.chance(0.5):
            return self.e_float(d)
        return I(self.rnd.randint(-5, 5))

    def e_arr(self, d):
        rnd = self.rnd
        vs = self.visible("arr")
        if vs and self.chance(0.4):
            return ident(rnd.choice(vs).name)
        if d > 0 and self.chance(0.25):
            return bin_("+", self.e_arr(d - 1), self.e_arr(d - 1))
        return arr(*[self.probe(self.e_int(max(0, d - 1))) for _ in range(rnd.randint(0, 3))])

    def e_map(self, d):
        rnd = self.rnd
        kvs = []
        for _ in range(rnd.randint(0, 1) if self.features.get("onekeymaps") else rnd.randint(0, 3)):
            k = I(rnd.randint(0, 3)) if self.chance(0.6) else lit(vstr(rnd.choice(["a", "b", ""])))
            kvs.append((self.probe(k), self.probe(self.e_int(max(0, d - 1)))))
        return map_(*kvs)

    def e_any(self, d):
        r = self.rnd.random()
        if r < 0.4:
            return self.e_int(d)
        if r < 0.55:
            return self.e_bool(d)
        if r < 0.7:
            return self.e_str(d)
        if r < 0.8:
            return self.e_float(d)
        if r < 0.9:
            return self.e_arr(d)
        if r < 0.95:
            return self.e_map(d)
        return lit(vnull())

    def e_of(self, typ, d):
        return {"int": self.e_int, "bool": self.e_bool, "str": self.e_str, "float": self.e_float, "arr": self.e_arr,
                "map": self.e_map}[typ](d)

    # ------------------------------------------------------------ statements
    def assignable(self, typ=None):
        out = []
        for v in self.visible(typ):
            if v.typ == "fn":
                continue
            # a variable of an enclosing function is captured by value: do not assign it
            if v.fdepth != self.fdepth and v.fdepth != 0:
                continue
            out.append(v)
        return out

    def stmts(self, n, depth):
        out = []
        for _ in range(n):
            out += self.stmt(depth)
        return out

    def block_stmts(self, n, depth):
        self.scopes.append([])
        try:
            return self.stmts(n, depth)
        finally:
            self.scopes.pop()

    def stmt(self, depth):
        rnd = self.rnd
        d = self.max_expr_depth
        r = rnd.random()
        if r < 0.22:
            typ = rnd.choice(["int", "int", "int", "bool", "str", "float", "arr", "map"])
            name = self.fresh()
            if self.features.get("shadow") and self.chance(0.3) and self.visible():
                cands = [v for v in self.visible() if v.typ not in ("fn", "fnrec", "loopctr") and v.name not in ("OBS", "P")]
                if cands:
                    name = rnd.choice(cands).name
            # the initialiser must not mention the name being bound (unspecified which binding it denotes)
            self.hidden = {name}
            try:
                e = self.e_of(typ, d)
            finally:
                self.hidden = set()
            self.declare(name, typ)
            return [let(name, e)]
        if r < 0.36:
            vs = self.assignable()
            vs = [v for v in vs if v.typ in ("int", "bool", "str", "float", "arr", "map")]
            if vs:
                v = rnd.choice(vs)
                if v.typ == "arr" and self.chance(0.5):
                    return [expr(asg(idx(ident(v.name), self.probe(I(rnd.randint(0, 2)))), self.probe(self.e_int(d))))]
                if v.typ == "map" and self.chance(0.7):
                    return [expr(asg(idx(ident(v.name), self.probe(I(rnd.randint(0, 3)))), self.probe(self.e_int(d))))]
                return [expr(asg(ident(v.name), self.e_of(v.typ, d)))]
        if r < 0.60:
            return [obs(self.e_any(d))]
        if depth <= 0:
            return [obs(self.e_any(d))]
        if r < 0.70:
            th = self.block_stmts(rnd.randint(1, 3), depth - 1)
            if self.chance(0.5):
                el = self.block_stmts(rnd.randint(1, 2), depth - 1)
                s = expr(if_(self.e_bool(d), th, el))
            else:
                s = expr(if_(self.e_bool(d), th))
            s["multiline"] = True
            return [s]
        if r < 0.80:
            return self.loop_stmt(depth)
        if r < 0.90 and self.fdepth < 2:
            return self.fn_stmt(depth)
        if r < 0.95:
            return [block(self.block_stmts(rnd.randint(1, 3), depth - 1))]
        vs = self.visible("arr")
        if vs:
            return [expr(call("push", ident(rnd.choice(vs).name), self.e_int(d)))]
        return [obs(self.e_any(d))]

    def loop_stmt(self, depth):
        rnd = self.rnd
        c = self.fresh("i")
        label = self.fresh("L") if self.chance(0.3) else ""
        bound = rnd.randint(1, 4)
        pre = [let(c, I(0))]
        self.declare(c, "loopctr")
        self.loops[-1].append(label)
        self.scopes.append([])
        try:
            inc = expr(asg(ident(c), bin_("+", ident(c), I(1))))
            body = [inc]
            body += self.stmts(rnd.randint(1, 3), depth - 1)
            if self.chance(0.5):
                tgt = rnd.choice(self.loops[-1])
                what = brk(tgt) if self.chance(0.5) else cont(tgt)
                # continue to an outer loop is safe: every loop increments its counter first
                body.append(expr(if_(bin_("==", ident(c), I(rnd.randint(1, bound))), [what])))
                body += self.stmts(rnd.randint(0, 2), depth - 1)
        finally:
            self.scopes.pop()
            self.loops[-1].pop()
        if self.chance(0.6):
            return pre + [while_(bin_("<", ident(c), I(bound)), body, lb=label)]
        return pre + [loop([expr(if_(bin_(">=", ident(c), I(bound)), [brk()]))] + body, lb=label)]

    def fn_stmt(self, depth):
        rnd = self.rnd
        name = self.fresh("f")
        arity = rnd.randint(0, 2)
        params = [self.fresh("p") for _ in range(arity)]
        recursive = arity >= 1 and self.chance(0.3)
        as_closure = self.chance(0.35)
        self.fdepth += 1
        self.loops.append([])
        self.scopes.append([])
        try:
            for p in params:
                self.declare(p, "int")
            if recursive:
                # f(n, ..) = if n <= 0 { base } else { step + f(n - 1, ..) }
                rest = [ident(p) for p in params[1:]]
                body = [expr(if_(bin_("<=", ident(params[0]), I(0)), [expr(self.e_int(1))],
                                 [expr(bin_("+", self.probe(self.e_int(1)),
                                            call(name, bin_("-", ident(params[0]), I(1)), *rest)))]))]
            else:
                body = self.stmts(rnd.randint(0, 3), depth - 1)
                if self.chance(0.3):
                    body.append(expr(if_(self.e_bool(2), [ret(self.e_int(2))])))
                body.append(expr(self.e_int(self.max_expr_depth)))
        finally:
            self.scopes.pop()
            self.loops.pop()
            self.fdepth -= 1
        if recursive:
            self.declare(name, "fnrec", arity)
            out = [fndef(name, params, body)]
            args = [I(rnd.randint(0, 5))] + [self.e_int(1) for _ in params[1:]]
            out.append(obs(call(name, *args)))
            return out
        self.declare(name, "fn", arity)
        if as_closure:
            return [let(name, fn(params, body))]
        return [fndef(name, params, body)]

    def program(self, nstmts, depth=2):
        self.declare("OBS", "obs")
        self.declare("P", "probe")
        return [OBS_DECL, PROBE] + self.stmts(nstmts, depth)


def random_program(rnd, nstmts=None, depth=2, features=None, max_expr_depth=3, probes=True):
    g = Gen(rnd, features=features, max_expr_depth=max_expr_depth, probes=probes)
    return g.program(nstmts or rnd.randint(3, 8), depth)
