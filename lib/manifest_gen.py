"""Writes MANIFEST.json from the table below (python3 -m lib.manifest_gen)."""
import json
import os

VERIF = os.path.dirname(os.path.dirname(os.path.abspath(__file__)))

CHECKS = {}
NOT_APPLICABLE = {}


def chk(pid, category, text, note, technique, design):
    CHECKS[pid] = {
        "property_id": pid,
        "quick_cmd": "./check %s --tier quick" % pid,
        "thorough_cmd": "./check %s --tier thorough" % pid,
        "evidence_file": "/verif/evidence/%s.json" % pid,
        "replay_cmd_template": "./check %s --replay {path}" % pid,
        "engine": "tlc+harness",
        "level_claimed": {"category": category, "text": text, "design_ref": design},
        "level_note": note,
        "technique": technique,
    }


chk("C09", "model_checking",
    "TLC enumerates the operator x operand-pair table (spec/GenOps.tla: 16 binary operators x 51^2 boundary "
    "operand pairs + 3 unary operators) and seeded random numeric pairs; every case is executed by the real "
    "scanner/parser/compiler/VM and the execution is validated by TLC against spec/Values.tla (BinOp/UnOp over "
    "exact 64-bit limb arithmetic and a dyadic float model) through spec/Conform.tla. Bounded-exhaustive over "
    "the boundary table, sampled beyond it.",
    "Trusts TLC, the AST renderer (lib/past.py) and the value projection of the harness; float results outside the "
    "dyadic model are not compared; Int64 is itself model-checked against native arithmetic and algebraic laws "
    "(spec/MC_Int64.tla).",
    "TLA+ operator model evaluated by TLC; TLC-enumerated cases replayed into the implementation; executions "
    "trace-validated by TLC", "DESIGN.md section 4, C09")


def main():
    props = [json.loads(l)["id"] for l in open(os.path.join(VERIF, "properties.jsonl"))]
    na = [{"property_id": p, "reason": NOT_APPLICABLE.get(p, "check not built yet in this round (planned, see DESIGN.md section 8)")}
          for p in props if p not in CHECKS]
    m = {
        "version": 1,
        "setup_cmd": "./check setup",
        "hooks": {
            "guard": "p2sh_verif",
            "enable": "RUSTFLAGS='--cfg p2sh_verif' (harness: /verif/harness/.cargo/config.toml; binary: lib/core.py build_binary)",
            "baseline_off_cmd": "cd /repo && cargo test --workspace --no-fail-fast --offline",
            "source_commits": ["dcc789f"],
            "add_only": True,
        },
        "engines": [
            {"name": "tlc+harness", "path": "/verif/check", "serves_properties": sorted(CHECKS),
             "kind_free_text": "TLA+ specifications in /verif/spec checked / evaluated by TLC; Rust harness /verif/harness "
                               "(mounts /repo/src by path) and the hooked p2sh binary for conformance"}
        ],
        "checks": [CHECKS[p] for p in props if p in CHECKS],
        "not_applicable": na,
        "notes": "See DESIGN.md. Known findings: known_findings.json.",
    }
    with open(os.path.join(VERIF, "MANIFEST.json"), "w") as f:
        json.dump(m, f, indent=1)
    print("MANIFEST.json: %d checks, %d not claimed" % (len(m["checks"]), len(na)))


if __name__ == "__main__":
    main()
