"""Writes MANIFEST.json from the table below (python3 -m lib.manifest_gen)."""
import json
import os

VERIF = os.path.dirname(os.path.dirname(os.path.abspath(__file__)))

CHECKS = {}
NOT_APPLICABLE = {}


def chk(pid, category, text, note, technique, design):
    CHECKS[pid] = {
        "property_id": pid,
        "quick_cmd": "./check %s --tier quick" % pid,
        "thorough_cmd": "./check %s --tier thorough" % pid,
        "evidence_file": "/verif/evidence/%s.json" % pid,
        "replay_cmd_template": "./check %s --replay {path}" % pid,
        "engine": "tlc+harness",
        "level_claimed": {"category": category, "text": text, "design_ref": design},
        "level_note": note,
        "technique": technique,
    }


chk("C09", "model_checking",
    "TLC enumerates the operator x operand-pair table (spec/GenOps.tla: 16 binary operators x 51^2 boundary "
    "operand pairs + 3 unary operators) and seeded random numeric pairs; every case is executed by the real "
    "scanner/parser/compiler/VM and the execution is validated by TLC against spec/Values.tla (BinOp/UnOp over "
    "exact 64-bit limb arithmetic and a dyadic float model) through spec/Conform.tla. Bounded-exhaustive over "
    "the boundary table, sampled beyond it.",
    "Trusts TLC, the AST renderer (lib/past.py) and the value projection of the harness; float results outside the "
    "dyadic model are not compared; Int64 is itself model-checked against native arithmetic and algebraic laws "
    "(spec/MC_Int64.tla).",
    "TLA+ operator model evaluated by TLC; TLC-enumerated cases replayed into the implementation; executions "
    "trace-validated by TLC", "DESIGN.md section 4, C09")


chk("C06", "model_checking",
    "TLC enumerates (spec/GenTruth.tla) 31 representative values of every kind in every truthiness position "
    "(!v, if, while) and all 961 ordered pairs for && and || with a side-effect probe as right operand; each "
    "program is executed by the real pipeline and the execution validated by TLC against RefSem/Values.IsFalsey "
    "(the documented table transcribed row by row). Filter-pattern position end to end through the binary. "
    "Exhaustive over the representative table.",
    "Representatives stand for their value class (zero / non-zero, empty / non-empty); trusts TLC, renderer and "
    "value projection.",
    "TLA+ reference semantics evaluated by TLC; TLC-enumerated table replayed into the implementation; executions "
    "trace-validated by TLC", "DESIGN.md section 4, C06")

chk("C10", "model_checking",
    "TLC enumerates (spec/GenMaps.tla) all histories write(k1);write(k2);query(k3) over 16 keys (all cross-kind "
    "equalities named by the property) x 3 ways of writing x 4 queries (thorough: all 36 864, quick: every 5th) "
    "plus seeded random histories of 5-30 operations; executions are validated by TLC against Store's "
    "association-list model (lookup by ValEq) via RefSem/Conform.",
    "Equality between a byte and a number and keys of kind null are unspecified by the property and not compared.",
    "TLA+ association-list model evaluated by TLC; TLC-enumerated histories replayed into the implementation; "
    "executions trace-validated by TLC", "DESIGN.md section 4, C10")


chk("C03", "model_checking",
    "TLC enumerates (spec/GenPrec.tla) all 18x18 ordered operator pairs in both nesting positions and the three "
    "prefix operators over / under / right of every binary operator, searches a leaf domain for operands under "
    "which a tree and its mis-grouped sibling evaluate differently (745 of 810 shapes have such leaves), and "
    "renders each tree minimally from the documented table and fully parenthesised. Both texts run through the "
    "real parser/compiler/VM; TLC validates both executions against RefSem; a difference between the two texts is "
    "a violation. Plus postfix / assignment shapes and seeded random trees of depth 3-4.",
    "The minimal rendering is derived from the documented table (PrecOf); deviations shared by both renderings are "
    "operator semantics (C09), counted as semantic_drift, not reported here.",
    "TLA+ precedence table + reference evaluation by TLC; TLC-generated texts replayed into the implementation; "
    "executions trace-validated by TLC", "DESIGN.md section 4, C03")

chk("C05", "model_checking",
    "TLC enumerates (spec/GenMatch.tla) scrutinee x pattern tables over int/char/byte/string domains: literal, "
    "alternation, exclusive and inclusive ranges with every boundary placement (incl. empty / reversed), one or two "
    "arms, with and without default, every scrutinee incl. one outside the domain, scrutinee behind a probe "
    "(evaluated once), mixed-type arms (must be rejected). Python enumerates all loop nests to depth 2 (3) with "
    "plain / labelled break / continue at every position and if-chains over the truthiness domain. All executions "
    "validated by TLC against RefSem.",
    "A scrutinee of another kind than a range pattern is unspecified; bare nested blocks in tail position are not "
    "generated (unspecified block value).",
    "TLA+ reference semantics evaluated by TLC; enumerated programs replayed into the implementation; executions "
    "trace-validated by TLC", "DESIGN.md section 4, C05")


chk("C02", "model_checking",
    "Seeded random well-formed programs (3-8 statements, expression depth 3, function nesting 2, bounded loops and "
    "recursion; integer boundaries, special floats, non-ASCII strings; probe calls making evaluation order "
    "observable) and ill-formed variants (undefined name, misplaced break/continue/return, unknown label, return in "
    "a filter action, mixed-type match arms) are executed by the real scanner/parser/compiler/VM; each execution "
    "(observation sequence, final value, failed or not, rejected or not) is trace-validated by TLC against the "
    "reference semantics spec/RefSem.tla (direct evaluation of the abstract syntax) via spec/Conform.tla. The "
    "reference semantics itself is exercised bounded-exhaustively by the C03/C05/C06/C09/C10 generators.",
    "Sampled, not exhaustive. Unspecified by the property and not compared: self-reference in a let initialiser, "
    "assignment to a captured variable, value of a bare nested block, float results outside the dyadic model. "
    "Trusts the renderer and the value projection.",
    "TLA+ reference semantics evaluated by TLC as oracle; recorded executions of the implementation trace-validated "
    "by TLC", "DESIGN.md section 4, C02")

chk("C04", "model_checking",
    "Bounded-exhaustive scope skeletons: all sequences / nestings of <= 4 (thorough 5) items from {let x, use x, "
    "assign x, block, function called now and again at the end of its block, if-block} to depth 2 with one "
    "contended name, with and without an outer binding (6 000+ programs), hand-written closure families (capture "
    "then mutate, factories, nested parameters, recursion, block-local capture, loop capture) and seeded random "
    "programs with shadowing. Executions are trace-validated by TLC against RefSem (lexical block scopes, "
    "by-reference globals, by-value capture at closure creation, static rule for unbound names).",
    "Assignment to a captured variable inside a closure and self-reference in a let initialiser are unspecified "
    "and not generated.",
    "TLA+ reference semantics evaluated by TLC; enumerated programs replayed into the implementation; executions "
    "trace-validated by TLC", "DESIGN.md section 4, C04")


chk("C12", "model_checking",
    "spec/Format.tla is a reference renderer of the format mini-language (specifier parser, index / positional argument "
    "selection, fill, width, alignment defaults, radix digits from the 64-bit value, escapes; UTF-8 length for the print "
    "family). TLC (spec/GenFormat.tla) enumerates every specifier of the grammar (5 indexes x 21 alignments incl. the "
    "fills 0 * blank x b : < # 7 x 5 widths x 5 radixes, with and without the colon) between literal text x 6 argument "
    "lists, plus 13 specifiers that set a radix (with and without the colon), a width, a fill or an alignment paired with "
    "7 plain ones in both orders (what one specifier sets must not reach the next), "
    "and checks laws of the renderer on each (width respected, escapes, indexed specifiers do not consume); "
    "seeded random strings of 1-6 pieces incl. 32 malformed shapes with 0-4 random arguments are added. Every case is "
    "evaluated by the real interpreter and spec/FormatTrace.tla compares the returned string / runtime error with "
    "Render. Scripts of 1-6 print / println / eprint / eprintln calls run through the real binary; TLC validates "
    "stdout, stderr and the returned byte lengths.",
    "Unspecified (accepted unless the run crashes): malformed specifiers, radix on negative or non-integer values, "
    "padded non-ASCII text, the display text of characters and bytes; the display text of null, floats and arrays is "
    "what str() of the same run shows. Widths up to 33; index / width numbers of more than 6 digits are unspecified.",
    "TLA+ reference renderer; TLC-enumerated specifier grammar replayed into the interpreter; results and print-family "
    "runs trace-validated by TLC",
    "DESIGN.md section 4, C12")


chk("C13", "model_checking",
    "15 kinds of failing construct x 7 contexts (top level, block, if body, loop body, function, two call levels "
    "deep, if condition) after random preceding code (blank lines, comments, lets, multi-line functions, filter "
    "statements, string literals spanning lines, CRLF line ends); the renderer records the line of every statement, "
    "the real pipeline runs the text and TLC validates the reported line against RefSem (error line = line of the "
    "statement holding the failing construct). Failing constructs in filter actions are run end to end through the "
    "binary.",
    "Constructs are written on one line (as the property requires); message texts are not compared; the filter-action "
    "slice compares against the renderer's line directly.",
    "TLA+ reference semantics (error line rule) evaluated by TLC; recorded executions trace-validated by TLC",
    "DESIGN.md section 4, C13")


chk("C11", "model_checking",
    "TLC enumerates (spec/GenCalls.tla) the 23 pure builtins at their documented arities with every combination of "
    "60 boundary arguments (integer limits, surrogate-range and out-of-range code points, NaN/inf, rounding ties, "
    "non-ASCII strings, valid / overlong / surrogate / truncated UTF-8 byte arrays, mixed arrays) and at every other "
    "arity 0..3 with a reduced set (thorough: all 34 000 cases; quick: argument pairs thinned out). Each call's "
    "result, in-place effect on its first argument, failure and the builtin name in the error message are validated "
    "by TLC against the contracts in spec/Builtins.tla (decimal conversion over Int64, UTF-8 codec written out, "
    "sortedness by the operator model). Seeded random round-trip law programs (int(str(n)), decode(encode(s)), "
    "join(chars(s)), len(encode_utf8(s)), sort).",
    "Where the documentation names an accepted kind but not the result (text of str() for non-integers, char/byte "
    "of out-of-range numbers, rounding ties, non-ASCII case mapping, float(str(x)) for non-dyadic x) only success "
    "and result kind are required; floats outside the dyadic model are not compared.",
    "TLA+ builtin contracts evaluated by TLC; TLC-enumerated calls replayed into the implementation; executions "
    "trace-validated by TLC", "DESIGN.md section 4, C11")

chk("C08", "model_checking",
    "In-process under catch_unwind with a watchdog: TLC-enumerated builtin calls (GenCalls) and operator table "
    "(GenOps, thorough), resource-bound scenarios (recursion with 0/1/3 parameters and mutual, depths around "
    "MAX_FRAMES, 0-300 locals at increasing stack heights, literals and argument lists around STACK_SIZE / 255), "
    "hostile boundary operations, seeded random programs; validated by spec/Conform.tla where a panic, abort or hang "
    "is never an allowed outcome. End to end through the binary with packet input, validated by spec/Total.tla: "
    "exit(n) status, runtime errors in filter patterns / actions / end filters, break / continue / return in "
    "actions, filters inside functions / blocks / loops, non-boolean patterns, empty / garbage / missing input.",
    "Totality is a property of the implementation that a specification cannot see; the specification states the "
    "allowed terminal outcomes and the conformance layer observes the real process. Excluded as in the property: "
    "memory exhaustion, self-containing containers.",
    "TLA+ outcome specification; enumerated and random cases executed by the implementation; executions "
    "trace-validated by TLC", "DESIGN.md section 4, C08")


chk("C07", "model_checking",
    "Programs carry a marker statement between the statements of every block; the real VM runs them with hook H2 "
    "recording (frame depth, function, ip, opcode, sp) before every instruction; spec/VMTrace.tla validates every "
    "trace: all statement boundaries of a block within one activation see the same sp, every backward jump to a loop "
    "head arrives with the same sp, a normal end has sp = 0. Families: seeded random programs, all loop nests with "
    "plain / labelled break / continue at every position, break / continue / return in 19 operand positions x while / "
    "loop, long runs (thorough 10^4 iterations, sparse tracing); end to end 10^5-iteration loops never report a "
    "stack overflow.",
    "The per-instruction effect table only localises a leak (drift), the three trace rules are the verdict. Open "
    "known findings: break / continue taken inside an expression in operand position (18 signatures).",
    "TLA+ trace specification of the VM's stack discipline; recorded instruction traces of the real VM validated "
    "by TLC", "DESIGN.md section 4, C07")

chk("C14", "model_checking",
    "Spec level: TLC model-checks Decode(Encode(i)) = i for all 48 opcodes, every 1-byte operand value and "
    "boundary / stratified 2-byte values (spec/MC_Bytecode.tla, 75 k states). Conformance: the harness pushes every "
    "opcode x every operand tuple of its widths (17.4 M tuples) through the real make / read_operands; per-opcode "
    "totals and a stratified sample are validated by TLC (spec/CodecTrace.tla) against Bytecode.Encode / Decode with "
    "the width table measured from the real encoder. The VM side: instruction traces of random programs and loop "
    "nests validated by spec/VMTrace.tla (each fetch is where the previous instruction, decoded with the encoder's "
    "widths, leads). Limits: programs at limit-1 / limit / limit+1 for locals, call arguments, captured variables and "
    "the constant pool (thorough: array elements, jump distance) must run correctly or be rejected.",
    "Global-index and REPL-accumulated limits are not instantiated (quadratic compile time); they share the emit-time "
    "check. A consistent change of a width in encoder, decoder and VM is model drift, not a violation.",
    "TLA+ bytecode format model-checked by TLC; exhaustive operand sweep of the real codec and recorded VM traces "
    "validated by TLC", "DESIGN.md section 4, C14")


chk("C01", "model_checking",
    "The pipeline is specified as a state machine (spec/Pipeline.tla: every stage hands over or diagnoses; invariant "
    "diagnosed => not executed; termination) and model-checked. Conformance: in-process under catch_unwind with a "
    "watchdog, every string over a 52-character class alphabet (each predicate the scanner applies has "
    "representatives, incl. non-ASCII alphabetic / numeric, NUL, CR) to length 3 (thorough 4), every token string "
    "over 58 tokens to length 2 (3), random token soup, rendered random programs with random token / character "
    "deletions, insertions, duplications and swaps, bracket nests to depth 64 with cuts, corner texts; the outcome "
    "must be compiled | parse-diagnosed | compile-diagnosed. End to end through the binary with a probe statement "
    "in front: the observation (diagnostics printed, probe executed) is validated by TLC (spec/PipelineTrace.tla) "
    "against the machine's terminal observations.",
    "Characters are covered by class representatives, not all scalars; the token stream itself is not compared "
    "(the property demands totality).",
    "TLA+ pipeline state machine model-checked by TLC; bounded-exhaustive and random texts executed by the real "
    "front end; end-to-end observations trace-validated by TLC", "DESIGN.md section 4, C01")


chk("C18", "model_checking",
    "Reference parsers for MAC, IPv4 and RFC 4291 IPv6 text are written in TLA+ (spec/Addr.tla) and their laws "
    "model-checked (spec/MC_Addr.tla). TLC enumerates (spec/GenAddr.tla) IPv6 texts with '::' at every (start, "
    "length) placement and none x 3 group patterns x 4 spellings (case, leading zeros), malformed mutations (second "
    "'::', extra group, five digits, non-hex, stray colons, blanks, signs, fixed corner texts), MAC / IPv4 octet "
    "boundary spellings at every position and malformed shapes. Each text is assigned to an address property of a "
    "fixed frame through the real interpreter; acceptance, the text read back and the bytes written by pcap_write "
    "are validated by TLC (spec/AddrTrace.tla). Random addresses: the displayed text of one field assigned to "
    "another must store the same address.",
    "The display style is free: the text read back is parsed by the reference parser. IPv4 octets with leading zeros "
    "and the IPv4-tail form of IPv6 are unspecified.",
    "TLA+ reference parsers evaluated by TLC; TLC-enumerated texts replayed into the implementation; results "
    "trace-validated by TLC", "DESIGN.md section 4, C18")


PKT_NOTE = ("Packet.tla holds the layouts (pcap record header, Ethernet II, 802.1Q, RFC 791 / 8200 / 9293 / 768) and the "
            "dispatch rules; scripts reach the packet through pcap_read_next or as current packet ($n); results come back "
            "through an observation array and the files written. ")

chk("C15", "model_checking",
    "Structure-aware random frames (Ethernet, 0-2 VLAN tags, QinQ, IPv4 with every IHL and options, IPv6, IPv6-in-IPv4, "
    "TCP with every data offset, UDP, unknown selectors) truncated at every layer boundary +-1 and inside every header "
    "(thorough: every byte offset) x random histories of 1-8 reads ($n and named paths, along the structure and astray) "
    "with writes through pcap_write and write(file, packet), also between reads; filter-mode output end to end. The "
    "history is validated by TLC (spec/PacketTrace.tla): reads leave the specification state (hdr, raw) unchanged, so "
    "every write must equal hdr o raw; a crash while reading is a violation.",
    PKT_NOTE + "Sampled, not exhaustive.",
    "TLA+ packet specification; recorded read/write histories of the real interpreter trace-validated by TLC",
    "DESIGN.md section 4, C15")

chk("C16", "model_checking",
    "Random frames x truncations x random reads, and field tables: 36 scalar fields x (every value up to 8 bits "
    "[thorough 12], boundary and walking-one/zero patterns otherwise) x all-zero / all-one / alternating surroundings; "
    "dispatch values around every supported EtherType / protocol / next header for named and $n access; $0..$11 on "
    "stacks of several depths; record-header values above 2^31 and documented aliases. Every value the script observed "
    "(integer, boolean, address text via the reference parsers, payload bytes, layer object / null / error object) is "
    "validated by TLC against spec/Packet.tla.",
    PKT_NOTE + "Where a payload ends (captured bytes or length field) is accepted either way; $n beyond 10 and header "
    "lengths below the minimum are unspecified. 16-bit fields are covered by boundary / walking patterns, not all values.",
    "TLA+ packet layouts evaluated by TLC; recorded reads of the real interpreter trace-validated by TLC",
    "DESIGN.md section 4, C16")

chk("C17", "model_checking",
    "Every writable property x in-range values (all values up to 8 bits [thorough 12], boundary / walking bits otherwise) "
    "x above-range, negative, wrong-kind values, valid and malformed address texts, read-only properties, on four "
    "layer stacks with options; after each assignment every property of every layer on the path is read and the packet "
    "written; random histories of 2-4 assignments with reads and writes in between. TLC validates each history "
    "against the nondeterministic assignment action of spec/PacketTrace.tla: an in-range value patches exactly the "
    "field's bits of (hdr, raw); an invalid value is refused (runtime error, state unchanged) or stored reduced to the "
    "field's width; reads and written bytes must then follow from the patched bytes.",
    PKT_NOTE + "After an assignment to a field that selects the next layer or gives a header length, later reads are "
    "not compared (cached layers vs. new structure is unsettled); the written bytes still are. Payload of an enclosing "
    "layer may show the captured or the new bytes.",
    "TLA+ packet specification with nondeterministic assignment action; recorded histories trace-validated by TLC",
    "DESIGN.md section 4, C17")


chk("C19", "model_checking",
    "spec/PcapFile.tla is a cursor / delivered state machine whose calls have outcome sets (ReadNext: the next record, "
    "then null or - only if damaged - an error object; ReadAll(n): the next min(n, remaining) records, never losing "
    "records already read); TLC model-checks PrefixInOrder, ExactlyOnce and NothingLost under all interleavings of up "
    "to 6 calls for files of 0-4 records, damaged or not. Conformance: random pcap files (0-50 records, sizes around "
    "0/1/the 8192-byte BufReader boundary/65535, both magics, small / huge snaplen) cut at random (thorough: every) "
    "byte offsets or corrupted (caplen above snaplen, bad magic, short header, trailing garbage), read by random "
    "interleavings of pcap_read_next / pcap_read_all(f[, n]); every returned packet is written with pcap_write and "
    "read back; plus files of small records laid out so that a record header begins 1..15 bytes before a multiple of "
    "8192 (the refill of the reader's buffer), intact and cut just behind it. "
    "spec/PcapFileTrace.tla parses the file bytes itself and validates every call against the outcome sets.",
    "Big-endian captures count as bad magic (the property names the two little-endian magics).",
    "TLA+ state machine model-checked by TLC; recorded call histories of the real interpreter trace-validated by TLC",
    "DESIGN.md section 4, C19")


chk("C20", "model_checking",
    "spec/FilterMode.tla specifies the stream loop as a deterministic step function over the phases main / header / "
    "packet / filter / end with the program's counter, the current packet as modified so far, the probe log and the "
    "output; TLC model-checks MainOnceFirst, Ordered (packets in order, filters in source order, NP = index), "
    "VarsMatchRecord (PL, WL, TSS, TSU), EndOnceLast, OutputShape (header = input's, -s writes no pcap), "
    "WritesBounded, agreement of machine and functional run, and termination over a program library x 0-3 packets x "
    "-s (14 k states). Conformance: random pcap streams (0-40 packets, both magics, varied snaplen / linktype / "
    "version / zone) x generated programs of 0-4 filters in the same vocabulary (patterns over NP, PL, WL, TSS, TSU, a "
    "global counter, ($1).type, ($2).ttl; actions bumping the counter, assigning ($2).ttl, defining a local; with / "
    "without end; with / without -s) run through the real binary; stderr probes and stdout bytes are validated by "
    "spec/FilterTrace.tla against the machine's run.",
    "Programs are drawn from the vocabulary the specification interprets; frames are Ethernet / IPv4; timestamps below "
    "2^31; a runtime error inside a filter is outside the claim.",
    "TLA+ state machine model-checked by TLC; recorded end-to-end runs of the binary trace-validated by TLC",
    "DESIGN.md section 4, C20")


chk("C21", "model_checking",
    "spec/FileIO.tla models one read handle: cursor, bytes arrived, writer closed; environment actions Deliver(chunk) "
    "and CloseWriter interleave with blocking Read(n) / ReadAll / ReadLine; TLC checks PrefixExactlyOnce and "
    "ShortOnlyAtEOF under every delivery schedule for contents with and without newlines (up to 8.5 k states each). "
    "Conformance: random binary / UTF-8 contents with sizes around the 4096-byte loop buffer and the 8192-byte "
    "BufReader (to 3 x 8192 + 1) x random sequences of read(f, n), read(f), read_line(f), read_to_string(f) on files "
    "(in-process) and on stdin fed through a pipe in random chunk schedules with pauses (through the binary); every "
    "result is validated by spec/FileIOTrace.tla. Open-mode matrix mode x existed x 0-3 writes x flush through the "
    "binary against AfterExit / OpenFails.",
    "Byte-count reads on UTF-8 contents are kept on character boundaries (a string-returning call cannot return half a "
    "character); only a finite set of schedules is realised - the required result is schedule-independent.",
    "TLA+ state machine with environment interleavings model-checked by TLC; recorded call histories trace-validated by TLC",
    "DESIGN.md section 4, C21")


chk("C22", "model_checking",
    "spec/IOFaults.tla specifies a program of I/O operations whose outcome the environment decides through the target "
    "each operation is pointed at (operation x target table of 44 entries in spec/IOFaultOps.tla: ENOENT, EISDIR, "
    "ENOTDIR, EEXIST under mode x, ENOSPC via /dev/full, garbage / short / empty pcap content, consumed or garbage "
    "stdin); TLC model-checks NeverAborts, ErrIffFault and RunsToEnd for all programs of up to two operations. TLC "
    "(spec/GenFaults.tla) enumerates every program of one or two operations (thorough: plus every 29th of three); the "
    "driver prepares the targets in a private directory, the real binary runs the script, which prints "
    "is_error(result) after every operation and a final sentinel; spec/FaultTrace.tla validates: error object iff "
    "failure, ran to the end, no runtime error, normal exit.",
    "EACCES is not exercised (the checks run as root). Failures are those the environment can provoke through targets, "
    "not injected at arbitrary system calls.",
    "TLA+ fault model; TLC-enumerated fault sequences replayed into the binary; results trace-validated by TLC",
    "DESIGN.md section 4, C22")


chk("C23", "model_checking",
    "spec/Repl.tla defines RunLine over the reference semantics' top-level state with the outcome classes parse / "
    "compile (state unchanged) / ok / rterror (what ran stays); TLC model-checks RejectedLineHasNoEffect and "
    "LikeOneProgram over all histories of up to 4 lines of a 10-line library (11 k states). Conformance: random "
    "sessions of 1-12 lines (definitions, redefinitions of existing names, function definitions, uses, assignments, "
    "loops, unparsable lines, compiler-rejected lines incl. ones that would redefine an existing name, lines failing "
    "at run time after a side effect, blank and backslash-continued lines) are fed to the real run_prompt loop of the "
    "hooked binary (scripted line source); after every line a probe prints the observation array; "
    "spec/ReplTrace.tla validates each line's outcome class and the state after it.",
    "The REPL's own echo of a line's value is not compared (unspecified); observations are integers; a redefinition "
    "whose initialiser mentions the redefined name is not generated (unspecified).",
    "TLA+ state machine over the reference semantics model-checked by TLC; recorded REPL sessions trace-validated by TLC",
    "DESIGN.md section 4, C23")


chk("C24", "model_checking",
    "spec/Cli.tla defines Argv(mode, path, args) and Echo(program) - what -c prints in addition, decided by the "
    "reference semantics from the final expression statement's value. Random programs printing their observations, "
    "with 9 kinds of final statement, x 10 argument vectors (none, one, several, empty string, non-ASCII, dash-prefixed "
    "after --) are run by the real binary from a script file, with -c, and from a script file with a shebang line; TLC "
    "validates stdout(-c) = stdout(file) + Echo, equal stderr, shebang run = plain run with line numbers shifted by "
    "one, and the argv each run printed = Argv.",
    "The text of the echo is fixed only for integer and boolean values (other kinds: exactly one line); after a final "
    "statement that is not an expression statement an echo line is accepted. Maps in printed values have at most one "
    "entry (display order of maps is not settled).",
    "TLA+ definition of the mode relation evaluated by TLC over recorded runs of the real binary in all three modes",
    "DESIGN.md section 4, C24")


# extensions made after the first registration (appended to the level text)
EXTRA = {
    "C01": " Scanner level: spec/Scanner.tla is the scanner over character classes as a state machine; TLC checks IndexInBounds, "
           "Progress, Bounded (at most one token per character) and LineOK for every class string up to length 3 (thorough 4), "
           "and spec/ScanGen.tla writes the token kinds it prescribes for each; the real scanner's token stream on a concrete "
           "text of every shape is compared with them (30 784 shapes, drift reported in evidence: 0 on the current tree). Bracket "
           "nests also come as one kind of bracket 16 / 40 / 64 deep around texts that refer to builtins and globals (name "
           "resolution through every enclosing scope must stay bounded). A hang is confirmed by running the text alone with a "
           "long deadline; after 12 confirmed hangs the rest of a family is skipped (the verdict is settled)."
           " A scanner that does not return on a text of some shape (where the model ends on every text) is reported as a violation; the comparison resumes behind the text (per-text deadline, confirmation alone, at most 6 hangs).",
    "C02": " A strided sample of the deterministic families of C04 / C05 / C07 (scope skeletons as function bodies - all of "
           "those with a function inside a block -, loop nests, return in operand positions) and an alias matrix (11 ways of "
           "obtaining an array from existing ones x 5 ways of changing the result, maps through variables / containers / calls; "
           "all originals observed) are included; ill-formed variants also place the return inside a filter written in a "
           "function or closure. A part of the programs is also replayed instruction by instruction: the real VM in lock step "
           "with the machine specification spec/VM.tla on the code the real compiler emitted, and the machine's outcome on that "
           "code against RefSem on the source (spec/VMRun.tla) - a per-program translation validation of the compiler inside TLC."
           " Ill-formed variants include assignments whose target has nowhere to store (RefSem's static rule 'lvalue').",
    "C03": " Every enumerated tree is also written in 13 syntactic positions (match arm as expression / block / after an "
           "alternation pattern, if and else bodies, array element, call argument, function tail, return value, let initialiser, "
           "map value, loop-body assignment, closure body) in both renderings, which must behave alike; a strided part is "
           "validated against RefSem.",
    "C04": " Every skeleton is generated at top level (bindings are globals) and as the body of a function (bindings are locals "
           "of an activation, inner functions are closures; x unbound outside / global / parameter); a use reads the name twice. "
           "A further family fixes what a function's own name denotes: recursion through closures nested one and two deep, a "
           "returned closure calling its maker, parameters / locals / inner functions of the same name, for fn statements and "
           "let-bound literals.",
    "C05": " Pattern tables include alternations mixing ranges and literals (a range that is not the last alternative, two "
           "ranges, a reversed range then a literal); if-chains draw on a falsey and a truthy representative of every kind of "
           "the documented truthiness table (all chains of length 1-2, sampled beyond); loop nests also come with one label on "
           "every level (a labelled break / continue names the nearest enclosing loop so labelled); if / match with 9 kinds of "
           "branch bodies (value, let, empty, statements, assignment, nested if, observation only, nested block) in 5 value "
           "positions (array element, call argument, operand, let initialiser, map value)."
           " A further table crosses scrutinees of one kind (integers, bytes, chars, floats incl. NaN / infinities, strings, booleans, null) with range / literal patterns of another around one pair of bounds: RefSem settles 'contains' by the relational operators where they are defined (same kind, integer / float mixes), settles a byte against an integer range (or the reverse) far outside the bounds as not contained, and leaves the rest open; true / false in arms of their own do not make a match exhaustive.",
    "C06": " Values of kinds the table does not list (error object, builtin function, closure, named function, file handle) in "
           "every position; every && / || expression over 17 atoms printed at top level and inside a filter action of the same "
           "run (578 expressions) must print alike."
           " The table's values also come in their other written forms directly in each position (the NUL character / byte as a literal holding the raw character, comparisons and negated comparisons incl. the unordered ones with NaN, double negation: 1 196 settled cases). With the output not suppressed, a falsey value never selects the packet - neither as the pattern of a filter without an action (only `true` selects there) nor in front of an action. Stacked negations (1, 2, 4) as the condition of an if / else and of the last link of an else-if chain; && and || behind 36 KB of code (jump targets beyond 32 KiB), at top level and in a function.",
    "C07": " Further families: every block-carrying construct in statement position x every kind of last statement of its block "
           "(13 x 10, at top level and inside a function); $n outside packet processing; loop nests with one label on every "
           "level. The same executions are replayed in lock step against the machine specification spec/VM.tla by "
           "spec/VMRun.tla (one TLC state per executed instruction): a stack height that differs from what the instruction's "
           "meaning gives is reported with the instruction after which it arose. End to end also in filter mode: nine kinds of "
           "filter programs over 3 000 (12 000) packets must neither overflow nor lose count."
           " Assignments whose target has nowhere to store (a literal, a call, a container / function literal, an if / match value, $n, a predefined name; 18 targets x 6 places x top level / function / filter action) must be refused by the front end (RefSem static rule 'lvalue') - they used to compile into two pushes and one pop. Statements whose operand counts sit at the edge of one instruction (255 / 256 call arguments, 255-257 literal elements) inside loops. Filter mode also with patterns that are not booleans (the reported-packet path has to release the action's locals).",
    "C08": " In-process families include every string over the characters of the format mini-language up to length 4 (5) as "
           "format of format / eprint. The end-to-end slice includes a matrix of 10 places a filter statement can be written "
           "(top level, function, uncalled function, block, loop, if, nested function, closure, match arm, filter action) x 23 "
           "patterns / actions, and structure-aware random frames cut at every layer boundary through five filter-mode programs "
           "that print, descend into and write every layer. Spec level: TLC runs the bytecode machine spec/VM.tla by itself "
           "(spec/MC_VM.tla, deadlock checking on) on the code the real compiler emitted for a part of the programs and checks "
           "NeverStuck, NoUnderflow, FramesNested, EndsBalanced and FetchAligned in every reachable state."
           " The TLC-enumerated calls include 13 builtins that are not pure (rand, strerror, get_errno, read / write / read_line / read_to_string / pcap_* with arguments that are no file, print, eprintln) - their results are not prescribed, but no argument may crash them; programs sitting exactly on, under and over the limits of locals, call arguments and captured variables.",
    "C09": " Every operator is also applied to one stored value on both sides (variable, array slot, argument) for every "
           "operand of the table: an operator must see values, not where they live."
           " Doubles far outside the dyadic model (1e-300, subnormals, 2.2e-16, 1e300 ...) as operands of every operator with nine partners in both orders: the model knows only that they are finite and not zero - so nothing divides by zero, arithmetic yields a float, bitwise operators refuse them. + on arrays builds a new array whatever the operands (an empty one, the same one twice): changing the result or an operand afterwards does not show through. The answers of the six comparison operators on every ordered operand pair of the table (2 601 pairs, both orders) are validated against spec/OpLawTrace.tla: the four ordering operators accept or refuse a pair together, <= is (< or ==), >= is (> or ==), never both < and >, != negates ==, and swapping the operands mirrors the answers - also for pairs whose ordering the documentation leaves open.",
    "C10": " The relation itself: all ordered pairs of 28 keys of every kind through one fixed history (write under k1; observe "
           "k1 == k2, contains, the value insert replaces, len, get, index) validated by spec/MapEqTrace.tla: the map must agree "
           "with whatever == says about the pair - this covers pairs whose equality the documentation leaves open."
           " The key domain of the relation includes NaN (alone and inside arrays) and, for every key, the pair made of one object under two names; a write under an equal key replaces the stored value even when the new value equals the old one (1 / 1.0, 0.0 / -0.0, a byte / an integer, two arrays with equal contents one of which is changed afterwards) through both ways of writing.",
    "C11": " Law programs cover round(x, n) for every accepted precision (values with at most n binary places are their own "
           "rounding; non-finite values are left alone), sorting of neighbouring integers far from zero, and join with "
           "delimiters that also occur as elements."
           " Container contracts: numerically equal keys of different kinds through insert / get / contains with 0 / 3 / 40 other entries; first / last / rest / len / sort / join / str / contains / get leave the array they are handed as it was (observed through an alias).",
    "C13": " String, character and byte literals spanning lines include ones that end or start with a line break and ones made "
           "of line breaks only."
           " Expressions written over several lines (12 ways of placing the failing construct on a later line than the statement's first: operands, arguments, elements, map values, match arms and scrutinees, if / else branches, closure bodies, nested): the renderer marks, per node, the token the failing operation is compiled from and RefSem reports that line. A match whose scrutinee cannot be ordered against a range pattern fails on the arm's line (RefSem: PatHolds 'e'). End to end: failures that exist only while a packet is processed ($n beyond the deepest layer, a header field assigned a value of the wrong kind) in actions and in functions called from actions; scripts of 65 534 - 70 003 (thorough 200 001) lines. Comment lines of every form (with / without text, # and //, trailing blanks) in front of statements; rejected assignments to fields of every layer (Ethernet, IPv4, TCP, record header) in filter actions.",
    "C14": " Forward-jump distance scenarios (if / while exit [thorough: match arm]) just under and over 65535 bytes run in "
           "both tiers. The traced executions are also replayed in lock step against spec/VM.tla (spec/VMRun.tla): every "
           "operand-bearing instruction must have the effect its encoded operand prescribes (ip, opcode, function, digest of "
           "the top of stack after each instruction). Opcodes are identified by the names the real code gives them, measured "
           "together with the widths. The codec law is also established by Apalache for every operand value and every operand "
           "layout at once (spec/BytecodeInd.tla, symbolic integers)."
           " Every kind of jump (if / else, while, loop + break, continue, labelled break / continue, match, && / ||) behind a stretch of straight-line code just short of / just beyond the reach of a 16-bit target, and the stretch inside the loop (only the way out is out of reach); closures called where they are written with 255 / 256 captured variables; 65 536 / 65 537 global variables.",
    "C17": " Two-assignment sequences pair a field of one layer with a structure-selecting field re-assigned the value it "
           "already has (structure unchanged, so every later read stays decided), in both orders."
           " Frames the fixed stacks do not have: two 802.1Q tags in a row (assignments to the inner tag and below it), IPv4 / TCP headers whose length field is below the minimum (an assignment still patches exactly its bits). IPv6 tunnelled in IPv4 (protocol 41), the outer header with and without options, assignments to the inner layers.",
    "C19": " Every 4th history reads the same bytes as a stream on standard input (pcap_stream(stdin)) through the binary; the "
           "record header pcap_write writes is compared too. NothingLost is also discharged as an inductive invariant by "
           "Apalache (spec/PcapFileInd.tla, the typed form of the machine): base case and inductive step for every file of up "
           "to 5 records of arbitrary content, i.e. for call histories of every length.",
    "C20": " A third of the streams have a snaplen equal to the longest captured length."
           " A fifth of the programs end in a filter whose pattern is not a boolean (NP % m, cnt): a falsey value - or any value without an action - is reported (event FAULT in spec/FilterMode.tla) and selects nothing, and the packets after it keep their numbers.",
    "C21": " Writes are texts, single bytes (every value) and byte arrays; after flush(f) a second handle must see everything "
           "written so far. The machine's invariant (results are a prefix of the content, each byte once; short only at the end; "
           "a call is answered only from bytes that have arrived) is also discharged as an inductive invariant by Apalache "
           "(spec/FileIOInd.tla): contents of up to 8 arbitrary bytes, every delivery schedule, call histories of every length."
           " Programs end with their last statement, with exit(n) or with a runtime error: what was written is in the file in every case. Text asked of input that is not well-formed UTF-8 (read_line / read_to_string on binary content, on a sequence cut short at the end) must be an error object, never an altered text (WellFormedUtf8 in spec/FileIOFn.tla). Two or three writers open at once, written to in turns, x every way of ending; a quarter of the pipe runs reach the standard input through open of /dev/stdin.",
    "C23": " Rejected lines include ones the compiler rejects after entering nested scopes and making definitions there (block, "
           "if, loop, named function body, anonymous function); later lines read names from nested scopes."
           " What every accepted line prints is compared with what the same line prints as the last line of a script made of the lines accepted before it (both recorded, spec/ReplTrace.tla 'output'), including lines that are just a value (falsey ones too); sessions define functions whose bodies are the same text under parameter lists of different length and call them.",
    "C24": " Programs start with 0-4 comment / blank lines (under the shebang line in shebang mode)."
           " A quarter of the texts have CRLF line ends; string literals spanning lines (the line end inside the quotes is part of the string). After a runtime error -c adds nothing to the output (spec/Cli.tla: the final expression statement has no value).",
    "C12": " Print scripts include texts with a line break followed by 700-5 000 characters without one (the standard output is line buffered: the tail goes out in a write of its own).",
    "C16": " The seven properties of the pcap object against the 24 bytes of the global header (spec/PcapHdrTrace.tla: byte order from the magic number, thiszone signed, the others unsigned; boundary and random values of every field).",
    "C18": " Addresses of an IPv4 header that carries options.",
    "C22": " The operation table has 58 entries: content that stops being pcap behind a valid global header (damaged first record; damage after a good record: the good record is delivered, every read at and after the damage fails), a magic number that is wrong in its low half only, a pcap stream on a full standard output.",
}


def main():
    for pid, extra in EXTRA.items():
        CHECKS[pid]["level_claimed"]["text"] += extra
    props = [json.loads(l)["id"] for l in open(os.path.join(VERIF, "properties.jsonl"))]
    na = [{"property_id": p, "reason": NOT_APPLICABLE.get(p, "check not built yet in this round (planned, see DESIGN.md section 8)")}
          for p in props if p not in CHECKS]
    m = {
        "version": 1,
        "setup_cmd": "./check setup",
        "hooks": {
            "guard": "p2sh_verif",
            "enable": "RUSTFLAGS='--cfg p2sh_verif' (harness: /verif/harness/.cargo/config.toml; binary: lib/core.py build_binary)",
            "baseline_off_cmd": "cd /repo && cargo test --workspace --no-fail-fast --offline",
            "source_commits": ["dcc789f", "6113cbd", "9f8ac1e"],
            "add_only": True,
        },
        "engines": [
            {"name": "tlc+harness", "path": "/verif/check", "serves_properties": sorted(CHECKS),
             "kind_free_text": "TLA+ specifications in /verif/spec checked / evaluated by TLC; Rust harness /verif/harness "
                               "(mounts /repo/src by path) and the hooked p2sh binary for conformance"}
        ],
        "checks": [CHECKS[p] for p in props if p in CHECKS],
        "not_applicable": na,
        "notes": "See DESIGN.md. Known findings: known_findings.json.",
    }
    with open(os.path.join(VERIF, "MANIFEST.json"), "w") as f:
        json.dump(m, f, indent=1)
    print("MANIFEST.json: %d checks, %d not claimed" % (len(m["checks"]), len(na)))


if __name__ == "__main__":
    main()
