"""Packet histories (C15-C17): frames, access / assignment histories, the script that performs a
history on the real interpreter, and the trace records spec/PacketTrace.tla validates."""
import os
import struct

from . import core, pcapfmt
from .past import limbs

LAYER_PROPS = {
    "pkt": ["sec", "usec", "nsec", "caplen", "wirelen"],
    "eth": ["dst", "src", "type"],
    "vlan": ["priority", "dei", "id", "type"],
    "ipv4": ["version", "ihl", "dscp", "ecn", "totlen", "id", "flags", "fragoff", "ttl", "proto", "checksum", "src", "dst"],
    "ipv6": ["version", "trafficclass", "flowlabel", "len", "nextheader", "hoplimit", "src", "dst"],
    "tcp": ["srcport", "dstport", "seq", "ack", "dataoff", "len", "flags", "winsize", "checksum", "urgent"],
    "udp": ["srcport", "dstport", "len", "checksum"],
}
FIELD_BITS = {("eth", "type"): 16, ("vlan", "priority"): 3, ("vlan", "id"): 12, ("vlan", "type"): 16,
              ("ipv4", "ihl"): 4, ("ipv4", "dscp"): 6, ("ipv4", "ecn"): 2, ("ipv4", "totlen"): 16, ("ipv4", "id"): 16,
              ("ipv4", "flags"): 3, ("ipv4", "fragoff"): 13, ("ipv4", "ttl"): 8, ("ipv4", "proto"): 8, ("ipv4", "checksum"): 16,
              ("ipv6", "trafficclass"): 8, ("ipv6", "flowlabel"): 20, ("ipv6", "len"): 16, ("ipv6", "nextheader"): 8,
              ("ipv6", "hoplimit"): 8, ("tcp", "srcport"): 16, ("tcp", "dstport"): 16, ("tcp", "seq"): 32, ("tcp", "ack"): 32,
              ("tcp", "dataoff"): 4, ("tcp", "len"): 4, ("tcp", "flags"): 8, ("tcp", "winsize"): 16, ("tcp", "checksum"): 16,
              ("tcp", "urgent"): 16, ("udp", "srcport"): 16, ("udp", "dstport"): 16, ("udp", "len"): 16, ("udp", "checksum"): 16,
              ("pkt", "sec"): 32, ("pkt", "usec"): 32, ("pkt", "nsec"): 32, ("pkt", "caplen"): 32, ("pkt", "wirelen"): 32}
# fields that select the next layer or give a header length
STRUCTURAL = {("eth", "type"), ("vlan", "type"), ("ipv4", "proto"), ("ipv4", "ihl"), ("ipv6", "nextheader"), ("tcp", "dataoff"),
              ("tcp", "len"), ("pkt", "caplen")}
ADDR_FIELDS = {("eth", "src"): "mac", ("eth", "dst"): "mac", ("ipv4", "src"): "ipv4", ("ipv4", "dst"): "ipv4",
               ("ipv6", "src"): "ipv6", ("ipv6", "dst"): "ipv6"}
LAYER_NAMES = ["eth", "vlan", "ipv4", "ipv6", "tcp", "udp"]


# ------------------------------------------------------------------ frames
def rbytes(rnd, n):
    return bytes(rnd.randrange(256) for _ in range(n))


def build_frame(rnd, shape=None):
    """structure-aware random frame; returns (bytes, list of (kind, offset))"""
    layers = []
    out = b""
    nv = rnd.choice([0, 0, 0, 1, 2])
    l3 = rnd.choice(["ipv4", "ipv4", "ipv4", "ipv6", "ipv6", "other", "qinq"])
    if shape:
        nv, l3 = shape
    etypes = {"ipv4": 0x0800, "ipv6": 0x86DD, "other": rnd.choice([0x0806, 0x0801, 0x88CC, 0, 0xFFFF]), "qinq": 0x9100}
    first = 0x8100 if nv else etypes[l3]
    layers.append(("eth", 0))
    out += rbytes(rnd, 12) + struct.pack(">H", first)
    for i in range(nv):
        layers.append(("vlan", len(out)))
        nxt = 0x8100 if i + 1 < nv else etypes[l3]
        out += struct.pack(">HH", rnd.randrange(65536), nxt)
    if l3 == "ipv4":
        ihl = rnd.choice([5, 5, 5, 6, 8, 15, rnd.randrange(16)])
        proto = rnd.choice([6, 6, 17, 17, 41, 1, 0, 255, rnd.randrange(256)])
        layers.append(("ipv4", len(out)))
        h = bytearray(rbytes(rnd, 20))
        h[0] = (rnd.choice([4, 4, 4, rnd.randrange(16)]) << 4) | ihl
        h[9] = proto
        opts = bytes((0xA0 + i) & 0xFF for i in range(max(0, ihl - 5) * 4))
        l4len = rnd.choice([0, 8, 20, 30, 60])
        struct.pack_into(">H", h, 2, rnd.choice([len(h) + len(opts) + l4len, rnd.randrange(65536), 0]))
        out += bytes(h) + opts
        l4 = {6: "tcp", 17: "udp", 41: "ipv6"}.get(proto)
    elif l3 == "ipv6":
        nh = rnd.choice([6, 6, 17, 17, 0, 58, rnd.randrange(256)])
        layers.append(("ipv6", len(out)))
        h = bytearray(rbytes(rnd, 40))
        h[0] = (rnd.choice([6, 6, rnd.randrange(16)]) << 4) | (h[0] & 15)
        h[6] = nh
        out += bytes(h)
        l4 = {6: "tcp", 17: "udp"}.get(nh)
    else:
        l4 = None
        out += rbytes(rnd, rnd.randrange(0, 30))
    if l4 == "tcp":
        layers.append(("tcp", len(out)))
        do = rnd.choice([5, 5, 5, 6, 10, 15, rnd.randrange(16)])
        h = bytearray(rbytes(rnd, 20))
        h[12] = (do << 4) | (h[12] & 15)
        out += bytes(h) + bytes((0xC0 + i) & 0xFF for i in range(max(0, do - 5) * 4)) + rbytes(rnd, rnd.randrange(0, 24))
    elif l4 == "udp":
        layers.append(("udp", len(out)))
        pl = rbytes(rnd, rnd.randrange(0, 24))
        # the length field may say less than was captured (padding, trailers, bogus lengths) or more
        ulen = rnd.choice([8 + len(pl), 8 + len(pl), rnd.randrange(65536), 0, 7, 8, 8 + len(pl) // 2, max(0, 8 + len(pl) - 1)])
        out += struct.pack(">HHHH", rnd.randrange(65536), rnd.randrange(65536), ulen, rnd.randrange(65536)) + pl
    elif l4 == "ipv6":
        layers.append(("ipv6", len(out)))
        h = bytearray(rbytes(rnd, 40))
        h[6] = rnd.choice([6, 17, 0])
        out += bytes(h) + rbytes(rnd, rnd.randrange(0, 30))
    if rnd.random() < 0.3:
        out += rbytes(rnd, rnd.choice([1, 2, 6, 18]))       # Ethernet padding / a trailer after what the headers announce
    return out, layers


def truncations(frame, layers):
    """offsets at which to cut: every layer boundary +-1, inside every header, and right at / around the end of every
    header as the header itself announces it (IHL, data offset) and of its fixed part"""
    cuts = {0, 1, len(frame)}
    for kind, off in layers:
        ds = [-1, 0, 1, 2, 7, 13, 19, 20, 21, 39, 40]
        if off < len(frame):
            hlen = {"eth": 14, "vlan": 4, "ipv6": 40, "udp": 8}.get(kind)
            if kind == "ipv4":
                hlen = (frame[off] & 15) * 4
            elif kind == "tcp" and off + 12 < len(frame):
                hlen = (frame[off + 12] >> 4) * 4
            if hlen:
                ds += [hlen - 1, hlen, hlen + 1]
        for d in ds:
            if 0 <= off + d <= len(frame):
                cuts.add(off + d)
    return sorted(cuts)


def record_header(rnd, caplen, big=False):
    sec = rnd.choice([0, 1, 0x7FFFFFFF, 0x80000000, 0xFFFFFFFF, rnd.randrange(1 << 32)]) if big else rnd.randrange(1 << 31)
    sub = rnd.choice([0, 999999, 999999999, 0xFFFFFFFF, rnd.randrange(1 << 32)]) if big else rnd.randrange(1000000)
    wire = rnd.choice([caplen, caplen + rnd.randrange(2000), 0xFFFFFFFF if big else caplen])
    return struct.pack("<IIII", sec, sub, caplen, wire)


# ------------------------------------------------------------------ histories
def path_names(layers, upto):
    return [k for k, _ in layers[:upto]]


def rand_read(rnd, layers, dollar=True):
    """a read step: (path, prop) - mostly along the frame's real structure, sometimes astray.
    $n is meaningful only when the packet is the current packet (dollar=True)."""
    r = rnd.random()
    if r < 0.2 and dollar:
        n = rnd.randrange(0, 8)
        path = [{"t": "dollar", "n": n}]
        kind = ["pkt"] + [k for k, _ in layers]
        k = kind[n] if n < len(kind) else None
    else:
        depth = rnd.randint(0, len(layers))
        names = path_names(layers, depth)
        if rnd.random() < 0.2:
            # go astray: a layer the frame does not have at that place
            names = names[:rnd.randint(0, len(names))] + [rnd.choice(LAYER_NAMES)]
        path = [{"t": "name", "n": n} for n in names]
        k = names[-1] if names else "pkt"
    r2 = rnd.random()
    if r2 < 0.15:
        prop = ""
        if not path:
            prop = "payload"
    elif r2 < 0.3:
        prop = "payload"
    elif r2 < 0.9 and k in LAYER_PROPS:
        prop = rnd.choice(LAYER_PROPS[k])
    else:
        prop = rnd.choice(LAYER_PROPS[rnd.choice(list(LAYER_PROPS))])
    return {"op": "read", "path": path, "prop": prop}


def jint(n):
    return {"k": "int", "v": limbs(n)}


def jstr(s):
    return {"k": "str", "v": [ord(c) for c in s]}


# ------------------------------------------------------------------ script generation
def expr_for(path, upto):
    """source text of the value after `upto` steps"""
    return "a%d" % upto if upto else "p"


def value_src(v):
    k = v["k"]
    if k == "int":
        from .past import from_limbs
        n = from_limbs(v["v"])
        if n == -(1 << 63):
            return "(-9223372036854775807 - 1)"
        return "(-%d)" % -n if n < 0 else str(n)
    if k == "bool":
        return "true" if v["v"] else "false"
    if k == "str":
        return '"%s"' % "".join(chr(c) for c in v["v"])
    if k == "null":
        return "null"
    if k == "float":
        return "1.5"
    raise ValueError(k)


def step_src(j, step):
    """guarded descent: stops with [j, "E"|"N", k] when step k yields an error object or null"""
    lines = []
    path = step["path"]
    indent = ""
    closes = 0
    cur = "p"
    for k, st in enumerate(path, 1):
        if st["t"] == "dollar":
            e = "$%d" % st["n"]
        else:
            e = "%s.%s" % (cur, st["n"])
        lines.append("%slet a%d_%d = %s; let c%d_%d = chk(a%d_%d);" % (indent, j, k, e, j, k, j, k))
        lines.append('%sif c%d_%d != "" { push(OBS, [%d, c%d_%d, %d]); } else {' % (indent, j, k, j, j, k, k))
        cur = "a%d_%d" % (j, k)
        indent += "  "
        closes += 1
    if step["op"] == "read":
        tgt = cur if step["prop"] == "" else "%s.%s" % (cur, step["prop"])
        lines.append('%spush(OBS, [%d, "V", %s]);' % (indent, j, tgt))
    else:
        lines.append('%s%s.%s = %s;' % (indent, cur, step["prop"], value_src(step["val"])))
        lines.append('%spush(OBS, [%d, "A", 0]);' % (indent, j))
    for i in range(closes):
        indent = indent[:-2]
        lines.append(indent + "}")
    return "\n".join(lines)


PRELUDE = 'let OBS = [];\nfn chk(x) { if is_error(x) { "E" } else if x == null { "N" } else { "" } }\n'


def script_for(hist, inp, outp, outw, via_dollar):
    src = PRELUDE
    if via_dollar:
        src += "let p = $0;\n"
    else:
        src += 'let f = pcap_open("%s");\nlet p = pcap_read_next(f);\n' % inp
    nw = 0
    for j, st in enumerate(hist, 1):
        if st["op"] == "write":
            if st["sink"] == "pcap_write":
                # one output file per write: the written bytes are then known without trusting caplen
                src += 'let o%d = pcap_open("%s.%d", "w"); pcap_write(o%d, p); push(OBS, [%d, "W", 0]);\n' % (j, outp, j, j, j)
            else:
                src += 'let w%d = open("%s.%d", "w"); write(w%d, p); flush(w%d); push(OBS, [%d, "W", 0]);\n' % (j, outw, j, j, j, j)
        else:
            src += step_src(j, st) + "\n"
    return src


def decode_value(v):
    """projected value -> the result shape of PacketTrace.tla"""
    k = v.get("k")
    if k == "arr":
        es = v["v"]
        if all(e.get("k") == "byte" for e in es):
            return {"k": "bytes", "v": [e["v"] for e in es]}
        return {"k": "other"}
    if k in ("int", "bool", "str", "null"):
        return v
    if k == "err":
        return {"k": "err"}
    if k == "pkt":
        return {"k": "pkt"}
    return {"k": "other"}


def run_histories(items, workdir):
    """items: dicts with id, hdr (16 bytes), raw (bytes), hist (steps), via_dollar (bool).
    Runs each history through the real interpreter and returns the PacketTrace records."""
    cases = []
    for it in items:
        base = os.path.join(workdir, "k%s" % it["id"])
        it["inp"] = base + ".in.pcap"
        it["outp"] = base + ".out.pcap"
        it["outw"] = base + ".w"
        with open(it["inp"], "wb") as f:
            f.write(pcapfmt.global_header(snaplen=262144) + it["hdr"] + it["raw"])
        it["src"] = script_for(it["hist"], it["inp"], it["outp"], it["outw"], it.get("via_dollar", False))
        c = {"id": it["id"], "src": it["src"]}
        if it.get("via_dollar"):
            c["curr_pkt"] = it["inp"]
        cases.append(c)
    res = core.run_cases(cases)
    recs = []
    for it in items:
        r = res[it["id"]]
        it["run"] = {k: r.get(k) for k in ("how", "msg", "line", "stage")}
        obs = ((r.get("obs") or {}).get("v")) or []
        byj = {}
        for o in obs:
            if o.get("k") == "arr" and len(o["v"]) == 3:
                jj = o["v"][0]["v"][0] + 256 * o["v"][0]["v"][1]
                byj[jj] = o["v"]
        steps = []
        nw = 0
        crashed = r.get("how") in ("panic", "abort", "timeout")
        for j, st in enumerate(it["hist"], 1):
            s = {"op": st["op"], "path": st.get("path", []), "prop": st.get("prop", "")}
            got = byj.get(j)
            if got is None:
                # the script stopped here: a runtime error (or a crash) in this step
                if st["op"] == "write":
                    s["bytes"] = [-1]
                elif st["op"] == "assign":
                    s["val"] = st["val"]
                    s["res"] = {"k": "rterror" if r.get("how") == "rterror" else str(r.get("how"))}
                else:
                    s["res"] = {"k": "rterror" if r.get("how") == "rterror" else str(r.get("how"))}
                steps.append(s)
                break
            tag = "".join(chr(c) for c in got[1]["v"])
            if st["op"] == "write":
                if st["sink"] == "pcap_write":
                    p = "%s.%d" % (it["outp"], j)
                    data = open(p, "rb").read() if os.path.exists(p) else b""
                    s["bytes"] = list(data[24:]) if len(data) >= 24 else [-1]
                else:
                    p = "%s.%d" % (it["outw"], j)
                    s["bytes"] = list(open(p, "rb").read()) if os.path.exists(p) else [-1]
            elif tag in ("E", "N"):
                s["res"] = {"k": "stop", "why": tag, "at": got[2]["v"][0]}
                if st["op"] == "assign":
                    s["val"] = st["val"]
                    s["res"] = {"k": "rterror"}     # the guarded descent could not reach the layer: nothing assigned
                    s["op"] = "read"
                    s["prop"] = ""
                    s["res"] = {"k": "stop", "why": tag, "at": got[2]["v"][0]}
            elif st["op"] == "assign":
                s["val"] = st["val"]
                s["res"] = {"k": "ok"}
            else:
                s["res"] = decode_value(got[2])
            steps.append(s)
        it["steps"] = steps
        recs.append({"id": it["id"], "hdr": list(it["hdr"]), "raw": list(it["raw"]), "steps": steps})
    return recs


def describe_step(st):
    p = "".join(("$%d" % s["n"]) if s["t"] == "dollar" else "." + s["n"] for s in st.get("path", []))
    return "%s p%s%s" % (st["op"], p, ("." + st["prop"]) if st.get("prop") else "")
