"""Refreshes the generated parts of DESIGN.md (python3 -m lib.design_gen): the per-property "As built"
paragraphs (from MANIFEST.json), the module table (from spec/*.tla), the seeded-change table (from
seeded/*/meta.json) and the list of defects (from known_findings.json).  Generated text sits between
<!-- BEGIN:x --> / <!-- END:x --> markers; everything else in DESIGN.md is hand-written."""
import glob
import json
import os
import re
import textwrap

VERIF = os.path.dirname(os.path.dirname(os.path.abspath(__file__)))


def wrap(t, indent=""):
    return "\n".join(textwrap.wrap(t, 92, initial_indent=indent, subsequent_indent=indent))


def put(s, key, body):
    b, e = "<!-- BEGIN:%s -->" % key, "<!-- END:%s -->" % key
    block = "%s\n%s\n%s" % (b, body.rstrip("\n"), e)
    if b in s:
        return s[:s.index(b)] + block + s[s.index(e) + len(e):]
    raise SystemExit("marker %s missing in DESIGN.md" % key)


def module_table():
    rows = ["| module | lines | role |", "|---|---|---|"]
    for f in sorted(glob.glob(os.path.join(VERIF, "spec", "*.tla"))):
        txt = open(f).read()
        name = os.path.basename(f)[:-4]
        # first sentence of the header comment
        m = re.search(r"\(\*+\)?\s*\n?\(\*\s*(.*?)\*\)", txt, re.S)
        head = ""
        lines = [l.strip() for l in txt.splitlines()[1:12]]
        acc = []
        for l in lines:
            l = l.strip()
            if l.startswith("(*") and set(l) <= set("(*) "):
                continue
            if l.startswith("(*"):
                acc.append(l.strip("(*) ").strip())
            elif l.startswith("\\*"):
                acc.append(l[2:].strip())
            elif acc:
                break
        head = " ".join(acc)
        head = re.split(r"(?<=[a-z\)])\.\s", head)[0][:230]
        rows.append("| `%s` | %d | %s |" % (name, txt.count("\n"), head.replace("|", "/")))
    return "\n".join(rows)


def asbuilt(check):
    t = "**As built.** " + check["level_claimed"]["text"] + " *Not decided / assumptions:* " + (check.get("level_note") or "-")
    return wrap(t)


def seeds_table():
    rows = ["| seed | property | files | what it needs to manifest (sub-agent's note, abridged) | own check | other checks that report it |",
            "|---|---|---|---|---|---|"]
    for d in sorted(glob.glob(os.path.join(VERIF, "seeded", "*"))):
        mp = os.path.join(d, "meta.json")
        if not os.path.exists(mp):
            continue
        m = json.load(open(mp))
        note = " ".join(m.get("needs_to_manifest", "").split())
        note = re.sub(r"[#*`|]", "", note)[:260]
        det = m.get("detection", {})
        own = det.get(m["property"], {})
        own_s = "%s%s" % (own.get("verdict", "?"), (" (first round: missed; " + own["strengthened"] + ")") if own.get("strengthened") else "")
        others = ", ".join("%s" % k for k, v in sorted(det.items()) if k != m["property"] and v.get("verdict") == "DETECTED") or "-"
        rows.append("| %s | %s | %s | %s | %s | %s |" % (os.path.basename(d), m["property"], ", ".join(m.get("files_changed", [])), note, own_s, others))
    return "\n".join(rows)


def findings():
    d = json.load(open(os.path.join(VERIF, "known_findings.json")))
    fixed = [f for f in d["findings"] if f.get("status", "").startswith("fixed")]
    opened = [f for f in d["findings"] if f.get("status", "open") == "open"]
    out = ["Fixed in /repo (one `fix:` commit each; the witness stays in the generators as a regression case; a fixed entry "
           "suppresses nothing):", ""]
    byprop = {}
    for f in fixed:
        byprop.setdefault(f["property"], []).append(f)
    for p in sorted(byprop):
        seen = set()
        for f in byprop[p]:
            m = re.match(r"fixed: property=\S+ (\S+) (.*)", f["status"])
            commit, what = (m.group(1), m.group(2)) if m else ("?", f["status"])
            if (commit, what) in seen:
                continue
            seen.add((commit, what))
            out.append(wrap("* %s `%s` %s" % (p, commit, what), ""))
    out += ["", "Open (recorded, not repaired; each prints a KNOWN-FINDING line while its witness still deviates):", ""]
    seen = set()
    for f in opened:
        key = (f["property"], f["what"])
        if key in seen:
            continue
        seen.add(key)
        n = sum(1 for g in opened if (g["property"], g["what"]) == key)
        out.append(wrap("* %s (%d signature%s) %s; witness: `%s`" % (f["property"], n, "s" if n > 1 else "", f["what"], str(f.get("witness", ""))[:160])))
    return "\n".join(out)


def main():
    p = os.path.join(VERIF, "DESIGN.md")
    s = open(p).read()
    man = json.load(open(os.path.join(VERIF, "MANIFEST.json")))
    for c in man["checks"]:
        s = put(s, "asbuilt-" + c["property_id"], asbuilt(c))
    s = put(s, "modules", module_table())
    s = put(s, "seeds", seeds_table())
    s = put(s, "findings", findings())
    open(p, "w").write(s)
    print("DESIGN.md refreshed")


if __name__ == "__main__":
    main()
